"""Witness replayers for recorded findings on ber/decoder.py."""


def nested_definite_segments():
    from pyasn1.codec.ber import decoder
    from pyasn1.type import univ
    v, rest = decoder.decode(bytes.fromhex('24082406040161040162'), asn1Spec=univ.OctetString())
    return bytes(v) != b'ab', 'decode(24 08 24 06 04 01 61 04 01 62, OCTET STRING) = %r, X.690 8.7.3 says b"ab"' % bytes(v)
