"""Native replay of a witness against the real code (runs under /venv/bin/python, PYTHONPATH=<repo>:/verif).
usage: python -m replayers.run '<json witness>'     witness = {"runner": "module:function", "args": {...}}
exit 1: the defect reproduces (the contract clause is violated by the real code on this input)
exit 0: it does not reproduce."""
import importlib
import json
import sys


def main():
    w = json.loads(sys.argv[1])
    mod, fn = w['runner'].split(':')
    f = getattr(importlib.import_module(mod), fn)
    bad, detail = f(**w.get('args', {}))
    print(('REPRODUCED: ' if bad else 'not reproduced: ') + str(detail))
    return 1 if bad else 0


if __name__ == '__main__':
    sys.exit(main())
