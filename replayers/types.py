"""Witness replayers for recorded findings on pyasn1/type/*."""


def empty_union():
    from pyasn1.type import constraint, error
    c = constraint.ConstraintsUnion()
    try:
        c(5)
    except error.ValueConstraintError:
        return False, 'empty union rejects 5'
    return True, 'ConstraintsUnion()(5) passes: the empty union admits every value'


def time_fraction():
    import datetime
    from pyasn1.type import useful
    dt = datetime.datetime(2017, 7, 11, 0, 1, 2, 5000, tzinfo=datetime.timezone.utc)
    text = str(useful.GeneralizedTime.fromDateTime(dt))
    return text.endswith('.5Z'), 'fromDateTime(... 5 ms) = %s; X.680 reads .5 as 500 ms' % text


def cer_time_zero_removal():
    from pyasn1.type import useful
    from pyasn1.codec.cer import encoder
    out = encoder.encode(useful.GeneralizedTime('20170801120112.102Z'))[2:].decode()
    return out != '20170801120112.102Z', 'cer.encode(GeneralizedTime 20170801120112.102Z) = %s' % out


def seqof_sparse_read():
    from pyasn1.type import univ
    so = univ.SequenceOf(componentType=univ.Integer())
    so.append(1)
    before = len(so)
    try:
        so[4]
    except (IndexError, KeyError, Exception) as e:
        return False, 'so[4] raised %s' % type(e).__name__
    return len(so) != before, 'reading so[4] of a 1-element SEQUENCE OF succeeds and len() goes from %d to %d' % (before, len(so))


def constraint_add(n):
    """set + constraint keeps every operand and appends the new one, also when the new one compares equal
    (by operands) to an existing operand of another kind"""
    from pyasn1.type import constraint
    ops = [constraint.ValueRangeConstraint(0, 7), constraint.ValueRangeConstraint(1, 9)][:n]
    new = constraint.SingleValueConstraint(0, 7)
    base = constraint.ConstraintsIntersection(*ops)
    derived = base + new
    got = list(derived)
    ok = len(got) == n + 1 and all(got[i] is ops[i] for i in range(n)) and got[n] is new
    return (not ok), 'ConstraintsIntersection(%s) + SingleValueConstraint(0, 7) has operands %r' % (
        ', '.join(repr(o) for o in ops), got)


def simple_derive_frame(method='clone'):
    """clone()/subtype() leave the source object's read-only record alone"""
    from pyasn1.type import univ, tag, constraint
    a = univ.Integer(5)
    before = dict(a.readOnly)
    if method == 'clone':
        a.clone(tagSet=tag.initTagSet(tag.Tag(tag.tagClassContext, tag.tagFormatSimple, 9)),
                subtypeSpec=constraint.ConstraintsIntersection(constraint.ValueRangeConstraint(0, 9)))
    else:
        a.subtype(implicitTag=tag.Tag(tag.tagClassContext, tag.tagFormatSimple, 9),
                  subtypeSpec=constraint.ValueRangeConstraint(0, 9))
    after = dict(a.readOnly)
    bad = [k for k in before if before[k] is not after.get(k)] + [k for k in after if k not in before]
    return bool(bad), 'Integer(5).%s(...) changed the source object\'s read-only record: %s' % (method, bad or 'nothing')


def simple_derive_funnel(method='subtype'):
    """a value object derived with a narrower constraint is validated: it either satisfies its own subtypeSpec or the
    derivation is refused"""
    from pyasn1.type import univ, constraint
    from pyasn1 import error
    a = univ.Integer(25)
    try:
        b = getattr(a, method)(subtypeSpec=constraint.ValueRangeConstraint(0, 10)) if method == 'subtype' else \
            a.clone(subtypeSpec=constraint.ConstraintsIntersection(constraint.ValueRangeConstraint(0, 10)))
    except error.PyAsn1Error:
        return False, 'derivation refused'
    try:
        b.subtypeSpec(int(b))
    except error.PyAsn1Error:
        return True, 'Integer(25).%s(subtypeSpec=ValueRange(0,10)) produced the value object %r which its own ' \
                     'subtypeSpec rejects' % (method, b)
    return False, 'derived object %r satisfies its constraint' % (b,)


def choice_read_reselects():
    from pyasn1.type import univ, namedtype
    c = univ.Choice(componentType=namedtype.NamedTypes(namedtype.NamedType('i', univ.Integer()),
                                                       namedtype.NamedType('s', univ.OctetString())))
    c['s'] = b'D'
    try:
        c['i']
    except Exception:
        pass
    try:
        name, isv = c.getName(), bool(c.isValue)
    except Exception as e:
        name, isv = repr(e), False
    return not (name == 's' and isv), "CHOICE with s selected, after reading c['i']: selected = %s, isValue = %r" % (name, isv)


def union_operand_supertype():
    from pyasn1.type import constraint as C
    a = C.SingleValueConstraint(5)
    u = C.ConstraintsUnion(a, C.ValueRangeConstraint(1, 3))
    return bool(a.isSuperTypeOf(u)), 'SingleValueConstraint(5).isSuperTypeOf(ConstraintsUnion(SingleValueConstraint(5), ' \
                                     'ValueRangeConstraint(1, 3))) = %r; the union admits 2' % a.isSuperTypeOf(u)


def real_value_constraints():
    from pyasn1.type import univ, constraint
    from pyasn1 import error
    try:
        univ.Real(1.5, subtypeSpec=constraint.ValueRangeConstraint(1.0, 2.0))
    except error.PyAsn1Error as e:
        return True, 'REAL (1.0..2.0) refuses 1.5: %s' % str(e)[:80]
    except TypeError as e:
        return True, 'Real(1.5, subtypeSpec=ValueRangeConstraint(1.0, 2.0)) raises TypeError: %s' % e
    return False, 'REAL (1.0..2.0) admits 1.5'


def ber_real_nr3():
    from pyasn1.type import univ
    from pyasn1.codec.ber import encoder
    e = encoder.encode(univ.Real((123, 10, 11)))
    body = e[3:]
    return b'.' not in body.split(b'E')[0], 'BER encoding of Real((123, 10, 11)) has contents %r' % bytes(e[2:])


def encode_instantiates_born_value_member():
    """encoding a record whose mandatory member (itself a record with OPTIONAL members only) was never touched"""
    from pyasn1.type import univ, namedtype
    from pyasn1.codec.ber import encoder

    class Inner(univ.Sequence):
        componentType = namedtype.NamedTypes(namedtype.OptionalNamedType('x', univ.Integer()))

    class Outer(univ.Sequence):
        componentType = namedtype.NamedTypes(namedtype.NamedType('inner', Inner()),
                                             namedtype.OptionalNamedType('y', univ.Integer()))
    o = Outer()
    before = o.isValue
    try:
        enc = encoder.encode(o)
    except Exception as e:
        return False, 'encode(Outer()) raised %s' % type(e).__name__
    return (before, o.isValue) == (False, True), 'Outer().isValue is %s, encode() gives %s, afterwards isValue is %s' % (
        before, enc.hex(), o.isValue)
