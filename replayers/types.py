"""Witness replayers for recorded findings on pyasn1/type/*."""


def empty_union():
    from pyasn1.type import constraint, error
    c = constraint.ConstraintsUnion()
    try:
        c(5)
    except error.ValueConstraintError:
        return False, 'empty union rejects 5'
    return True, 'ConstraintsUnion()(5) passes: the empty union admits every value'


def time_fraction():
    import datetime
    from pyasn1.type import useful
    dt = datetime.datetime(2017, 7, 11, 0, 1, 2, 5000, tzinfo=datetime.timezone.utc)
    text = str(useful.GeneralizedTime.fromDateTime(dt))
    return text.endswith('.5Z'), 'fromDateTime(... 5 ms) = %s; X.680 reads .5 as 500 ms' % text


def cer_time_zero_removal():
    from pyasn1.type import useful
    from pyasn1.codec.cer import encoder
    out = encoder.encode(useful.GeneralizedTime('20170801120112.102Z'))[2:].decode()
    return out != '20170801120112.102Z', 'cer.encode(GeneralizedTime 20170801120112.102Z) = %s' % out


def seqof_sparse_read():
    from pyasn1.type import univ
    so = univ.SequenceOf(componentType=univ.Integer())
    so.append(1)
    before = len(so)
    try:
        so[4]
    except (IndexError, KeyError, Exception) as e:
        return False, 'so[4] raised %s' % type(e).__name__
    return len(so) != before, 'reading so[4] of a 1-element SEQUENCE OF succeeds and len() goes from %d to %d' % (before, len(so))
