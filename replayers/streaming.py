"""Witness replayers for the recorded findings on codec/streaming.py."""
import io


class _Feed(io.RawIOBase):
    def __init__(self, script):
        self.script = list(script)

    def readable(self):
        return True

    def seekable(self):
        return False

    def read(self, n=-1):
        if not self.script:
            return b''
        x = self.script.pop(0)
        return x


def wrapper_renumbering():
    from pyasn1.codec.streaming import CachingStreamWrapper
    K = io.DEFAULT_BUFFER_SIZE
    raw = io.BytesIO(bytes(3 * K))
    raw.seekable = lambda: False
    w = CachingStreamWrapper(raw)
    w.read(K + 1)
    before = w.tell()
    w.markedPosition = w.tell()
    after = w.tell()
    return after != before, 'tell() was %d, after `markedPosition = tell()` it is %d' % (before, after)


def eos_masked():
    from pyasn1.codec.ber import decoder
    from pyasn1 import error
    from standins.stream_checks import Feed
    src = Feed()
    src.feed(b'\x02\x04\x01')      # INTEGER of 4 octets, only 1 arrives ...
    it = iter(decoder.StreamingDecoder(src))
    outcomes = []
    try:
        for step in range(12):
            if step == 2:
                src.finish()        # ... then the stream is closed
            r = next(it)
            outcomes.append(type(r).__name__)
    except error.EndOfStreamError:
        return False, 'EndOfStreamError raised after %d steps' % len(outcomes)
    return True, '12 steps on a closed, truncated stream: %s ... (never EndOfStreamError)' % outcomes[:4]


def wrapper_mark_keeps_lookahead(back=2):
    """setting the mark once the cache outgrew the buffer size keeps the octets that were read ahead and pushed back"""
    from pyasn1.codec.streaming import CachingStreamWrapper
    K = io.DEFAULT_BUFFER_SIZE
    data = bytes((i * 7 + 3) % 251 for i in range(2 * K))
    raw = io.BytesIO(data)
    raw.seekable = lambda: False
    w = CachingStreamWrapper(raw)
    w.read(K + 100)
    w.seek(-back, io.SEEK_CUR)              # look-ahead pushed back
    w.markedPosition = w.tell()             # element start: the cache may be dropped here
    got = w.read(back + 3)
    want = data[K + 100 - back:K + 100 + 3]
    return got != want, 'after reading %d octets, seeking back %d and setting the mark, read(%d) gives %r, the stream ' \
                        'holds %r there' % (K + 100, back, back + 3, got, want)
