"""Replayers for the framing / leaf encoders: call the REAL function on concrete inputs and evaluate
the contract clause with the executable twin of the spec (spec/x690.py)."""
from spec import x690


def encode_tag(cls, fmt, num, isConstructed):
    from pyasn1.codec.ber.encoder import AbstractItemEncoder
    got = AbstractItemEncoder().encodeTag((cls, fmt, num), isConstructed)
    want = tuple(x690.ident(cls, 32 if (isConstructed or fmt == 32) else 0, num))
    return tuple(got) != want, 'encodeTag(%r, %r) = %r, X.690 8.1.2 says %r' % ((cls, fmt, num), isConstructed, got, want)


def encode_length(length, defMode, supportIndefLenMode):
    from pyasn1.codec.ber.encoder import AbstractItemEncoder
    from pyasn1 import error

    class E(AbstractItemEncoder):
        pass
    E.supportIndefLenMode = supportIndefLenMode
    want = (0x80,) if (not defMode and supportIndefLenMode) else tuple(x690.length_def(length))
    try:
        got = tuple(E().encodeLength(length, defMode))
    except error.PyAsn1Error as e:
        return len(x690.be256(length)) <= 126, 'encodeLength(%d) raised %s' % (length, e)
    return got != want, 'encodeLength(%d, defMode=%r) = %r, X.690 8.1.3 says %r' % (length, defMode, got, want)


def to_bytes_signed(value):
    from pyasn1.compat.integer import to_bytes
    got = list(to_bytes(value, signed=True))
    want = x690.twos_min(value)
    return got != want, 'to_bytes(%d, signed=True) = %r, minimal two\'s complement is %r' % (value, got, want)


def from_bytes_signed(octets):
    from pyasn1.compat.integer import from_bytes
    got = from_bytes(bytes(octets), signed=True)
    want = x690.twos_val(list(octets)) if octets else 0
    return got != want, 'from_bytes(%r, signed=True) = %r, want %r' % (octets, got, want)


def framing(tags, content, isConstructed, isOctets, supportIndefLenMode, defMode, ifNotEmpty=False):
    """run the real AbstractItemEncoder.encode with a stub codec body and check, level by level, that an
    end-of-octets marker follows exactly the indefinite headers (C01/C07) and that in indefinite mode exactly
    the constructed levels are indefinite (C03, CER form)."""
    from pyasn1.codec.ber.encoder import AbstractItemEncoder
    from pyasn1.type import tag

    class Codec(AbstractItemEncoder):
        def encodeValue(self, value, asn1Spec, encodeFun, **options):
            c = bytes(content) if isOctets else tuple(content)
            return c, isConstructed, isOctets
    Codec.supportIndefLenMode = supportIndefLenMode

    class V(object):
        pass
    v = V()
    ts = [tag.Tag(c, f, n) for c, f, n in tags]
    v.tagSet = tag.TagSet(ts[0], *ts)
    opts = {}
    if defMode is not None:
        opts['defMode'] = defMode
    if ifNotEmpty:
        opts['ifNotEmpty'] = True
    out = Codec().encode(v, None, None, **opts)
    if not content and isConstructed and ifNotEmpty:
        return out != (b'' if isOctets else ()), 'ifNotEmpty shortcut'
    # parse from the outside in
    data = bytes(out)
    pos, end = 0, len(data)
    problems = []
    dm = True if defMode is None else defMode
    for level, (c, f, n) in enumerate(reversed(tags)):
        idx = len(tags) - 1 - level          # idx in the encoder's loop: 0 = innermost
        constructed = (idx > 0) or isConstructed or f == 32
        cls, pc, num, p1 = x690.read_ident(data, pos)
        if (cls, num) != (c, n):
            problems.append('level %d: tag (%d,%d) instead of (%d,%d)' % (idx, cls, num, c, n))
            break
        ln, p2 = x690.read_length(data, p1)
        indef = ln == -1
        must_indef = (not dm) and (idx > 0 or isConstructed)
        if indef != must_indef:
            problems.append('level %d (%s): %s length in %s mode' % (
                idx, 'explicit wrapper' if idx > 0 else 'base tag', 'indefinite' if indef else 'definite',
                'definite' if dm else 'indefinite'))
        if indef:
            if data[end - 2:end] != b'\x00\x00':
                problems.append('level %d: indefinite header without end-of-octets' % idx)
            pos, end = p2, end - 2
        else:
            if p2 + ln != end:
                problems.append('level %d: definite length %d but %d octets follow (stray end-of-octets?)' % (
                    idx, ln, end - p2))
            pos, end = p2, p2 + ln
    if not problems and data[pos:end] != bytes(content):
        problems.append('content differs')
    return bool(problems), 'encode(tags=%r, defMode=%r, supportIndefLenMode=%r) = %s: %s' % (
        tags, defMode, supportIndefLenMode, data.hex(), '; '.join(problems) or 'ok')


def explicit_primitive_indef():
    """witness of KF-explicit-primitive-indef on the public API"""
    from pyasn1.codec.ber import encoder
    from pyasn1.type import univ, tag
    v = univ.Integer(5).subtype(explicitTag=tag.Tag(tag.tagClassContext, tag.tagFormatConstructed, 1))
    out = encoder.encode(v, defMode=False)
    T = {'k': 'INTEGER', 'tags': [('E', 128, 1)]}
    try:
        got, rest = x690.decode(T, out)
        bad = (got, rest) != (5, b'')
    except Exception as e:
        bad = True
    return bad, 'ber.encode([1] EXPLICIT INTEGER 5, defMode=False) = %s (definite header followed by a stray ' \
                'end-of-octets)' % out.hex()


def cer_bitstring_1001():
    from pyasn1.codec.cer import encoder
    from pyasn1.type import univ
    out = encoder.encode(univ.BitString((1, 0) * 4000))
    want = x690.cer({'k': 'BITSTRING', 'tags': []}, '10' * 4000)
    return out != want, 'cer.encode(8000-bit BIT STRING) starts %s, X.690 9.2 wants %s' % (out[:6].hex(), want[:8].hex())


def empty_optional_of_omitted():
    from pyasn1.codec.der import encoder
    from pyasn1.type import univ, namedtype
    s = univ.Sequence(componentType=namedtype.NamedTypes(
        namedtype.NamedType('a', univ.Integer()),
        namedtype.OptionalNamedType('l', univ.SequenceOf(componentType=univ.Integer()))))
    s['a'] = 1
    s['l'].clear()
    out = encoder.encode(s)
    return out != bytes.fromhex('30050201013000'), 'der.encode(SEQUENCE {a 1, l {} }) = %s, DER is 30050201013000' % out.hex()


def item_encoder_modes(fixedDef, fixedChunk, options):
    """run the real SingleItemEncoder.__call__ of a subclass with the given fixed modes over a recording stub codec:
    the codec must see the fixed modes, not the caller's."""
    from pyasn1.codec.ber import encoder

    seen = {}

    class Codec(object):
        def encode(self, value, asn1Spec, encodeFun, **opts):
            seen.update(opts)
            return b'\x05\x00'

    class E(encoder.SingleItemEncoder):
        fixedDefLengthMode = fixedDef
        fixedChunkSize = fixedChunk

    class V(object):
        typeId = 424242
    e = E(typeMap={424242: Codec()})
    e(V(), **options)
    bad = []
    if fixedDef is not None and seen.get('defMode', 'absent') is not fixedDef:
        bad.append('defMode seen by the codec is %r, class fixes %r' % (seen.get('defMode', 'absent'), fixedDef))
    if fixedChunk is not None and seen.get('maxChunkSize', 'absent') != fixedChunk:
        bad.append('maxChunkSize seen by the codec is %r, class fixes %r' % (seen.get('maxChunkSize', 'absent'), fixedChunk))
    if fixedDef is None and seen.get('defMode', 'absent') != options.get('defMode', 'absent'):
        bad.append('caller defMode %r replaced by %r' % (options.get('defMode', 'absent'), seen.get('defMode', 'absent')))
    if fixedChunk is None and seen.get('maxChunkSize', 'absent') != options.get('maxChunkSize', 'absent'):
        bad.append('caller maxChunkSize %r replaced by %r' % (options.get('maxChunkSize', 'absent'),
                                                              seen.get('maxChunkSize', 'absent')))
    return bool(bad), 'SingleItemEncoder(fixedDefLengthMode=%r, fixedChunkSize=%r)(value, **%r): %s' % (
        fixedDef, fixedChunk, options, '; '.join(bad) or 'codec saw %r' % seen)
