"""Proof skeletons: which obligations, structural/table obligations, paper steps and labelled bounded
stand-ins make up the check of each property.  See DESIGN.md section 6."""

TRUSTED_BASE = [
    'pyvc executor (python ast -> path-wise verification conditions): /verif/pyvc/core.py, validated per run by '
    'vacuity guards and, in the thorough tier, by a mutant kill matrix on a scratch copy',
    'z3 (SMT solver) soundness',
    'CPython 3 semantics of the modelled subset (ints are mathematical; bytes/tuple/list as sequences)',
    'A-BUILTIN: axioms for int.bit_length / int.to_bytes / int.from_bytes / bytes() taken from the CPython docs '
    '(spec/smt.py), cross-checked on concrete points by pyvc.selfcheck',
]
ASSUMPTIONS = [
    'A-PY3: python-2 branches of version switches are not verified (pinned interpreter is CPython 3.12)',
    'A-OBJ: attribute existence, MRO and __getattr__ of pyasn1 objects are not modelled; objects are records '
    'with the fields the contract declares',
    'A-RES: MemoryError / RecursionError / KeyboardInterrupt are outside the model',
    'A-GEN: python generator resume semantics trusted (a suspended generator continues from its yield)',
    'A-LOG: `if LOG:` blocks are dropped at extraction; justified by obligation frame::codecs#log-blocks-effect-free',
]

E = 'contracts.ber_encoder'
IN = 'contracts.integer'

PROPS = {}
NOT_CLAIMED = {('C%02d' % i): 'check not built yet in this session (work in progress; see DESIGN.md section 6)' for i in range(1, 21)}

ST = 'contracts.streaming'
D = 'contracts.ber_decoder'

ENC_FRAMING = [(E, 'ber.encoder::AbstractItemEncoder.encodeTag'), (E, 'ber.encoder::AbstractItemEncoder.encodeLength'),
               (E, 'ber.encoder::AbstractItemEncoder.encode')]
ENC_CONTENT = [(E, 'ber.encoder::RealEncoder._dropFloatingPoint[integral-mantissa]'), (E, 'ber.encoder::RealEncoder.encodeValue[binary,base-2]'), (E, 'ber.encoder::BooleanEncoder.encodeValue'), (E, 'cer.encoder::BooleanEncoder.encodeValue'),
               (E, 'ber.encoder::NullEncoder.encodeValue'), (E, 'ber.encoder::IntegerEncoder.encodeValue'),
               (E, 'ber.encoder::ObjectIdentifierEncoder.encodeValue'),
               (E, 'ber.encoder::SequenceEncoder.encodeValue[value-object]'),
               (E, 'ber.encoder::SequenceEncoder.encodeValue[value-object,any-size]'),
               (E, 'ber.encoder::OctetStringEncoder.encodeValue[value-object]'),
               (E, 'ber.encoder::SequenceOfEncoder._encodeComponents[value-object]'),
               (E, 'ber.encoder::SequenceOfEncoder._encodeComponents[value-object,any-size]'),
               (E, 'ber.encoder::BitStringEncoder.encodeValue[value-object]'),
               (E, 'ber.encoder::ChoiceEncoder.encodeValue[value-object]'),
               (E, 'ber.encoder::AnyEncoder.encodeValue[value-object]')]
INTS = [(IN, 'compat.integer::to_bytes[signed]'), (IN, 'compat.integer::to_bytes[unsigned,length]'),
        (IN, 'compat.integer::from_bytes[signed]'), (IN, 'compat.integer::from_bytes[unsigned]')]
READS = [(ST, 'codec.streaming::readFromStream[complete]'), (ST, 'codec.streaming::readFromStream[partial]'),
         (ST, 'codec.streaming::isEndOfStream[BytesIO]'), (ST, 'codec.streaming::isEndOfStream[generic]'),
         (ST, 'codec.streaming::peekIntoStream[no-peek]'), (ST, 'codec.streaming::peekIntoStream[peek]')]
WRAPPER = [(ST, 'codec.streaming::CachingStreamWrapper.%s' % n) for n in
           ('read', 'peek', 'tell', 'seek[back-to-mark]', 'seek[relative-back]', 'markedPosition.setter', 'peek[non-blocking]')]
DEC_SIMPLE = [(D, 'ber.decoder::IntegerPayloadDecoder.valueDecoder[complete]'),
              (D, 'ber.decoder::IntegerPayloadDecoder.valueDecoder[partial]'),
              (D, 'ber.decoder::NullPayloadDecoder.valueDecoder[complete]'),
              (D, 'ber.decoder::BooleanPayloadDecoder._createComponent'),
              (D, 'ber.decoder::RawPayloadDecoder.indefLenValueDecoder'),
              (D, 'ber.decoder::ObjectIdentifierPayloadDecoder.valueDecoder[complete]'),
              (D, 'ber.decoder::OctetStringPayloadDecoder.valueDecoder[complete]'),
              (D, 'ber.decoder::BitStringPayloadDecoder.valueDecoder[complete]')]
DEC_REGIONS = [(D, 'ber.decoder::SingleItemDecoder.__call__@stDecodeLength[complete]'),
               (D, 'ber.decoder::SingleItemDecoder.__call__@stDecodeLength[partial]'),
               (D, 'ber.decoder::SingleItemDecoder.__call__@stDecodeTag[outermost,complete]'),
               (D, 'ber.decoder::SingleItemDecoder.__call__@stDecodeTag[inner,complete]'),
               (D, 'ber.decoder::SingleItemDecoder.__call__@stDecodeTag[outermost,partial]'),
               (D, 'ber.decoder::SingleItemDecoder.__call__@stDecodeValue[complete]'),
               (D, 'ber.decoder::SingleItemDecoder.__call__@allowEoo[complete]'),
               (D, 'ber.decoder::SingleItemDecoder.__call__@allowEoo[partial]')]
U2 = 'shared universe U2 (quick: ~800 (type, value) pairs; thorough: full leaf product x tag stacks)'
PAPER_INDUCTION = ('structural induction over the type universe (dynamic dispatch through TAG_MAP/TYPE_MAP and the '
                   'univ.py object model): premises are the per-function obligations and the dispatch-table '
                   'obligations; the induction itself is a paper argument')
NOTE = ('Trusted: pyvc executor, z3/cvc5, CPython builtin axioms (A-BUILTIN), object model (A-OBJ). Functions not under '
        'contract are reached only by the labelled bounded stand-ins, which are never counted as proved.')


def prop(**kw):
    kw.setdefault('level', 'other')
    kw.setdefault('level_note', NOTE)
    kw.setdefault('paper', [PAPER_INDUCTION])
    return kw


PROPS['C01'] = prop(
    level_text='Framing (identifier/length octets, end-of-octets exactly after an indefinite header), INTEGER octets and '
               'the INTEGER/BOOLEAN/NULL payload decoders are proved for all inputs against X.690 spec functions; the '
               'round trip over the type universe composes them on paper; decode(encode(v, mode), T) == v is a labelled '
               'bounded stand-in over U2 x 8 encoder modes.',
    contracts=ENC_FRAMING + ENC_CONTENT + INTS + DEC_SIMPLE + DEC_REGIONS + READS[:1], tables=['dispatch'],
    standins=[dict(module='standins.codec_checks', checks='rt-ber', bound=U2 + ' x 8 modes (def/indef x chunk 0,1,3,7,1000)')],
    explanation='contracts on framing + content leaf functions (proved), dispatch tables (complete evaluation), '
                'round trip on entry points (bounded)')

PROPS['C02'] = prop(
    level_text='Same premises as C01 with the fixed CER/DER modes; decoder tables of cer/der are proved (by complete '
               'evaluation) to differ from BER only by stricter codecs, so whenever several decoders accept they run '
               'the same content decoders; the five (encoder, decoder) pairs are a bounded stand-in over U2.',
    contracts=ENC_FRAMING + ENC_CONTENT + INTS + DEC_SIMPLE + DEC_REGIONS, tables=['dispatch', 'decoder-tables'],
    standins=[dict(module='standins.codec_checks', checks='rt-canon', bound=U2 + ' incl. strings of 999/1000/1001/2001 octets')],
    explanation='contracts (proved) + finite tables (complete) + five codec pairs (bounded)')

PROPS['C03'] = prop(
    level_text='Contracts on the real identifier/length/framing/integer functions are discharged for all inputs against '
               'X.690 spec functions; whole-encoder byte equality with an independent DER/CER reference is a labelled '
               'bounded stand-in; composition over the type universe is a paper induction.',
    contracts=ENC_FRAMING + ENC_CONTENT + INTS[:1], tables=['dispatch'],
    standins=[dict(module='standins.codec_checks', checks='der-twin,cer-twin,ber-read', bound=U2 + ', 8 BER encoder modes')],
    explanation='machine-checked contracts on the real framing and content functions against the X.690 spec '
                'functions; entry points additionally checked on a bounded universe against an independent DER/CER '
                'reference (labelled bounded)')

PROPS['C05'] = prop(
    level_text='The generator protocol is decided structurally and by contract: every generator-consuming loop in the '
               'decoders forwards underrun markers and does nothing else on that path (D1, one obligation per site, '
               'enumerated from the AST), reads are atomic and rewind on short read (D2, readFromStream contract for all '
               'inputs), the result value is the last item yielded (D5), the caching wrapper refines a seekable stream '
               '(C11 contracts). Schedule independence then follows by the stutter meta-lemma (paper). All partitions '
               'of short two-object streams are a bounded stand-in.',
    contracts=READS + WRAPPER + DEC_SIMPLE + DEC_REGIONS, tables=['protocol', 'errors'],
    standins=[dict(module='standins.stream_checks', checks='schedules',
                   bound='220 (type, value) pairs, encodings of <= 7 (quick) / 9 (thorough) octets doubled, all '
                         '2^(n-1) partitions up to 4096 (quick) / 70000, non-seekable source with None polls')],
    paper=['L-stutter: from D1-D3, D5 and python generator semantics (A-GEN) a suspended decoder continues only from the '
           'bytes already consumed, so the yielded objects do not depend on the arrival schedule', PAPER_INDUCTION],
    explanation='protocol obligations D1/D2/D5 + stream contracts (proved), schedule independence by a paper '
                'meta-lemma, exhaustive partitions of short streams (bounded)')

PROPS['C06'] = prop(
    level_text='readFromStream is proved to report end-of-stream only when the stream signalled it and otherwise to yield '
               'underrun markers without consuming input; EndOfStreamError < SubstrateUnderrunError < PyAsn1Error and '
               '"every explicit raise in the decoders is a library error" are decided on the real class graph / AST; '
               'every cut of U2 encodings (one-shot and streaming) is a bounded stand-in.',
    contracts=READS + DEC_SIMPLE[:3], tables=['errors', 'protocol'],
    standins=[dict(module='standins.codec_checks', checks='truncation', bound=U2 + ' x 4 codecs/modes x every cut (<= 64 octets: all; longer: 30 cuts) x with/without spec'),
              dict(module='standins.stream_checks', checks='stream-truncation', bound='220 pairs, encodings <= 7/9 octets, every cut, stream closed after 2 polls')],
    explanation='read classification contracts + class graph (proved/complete); all cut points (bounded)')

PROPS['C07'] = prop(
    level_text='Encoder side proved: an end-of-octets marker follows exactly an indefinite header (iteration contract of '
               'AbstractItemEncoder.encode; one recorded finding). Decoder side: reads consume exactly the requested '
               'octets (readFromStream), end-of-stream test is non-destructive, payload decoders consume exactly '
               '`length` octets, explicit-tag unwrapping yields its value last. decode(e + t) == (v, t) and stream '
               'positions after each object are bounded stand-ins.',
    contracts=ENC_FRAMING + READS + DEC_SIMPLE + DEC_REGIONS, tables=['protocol'],
    standins=[dict(module='standins.codec_checks', checks='tails', bound=U2 + ' x 4 codecs/modes x 5 tails'),
              dict(module='standins.stream_checks', checks='concat', bound='220 pairs x 3 codecs x 1..3 concatenations')],
    explanation='framing and exact-consumption contracts (proved); tails and concatenations (bounded)')

PROPS['C09'] = prop(
    level_text='from_bytes (two\'s complement of any length, incl. non-minimal), BOOLEAN any-non-zero and the INTEGER/NULL '
               'payload decoders are proved against the spec relation; the remaining BER choice points (length forms, '
               'segmentation trees, SET order, DEFAULT presence) are exercised by a nondeterministic independent '
               'reference encoder as a bounded stand-in.',
    contracts=INTS[2:] + DEC_SIMPLE[:4] + DEC_SIMPLE[6:] + DEC_REGIONS, tables=['dispatch'],
    standins=[dict(module='standins.codec_checks', checks='ber-forms', bound=U2 + ' x up to 60 systematically enumerated BER forms per value')],
    explanation='content decoders against the BER relation (proved); enumerated BER forms (bounded)')

PROPS['C11'] = prop(
    level='other',
    level_text='Data structure against abstract view: every CachingStreamWrapper operation preserves the representation '
               'invariant (cache == raw[dropped:obtained]) and behaves like a seekable stream over the same octets '
               '(read/peek/tell/seek proved for all states and sizes, DEFAULT_BUFFER_SIZE abstracted to K >= 1); one '
               'recorded finding (tell() of the wrapper itself restarts from 0 at a mark, pinned by a test). The wrapper counts what '
               'it drops: tell() + droppedOctets is the position in the underlying stream (invariant of every operation), which is '
               'what the decoders measure lengths with (contract _consumed, structural obligation lengths-measured-with-consumed). '
               'Substrate kinds and operation histories are bounded stand-ins.',
    contracts=WRAPPER + READS[:2], tables=[],
    standins=[dict(module='standins.stream_checks', checks='substrate-kinds,wrapper-histories',
                   bound='220 pairs + encodings of 8191/8192/8193/24576 octets, deep and wide; 7 substrate kinds; 400 (quick) / 6000 random histories of <= 8 operations')],
    paper=['the decoders touch a substrate only through read/seek/tell/markedPosition, so results are a function of the '
           'stream model (frame argument over ber/decoder.py, paper)'],
    explanation='refinement contracts of the wrapper (proved for all inputs); substrate kinds/histories (bounded)')

PROPS['C13'] = prop(
    level_text='Identifier octets equal X.690 8.1.2 for every class/format/number (encodeTag, loop invariant over the '
               'base-128 digits), one header per tag from innermost to outermost with the constructed bit set for wrappers '
               'and constructed content only (iteration contract of encode). Tag algebra and accept/reject are covered by a '
               'bounded stand-in until their contracts are built.',
    contracts=ENC_FRAMING + DEC_REGIONS[2:5], tables=['dispatch'],
    standins=[dict(module='standins.tag_checks', checks='tag-stacks', bound='depth 0..3 stacks over 3 classes x 9 numbers x implicit/explicit on 4 base types; single-position perturbations')],
    explanation='identifier/framing contracts (proved); tag stacks and perturbations (bounded)')

PROPS['C15'] = prop(
    level='proof',
    level_text='The statement is about finite tables and two flags: decided completely by evaluating obligations on the '
               'real TAG_MAP/TYPE_MAP objects of cer.decoder and der.decoder (same codec class by tag and by type for '
               'every unambiguous type; strict BOOLEAN; primitive-only BIT/OCTET STRING; supportIndefLength False and '
               'wired in; every nested element goes through the same single-item decoder). Non-canonical rewrites of U2 '
               'encodings are an additional bounded stand-in.',
    contracts=DEC_REGIONS[:2] + DEC_SIMPLE[6:7], tables=['decoder-tables'],
    standins=[dict(module='standins.codec_checks', checks='noncanonical', bound=U2 + ' DER encodings x every element x 3 rewrites x with/without spec')],
    paper=[], explanation='finite table obligations, complete evaluation')

PROPS['C16'] = prop(
    level_text='Dispatch tables are complete (every universal tag has a decoder entry); the schemaless container guess '
               'never returns None (fixed defect, now a stand-in regression); faithful leaves and byte-identical DER '
               're-encoding are a bounded stand-in on the IMPLICIT-free, ANY-free sub-universe.',
    contracts=DEC_SIMPLE[:4], tables=['dispatch'],
    standins=[dict(module='standins.codec_checks', checks='schemaless', bound='IMPLICIT/ANY-free part of U2 x 6 encoded forms (DER, DER read by the BER decoder, indefinite, CER, segmented, indefinite segmented)')],
    explanation='tables (complete) + content decoders (proved) + schemaless round trip (bounded)')

CN = 'contracts.constraint'
CE = 'contracts.cer_encoder'
import contracts.constraint as _cn
CONSTRAINTS = [(CN, c.id) for c in _cn.CONTRACTS]
CER = [(CE, 'cer.encoder::GeneralizedTimeEncoder.encodeValue[no-fraction]'),
       (CE, 'cer.encoder::UTCTimeEncoder.encodeValue[no-fraction]'), (CE, 'cer.encoder::SetEncoder._tagSortKey'),
       (CE, 'cer.encoder::SetEncoder._memberSortKey')]
PROPS['C03']['contracts'] = PROPS['C03']['contracts'] + CER + [(CE, 'cer.encoder::SequenceOfEncoder.encodeValue')]
PROPS['C02']['contracts'] = PROPS['C02']['contracts'] + [(CE, 'cer.encoder::SequenceOfEncoder.encodeValue')]

PROPS['C04'] = prop(
    level_text='Canonical SET order is a function of the outermost tags only (contract on the sort key, proved), framing and '
               'INTEGER octets are functions of the abstract value (C03 contracts); that the bytes do not depend on the '
               'construction history (insertion order, explicit defaults, clone, BER variant -> decode, prior read-only uses) '
               'is a bounded stand-in over U2.',
    contracts=ENC_FRAMING + INTS[:1] + CER[2:], tables=['dispatch'],
    standins=[dict(module='standins.object_checks', checks='histories', bound=U2 + ' x 10 construction histories per value'),
              dict(module='standins.codec_checks', checks='schemaless',
                   bound='IMPLICIT/ANY-free part of U2 x 6 encoded forms read without a guiding type, DER of the result')],
    explanation='sort-key and framing contracts (proved); construction histories (bounded)')

PROPS['C08'] = prop(
    level_text='Safety obligations (no implicit exception escapes) are generated and discharged for every decoder function '
               'under contract (tag/length regions, INTEGER/NULL/BOOLEAN payload decoders, read helpers, caching wrapper); '
               'every explicit raise in the decoder modules names a library error class (decided on the AST and the real '
               'class graph); termination of the contracted loops by variants. Everything else reachable from decode() is '
               'covered by an exhaustive/mutational bounded stand-in.',
    contracts=DEC_REGIONS + DEC_SIMPLE + READS + WRAPPER[:2] + INTS[2:], tables=['errors', 'protocol'],
    standins=[dict(module='standins.robust_checks', checks='malformed',
                   bound='all byte strings of length <= 2 (quick) / 3 over 24 structural octets, 1500 / 20000 grammar-shaped '
                         'strings, single-edit neighbours of 120 / 800 valid encodings; 3 decoders x 19 guiding types + '
                         'streaming')],
    explanation='safety/termination obligations of contracted decoder functions (proved) + exhaustive short inputs (bounded)')

PROPS['C10'] = prop(
    level_text='Constraint evaluation admits exactly the denotation (C14 contracts, proved per class); payload decoders build '
               'their result through _createComponent (contracts); that every accepted input yields a complete, well-typed, '
               're-encodable value is a bounded stand-in over mutated encodings.',
    contracts=CONSTRAINTS + DEC_SIMPLE[:4] + DEC_SIMPLE[7:], tables=['dispatch'],
    standins=[dict(module='standins.object_checks', checks='accepts-wellformed', bound=U2 + ' x 13 mutations x 2 decoders'),
              dict(module='standins.constraint_checks', checks='derivation', bound='10 derivation chains x values -3..12: derived type admits exactly the conjunction')],
    explanation='constraint and payload contracts (proved); accepted => well-formed (bounded)')

PROPS['C12'] = prop(
    level_text='Frames: `if LOG:` blocks contain no assignment, control flow or consuming stream access (decided on the AST of all '
               'codec modules); generator consumers only forward underrun markers (D1); the tag caches of the single-item '
               'decoder keep their invariant on every store (tag region contracts), so suspended decoders sharing the '
               'singleton see consistent entries. Thread schedules are outside the family (stated limit). Snapshot '
               'comparison around codec calls, interleaved decoders and logging on/off are a bounded stand-in.',
    contracts=DEC_REGIONS[2:5] + READS[4:], tables=['log-blocks', 'protocol'],
    standins=[dict(module='standins.object_checks', checks='purity', bound=U2 + ' x (4 encoders, 2 decodes, 3 interleaved streaming decoders, logging on)')],
    paper=['interleavings of suspended generators commute because all decoder state is in generator locals and the per-call '
           'stream (frame argument); data-race freedom under threads rests on CPython atomic dict/attribute stores (trusted, '
           'not proved)'],
    explanation='frame obligations (structural, complete over the AST) + cache invariant (proved); purity on U2 (bounded)')

PROPS['C14'] = prop(
    level_text='Per-class step of the induction proved for all values: each _testValue raises ValueConstraintError exactly outside '
               'its set-theoretic denotation (intersection/union/exclusion for arities 0..3, range, size, single value, '
               'presence/absence) and AbstractConstraint.__call__ forwards it; structural induction over the tree on paper. '
               'The funnel (no scalar-producing operation bypasses __init__) and derivation bookkeeping are bounded stand-ins.',
    contracts=CONSTRAINTS, tables=[],
    standins=[dict(module='standins.constraint_checks', checks='constraint-trees,funnel,derivation',
                   bound='600 (quick) / 6000 random trees of depth <= 3 / 4 x 13 ints / 8 strings; 20 operations x boundary operands; 8 derivation chains')],
    explanation='constraint evaluation contracts (proved) + trees/funnel/derivation (bounded)')

PROPS['C17'] = prop(
    level_text='Dispatch tables of the native codec are complete (every type has an entry, complete evaluation); the value '
               'conversions themselves are string/float based and outside the modelled subset, so the round trip and the '
               'python-value + schema equality are decided only on a bounded universe (labelled bounded).',
    contracts=[], tables=['dispatch'],
    standins=[dict(module='standins.object_checks', checks='native', bound=U2 + ' x native round trip + 3 codecs with python value trees')],
    explanation='table completeness (complete evaluation); conversions on U2 (bounded)')

PROPS['C18'] = prop(
    level_text='Capturing: reads consume exactly the requested octets and the ANY decoder back-tracks only to the mark set at '
               'the element start (read/wrapper contracts). Resolution by governing value and wrapping on encode are '
               'bounded stand-ins over 4 codecs x 3 taggings x 3 containers x 2 governor kinds x 4 inner values.',
    contracts=READS[:2] + WRAPPER[3:4], tables=['dispatch'],
    standins=[dict(module='standins.opentype_checks', checks='open-types', bound='4 codecs x 3 taggings x {field, SET OF, SET member} x {INTEGER, OID} governors x 4 inner values incl. constructed x {on, off, override}')],
    explanation='stream contracts (proved); open type resolution (bounded)')

PROPS['C19'] = prop(
    level_text='The object model of univ.py (dynamic attributes, MRO, sparse dict storage) is outside the modelled subset '
               '(A-OBJ); the property is decided on bounded operation histories against list/dict models, with the DER '
               'encoding of the model compared after every step (labelled bounded).',
    contracts=[], tables=[],
    standins=[dict(module='standins.container_checks', checks='containers',
                   bound='1500 (quick) / 20000 random operation sequences of length <= 5 / 6 x {typed / untyped SEQUENCE OF, SEQUENCE, CHOICE}; 8 scalar types x 17 uses of a valueless object')],
    explanation='operation histories against python models (bounded)')

PROPS['C20'] = prop(
    level_text='The canonical encoders refuse exactly the time strings that are not in UTC / carry a comma / fall outside the '
               'length window (contract on the real TimeEncoderMixIn.encodeValue for fraction-free strings, proved for all '
               'strings); datetime conversion and fraction canonicalisation are string/datetime based (outside the '
               'modelled subset) and decided on the quantifier grid as bounded stand-ins.',
    contracts=CER[:2], tables=[],
    standins=[dict(module='standins.time_checks', checks='datetime-roundtrip,x680-instant,cer-canonical',
                   bound='4 (quick) / 8 dates x 6 microsecond values x 14 offsets x 2 types; 3 x 14 x 5 grammar strings')],
    explanation='UTC-refusal contract (proved); conversions on the grid (bounded)')

ITEM_ENC = [(E, 'ber.encoder::SingleItemEncoder.__call__')]
for _p in ('C01', 'C02', 'C03'):
    PROPS[_p]['contracts'] = PROPS[_p]['contracts'] + ITEM_ENC
PROPS['C02']['level_text'] += (' The fixed modes are a discharged contract on the real SingleItemEncoder.__call__: with the '
                               'class attributes of the cer/der subclasses set, the codec below never sees the caller\'s '
                               'defMode/maxChunkSize.')
# C16: the schemaless decoder picks its codec from the recovered tag set -- the tag region and its cache invariant
PROPS['C16']['contracts'] = PROPS['C16']['contracts'] + DEC_REGIONS[2:5]
REAL = [(D, 'ber.decoder::RealPayloadDecoder.valueDecoder[complete]')]
for _p in ('C08', 'C09'):
    PROPS[_p]['contracts'] = PROPS[_p]['contracts'] + REAL
CERBOOL = [(D, 'cer.decoder::BooleanPayloadDecoder.valueDecoder[complete]')]
for _p in ('C15', 'C09', 'C02'):
    PROPS[_p]['contracts'] = PROPS[_p]['contracts'] + CERBOOL
DECODE = [(D, 'ber.decoder::Decoder.__call__')]
for _p in ('C07', 'C06', 'C01'):
    PROPS[_p]['contracts'] = PROPS[_p]['contracts'] + DECODE
for _p in ('C11', 'C05', 'C07'):
    PROPS[_p]['tables'] = PROPS[_p]['tables'] + ['mark']
PROPS['C18']['contracts'] = PROPS['C18']['contracts'] + [(D, 'ber.decoder::ConstructedPayloadDecoderBase.valueDecoder@open-types'), (D, 'ber.decoder::ConstructedPayloadDecoderBase.indefLenValueDecoder@open-types')]
PROPS['C18']['level_text'] = ('Resolution by governing value is a contract on the open-type region of both constructed (one governing + one open-type member: bounded instance) '
                              'decoders: the caller\'s openTypes map is consulted first, the map declared with the type second, an unresolved '
                              'governing value leaves the captured octets in place; capturing reads exactly the element (read / wrapper / ANY '
                              'contracts). Wrapping on encode, tagging variants and SET OF containers are bounded stand-ins over 4 codecs x 3 '
                              'taggings x 3 containers x 2 governor kinds x 4 inner values.')
for _p in ('C03', 'C02', 'C04'):
    PROPS[_p]['contracts'] = PROPS[_p]['contracts'] + [(CE, 'der.encoder::SetEncoder._componentSortKey[value-object]')]
BS = 'contracts.base'
BASE = [(BS, 'type.base::SimpleAsn1Type.__init__'), (BS, 'type.base::SimpleAsn1Type.clone'),
        (BS, 'type.base::SimpleAsn1Type.subtype')]
for _p in ('C14', 'C10'):
    PROPS[_p]['contracts'] = PROPS[_p]['contracts'] + BASE
    PROPS[_p]['tables'] = PROPS[_p]['tables'] + ['value-funnel']
PROPS['C12']['contracts'] = PROPS['C12']['contracts'] + BASE[1:]
# the caller's type map of an open type is kept by reference (C18-m10b)
PROPS['C18']['contracts'] = PROPS['C18']['contracts'] + [('contracts.opentype', 'type.opentype::OpenType.__init__')]
# SET OF / SEQUENCE OF ANY: wrapping is decided per element (C18-m8b)
for _p in ('C18', 'C01'):
    PROPS[_p]['contracts'] = PROPS[_p]['contracts'] + [(E, 'ber.encoder::SequenceOfEncoder._encodeComponents[value-object,any-size,wrap-type]'),
                                                       (E, 'ber.encoder::_isValueOf'),
                                                       (E, 'ber.encoder::SequenceEncoder.encodeValue[value-object,any-size,open-types]')]
# C10: a decoded OID is one the encoder accepts (second arc below 40 under 0 and 1)
PROPS['C10']['contracts'] = PROPS['C10']['contracts'] + [(D, 'ber.decoder::ObjectIdentifierPayloadDecoder.valueDecoder[complete]')]
# BitString * n (fix 3affd96): n copies of the bits, n times the length
for _p in ('C14', 'C19'):
    PROPS[_p]['contracts'] = PROPS[_p]['contracts'] + [('contracts.univ_bits', 'type.univ::BitString.%s' % _op) for _op in (
        '__mul__', '__add__', '__radd__', '__lshift__', '__rshift__')]
# exact comparison of REAL values (fix 07c7cc8): normal form computed by Real.__factors, __eq__ compares normal forms
UR = 'contracts.univ_real'
for _p in ('C01', 'C03', 'C04'):
    PROPS[_p]['contracts'] = PROPS[_p]['contracts'] + [(UR, 'type.univ::Real.__factors'), (UR, 'type.univ::Real.__eq__[real-vs-real]'),
                                                     (UR, 'type.univ::Real.__normalizeBase10[integral-mantissa]')]
# the drop-proof position (fix 0928f1d)
for _p in ('C11', 'C05', 'C07'):
    PROPS[_p]['contracts'] = PROPS[_p]['contracts'] + [(ST, 'codec.streaming::CachingStreamWrapper.droppedOctets.getter'),
                                                       (ST, 'ber.decoder::_consumed')]
# the caller's openTypes map is only read (C12-m8b)
PROPS['C12']['contracts'] = PROPS['C12']['contracts'] + [
    (D, 'ber.decoder::ConstructedPayloadDecoderBase.valueDecoder@open-types[any-size]'),
    (D, 'ber.decoder::ConstructedPayloadDecoderBase.indefLenValueDecoder@open-types[any-size]')]
# comparison of a valueless scalar fails with the library's error, also with itself
PROPS['C19']['contracts'] = PROPS['C19']['contracts'] + [(BS, 'type.base::SimpleAsn1Type.__eq__')]
TG = 'contracts.tag'
TAGS = [(TG, 'type.tag::TagSet.tagImplicitly'), (TG, 'type.tag::TagSet.tagExplicitly'),
        (TG, 'type.tag::TagSet.isSuperTagSetOf')]
TAGMAP = [(TG, 'type.tagmap::TagMap.__getitem__'), (TG, 'type.tagmap::TagMap.__contains__')]
for _p in ('C01', 'C03', 'C09'):
    PROPS[_p]['contracts'] = PROPS[_p]['contracts'] + TAGS[:2]
PROPS['C07']['contracts'] = PROPS['C07']['contracts'] + [c for c in WRAPPER if c not in PROPS['C07']['contracts']]
for _p in ('C13', 'C15', 'C16'):
    PROPS[_p]['contracts'] = PROPS[_p]['contracts'] + TAGMAP
for _p in ('C13', 'C01', 'C18'):
    PROPS[_p]['contracts'] = PROPS[_p]['contracts'] + [(TG, 'type.univ::Any.tagMap')]
PROPS['C13']['contracts'] = PROPS['C13']['contracts'] + TAGS
# segmented strings: every segment carries the string type's base tag, whatever tags the value has (C13-m7b)
PROPS['C13']['contracts'] = PROPS['C13']['contracts'] + [(E, 'ber.encoder::OctetStringEncoder.encodeValue[value-object]'),
                                                       (E, 'ber.encoder::BitStringEncoder.encodeValue[value-object]')]
PROPS['C13']['level_text'] = ('Identifier octets equal X.690 8.1.2 for every class/format/number (encodeTag) and are parsed back by '
                              'the tag region of the decoder (any long form, base-128 value, cache invariant); one header per tag from '
                              'innermost to outermost with the constructed bit for wrappers and constructed content only (iteration '
                              'contract of encode); the tag algebra is proved on the real TagSet methods: implicit tagging replaces '
                              'exactly the outermost tag and keeps its form, explicit tagging adds one constructed tag and refuses '
                              'UNIVERSAL. Accept/reject against perturbed types and whole stacks are a bounded stand-in.')
PROPS['C04']['contracts'] = PROPS['C04']['contracts'] + ENC_CONTENT[7:9]
UN = 'contracts.univ_native'
CHOICE = [(UN, 'type.univ::Choice.setComponentByPosition'), (UN, 'type.univ::Choice.clear'), (UN, 'type.univ::Choice.reset'),
          (UN, 'type.univ::Choice.__eq__[choice-vs-choice]')]
PROPS['C19']['contracts'] = CHOICE
PROPS['C19']['level_text'] = ('CHOICE holds at most one alternative: Choice.setComponentByPosition / clear / reset preserve the '
                              'single-alternative invariant and a refused assignment changes nothing (contracts on the real '
                              'methods over every selection state of a three-way CHOICE: a bounded instance, labelled so). The name-, tag- '
                              'and slice-addressed operations, sort/reverse/count/index and the composition over operation histories '
                              'are decided on bounded operation histories against list/dict models, DER of the model compared after '
                              'every step (labelled bounded).')
PROPS['C17']['contracts'] = [(UN, 'native.encoder::SetEncoder.encode'), (UN, 'native.encoder::SetEncoder.encode[any-size]')]
PROPS['C17']['level_text'] = ('native SetEncoder/SequenceEncoder.encode: the python mapping holds exactly the present members, '
                              'absent OPTIONAL members are left out (contract over records of any size, keys and components symbolic; a second, '
                              'bounded instance over three members checks the per-member conversion); dispatch tables of the native codec are '
                              'complete (complete evaluation); scalar conversions are string/float based and outside the '
                              'modelled subset, so the round trip and python-value + schema equality are bounded stand-ins.')
PROPS['C18']['contracts'] = PROPS['C18']['contracts'] + [(UN, 'ber.decoder::AnyPayloadDecoder.valueDecoder[untagged,complete]')]
PROPS['C18']['level_text'] = ('Capturing is proved: an untagged ANY captures exactly the octets from the element start (the mark) '
                              'to the end of its contents and consumes exactly the element (contract on the real '
                              'AnyPayloadDecoder.valueDecoder over the stream model; reads and back-tracking by the '
                              'read/wrapper contracts). Resolution by governing value and wrapping on encode are bounded '
                              'stand-ins over 4 codecs x 3 taggings x 3 containers x 2 governor kinds x 4 inner values.')
PROPS['C04']['contracts'] = PROPS['C04']['contracts'] + CHOICE[:1] + CHOICE[3:]
PROPS['C03']['contracts'] = PROPS['C03']['contracts'] + CHOICE[3:]
PROPS['C11']['contracts'] = PROPS['C11']['contracts'] + [(UN, 'ber.decoder::AnyPayloadDecoder.valueDecoder[untagged,complete]')]

SELECT = [(D, 'ber.decoder::SingleItemDecoder.__call__@stGetValueDecoderByTag[complete]'),
          (D, 'ber.decoder::SingleItemDecoder.__call__@stGetValueDecoderByAsn1Spec[complete]'),
          (D, 'ber.decoder::SingleItemDecoder.__call__@stGetValueDecoderByAsn1Spec[complete]+tagmap'),
          (D, 'ber.decoder::SingleItemDecoder.__call__@stTryAsExplicitTag[complete]')]
PROPS['C13']['contracts'] = PROPS['C13']['contracts'] + SELECT
PROPS['C15']['contracts'] = PROPS['C15']['contracts'] + SELECT
PROPS['C16']['contracts'] = PROPS['C16']['contracts'] + SELECT[:1] + SELECT[3:]
PROPS['C10']['contracts'] = PROPS['C10']['contracts'] + SELECT[1:3]
PROPS['C13']['level_text'] += (' Accept/reject in the decoder is a discharged contract on the codec-selection states of the '
                               'real SingleItemDecoder.__call__: under a guiding type a value codec is chosen only when the tags '
                               'on the wire equal the type\'s tag set or are listed in its tag map; anything else is unwrapped '
                               'only if it is a constructed, non-UNIVERSAL element (explicit tag), else it is the error state.')
_CP = 'ber.decoder::ConstructedPayloadDecoderBase.'
RECORDS = [(D, _CP + 'valueDecoder@record-components'), (D, _CP + 'indefLenValueDecoder@record-components'),
           (D, _CP + 'valueDecoder@collection-components'), (D, _CP + 'indefLenValueDecoder@collection-components'),
           (D, _CP + 'valueDecoder@result'), (D, _CP + 'indefLenValueDecoder@result')]
PROPS['C10']['contracts'] = PROPS['C10']['contracts'] + RECORDS
PROPS['C09']['contracts'] = PROPS['C09']['contracts'] + RECORDS[:4]
PROPS['C01']['contracts'] = PROPS['C01']['contracts'] + RECORDS[:4]
PROPS['C14']['contracts'] = PROPS['C14']['contracts'] + RECORDS[4:]
# "encoders refuse constructed values that violate theirs": the CHOICE encoder consults the type's own constraints
PROPS['C14']['contracts'] = PROPS['C14']['contracts'] + [(E, 'ber.encoder::ChoiceEncoder.encodeValue[value-object]')]
PROPS['C10']['level_text'] += (' Completeness is a discharged contract on the component loops of the real constructed decoder '
                               '(definite and indefinite): for any schema (any number of components, any OPTIONAL/DEFAULT '
                               'pattern) a normal exit implies every mandatory component was assigned in this call, SEQUENCE '
                               'positions strictly increase, SEQUENCE OF members are the elements in wire order, and the value '
                               'is handed out only if its own size/inner-type constraints hold (NamedTypes lookups, '
                               'setComponentByPosition and the recursive decodeFun are assumed models).')
ITER = [(D, 'ber.decoder::StreamingDecoder.__iter__')]
for _p in ('C05', 'C07'):
    PROPS[_p]['contracts'] = PROPS[_p]['contracts'] + ITER
CHOICE_DEC = [(D, 'ber.decoder::ChoicePayloadDecoder.valueDecoder'), (D, 'ber.decoder::ChoicePayloadDecoder.indefLenValueDecoder')]
for _p in ('C09', 'C10', 'C12'):
    PROPS[_p]['contracts'] = PROPS[_p]['contracts'] + CHOICE_DEC
UC = 'contracts.univ_containers'
import contracts.univ_containers as _uc
CONTAINERS = [(UC, c.id) for c in _uc.CONTRACTS]
PROPS['C19']['contracts'] = PROPS['C19']['contracts'] + CONTAINERS
PROPS['C04']['contracts'] = PROPS['C04']['contracts'] + [c for c in CONTAINERS if '_cloneComponentValues' in c[1] or '.append' in c[1]]
PROPS['C12']['contracts'] = PROPS['C12']['contracts'] + [c for c in CONTAINERS if '_cloneComponentValues' in c[1] or 'getComponentByPosition' in c[1]]
PROPS['C10']['contracts'] = PROPS['C10']['contracts'] + [c for c in CONTAINERS if '.isValue' in c[1]]
PROPS['C14']['contracts'] = PROPS['C14']['contracts'] + [c for c in CONTAINERS if ('setComponentByPosition[' in c[1] and 'value-object' in c[1]) or 'isInconsistent' in c[1]]
PROPS['C10']['contracts'] = PROPS['C10']['contracts'] + [c for c in CONTAINERS if 'isInconsistent' in c[1]]
# a slot that holds the default value of its DEFAULT component is not a present member (40741b3): the record's constraints
# decide the same before and after the reads an encoder makes -- C12 (same outcome after any history), C01/C02 (re-encodable)
for _p in ('C14', 'C10', 'C12', 'C01', 'C02'):
    PROPS[_p]['contracts'] = PROPS[_p]['contracts'] + [c for c in CONTAINERS if '_holdsDefault' in c[1] or (
        _p in ('C12', 'C01', 'C02') and c[1] == 'type.univ::SequenceAndSetBase.isInconsistent')]
PROPS['C19']['level_text'] += (' SEQUENCE OF / SET OF against an abstract view: the sparse dict is modelled with symbolic integer keys '
                               'and __len__, clear, reset, setComponentByPosition (frame: every other position keeps its member; a '
                               'refused assignment changes nothing), getComponentByPosition (reading an existing member changes '
                               'nothing), __getitem__/__setitem__ (library errors become IndexError, no change), append, isValue and '
                               '_cloneComponentValues are discharged for all contents; `dense` (positions 0..L-1, i.e. a python list) '
                               'is preserved by every well-formed mutator.')
OCT_INDEF = [(D, 'ber.decoder::OctetStringPayloadDecoder.indefLenValueDecoder[complete]')]
for _p in ('C09', 'C01', 'C08'):
    PROPS[_p]['contracts'] = PROPS[_p]['contracts'] + OCT_INDEF
SUBTYPE_TEST = [(BS, 'type.base::Asn1Type.isSuperTypeOf'), (BS, 'type.base::Asn1Type.isSameTypeWith'), (BS, 'type.base::Asn1Type._refine')]
for _p in ('C14', 'C13'):
    PROPS[_p]['contracts'] = PROPS[_p]['contracts'] + SUBTYPE_TEST
CER_SETOF = [(CE, 'cer.encoder::SetOfEncoder.encodeValue[up-to-3-members]'), (CE, 'cer.encoder::SetEncoder.encodeValue[value-object,3-members]')]
for _p in ('C03', 'C04', 'C02'):
    PROPS[_p]['contracts'] = PROPS[_p]['contracts'] + CER_SETOF
PROPS['C19']['contracts'] = PROPS['C19']['contracts']    # (containers registered above)
NT = 'contracts.namedtype'
import contracts.namedtype as _nt
NAMEDTYPES = [(NT, c.id) for c in _nt.CONTRACTS]
for _p in ('C09', 'C10', 'C01'):
    PROPS[_p]['contracts'] = PROPS[_p]['contracts'] + NAMEDTYPES
SCHEMALESS = [(D, 'ber.decoder::ConstructedPayloadDecoderBase._decodeComponentsSchemaless')]
for _p in ('C16', 'C08'):
    PROPS[_p]['contracts'] = PROPS[_p]['contracts'] + SCHEMALESS
BITS_CONSTRUCTED = [(D, 'ber.decoder::BitStringPayloadDecoder.valueDecoder[constructed]'),
                    (D, 'ber.decoder::BitStringPayloadDecoder.indefLenValueDecoder[complete]')]
for _p in ('C09', 'C01', 'C08', 'C02'):
    PROPS[_p]['contracts'] = PROPS[_p]['contracts'] + BITS_CONSTRUCTED
# C15: the constructed form is taken only where the codec supports it (`#exit.only-if-supported`), also with no segments
PROPS['C15']['contracts'] = PROPS['C15']['contracts'] + BITS_CONSTRUCTED[:1]
UB = 'contracts.univ_bits'
FROM_OCTETS = [(UB, 'type.univ::BitString.fromOctetString[internal]')]
for _p in ('C09', 'C01'):
    PROPS[_p]['contracts'] = PROPS[_p]['contracts'] + FROM_OCTETS
ANY_GUIDED = [(UN, 'ber.decoder::AnyPayloadDecoder.indefLenValueDecoder[untagged,complete]'),
              (UN, 'ber.decoder::AnyPayloadDecoder.valueDecoder[guided-by-type,complete]'),
              (UN, 'ber.decoder::AnyPayloadDecoder.valueDecoder[guided-by-tagmap,complete]')]
for _p in ('C18', 'C13'):
    PROPS[_p]['contracts'] = PROPS[_p]['contracts'] + ANY_GUIDED
# an indefinite-length element collected for an enclosing ANY keeps its own end-of-octets (C02-m8a): CER wraps every
# constructed value that way
for _p in ('C18', 'C02', 'C01', 'C09', 'C07'):
    PROPS[_p]['contracts'] = PROPS[_p]['contracts'] + [
        (UN, 'ber.decoder::AnyPayloadDecoder.indefLenValueDecoder[untagged,as-fragment,complete]')] + \
        ([ANY_GUIDED[0]] if _p in ('C02', 'C01') else [])
NATIVE_DEC = [(UN, 'native.decoder::SequenceOrSetPayloadDecoder.__call__'), (UN, 'native.decoder::SequenceOfOrSetOfPayloadDecoder.__call__'),
              (UN, 'native.decoder::ChoicePayloadDecoder.__call__')]
PROPS['C17']['contracts'] = PROPS['C17']['contracts'] + NATIVE_DEC
# the asn1Spec path decides "equals the DEFAULT" through the encodings when the Python value has another form; a SET OF default
# compares as a multiset (f3512ce)
PROPS['C17']['contracts'] = PROPS['C17']['contracts'] + [
    (E, 'ber.encoder::SequenceEncoder._encodesAsDefault[set-of,2-members]'),
    (E, 'ber.encoder::SequenceEncoder._encodesAsDefault[not-a-set-of]')]
# C12: the native decoders leave the guiding type alone; a nested WITH COMPONENTS asks a record without instantiating
PROPS['C12']['contracts'] = PROPS['C12']['contracts'] + [
    (D, 'ber.decoder::ConstructedPayloadDecoderBase.valueDecoder@user-collector'),
    (D, 'ber.decoder::ConstructedPayloadDecoderBase.indefLenValueDecoder@user-collector')]
PROPS['C12']['contracts'] = PROPS['C12']['contracts'] + NATIVE_DEC + [
    (CN, 'type.constraint::WithComponentsConstraint._testValue[one-entry]'),
    (CN, 'type.constraint::WithComponentsConstraint._testValue[any-number-of-entries]')]
PROPS['C19']['level_text'] += (' SEQUENCE / SET objects: setComponentByPosition (declared, placeholder and undeclared records; one slot per '
                               'declared component, other slots untouched, refused => unchanged), getComponentByPosition, clear, reset, isValue, '
                               'name-addressed access (= position-addressed access at the position of the name) over a symbolic slot list; '
                               'CHOICE with any number of alternatives keeps at most one slot occupied; __iter__ and extend of SEQUENCE OF.')
PROPS['C16']['level_text'] += (' The schemaless constructed decoder is under contract: every decoded element is kept, in wire order, in a '
                               'container that is a value (never None, an empty one is cleared), for any number of elements.')
PROPS['C09']['level_text'] = PROPS['C09'].get('level_text', '') + (
    ' Discharged on the real decoders for all inputs: the component loops of SEQUENCE/SET (any schema: positions by the '
    'element\'s own tags, OPTIONAL/DEFAULT skipped, every mandatory member present) and SEQUENCE OF (wire order), constructed '
    'OCTET STRING and BIT STRING in definite and indefinite form (fragments in order, each with its unused-bits count), '
    'BitString.fromOctetString, CHOICE (tagged: inner element; untagged: re-dispatch), NamedTypes lookups.')
OPEN_N = [(D, 'ber.decoder::ConstructedPayloadDecoderBase.valueDecoder@open-types[any-size]'),
          (D, 'ber.decoder::ConstructedPayloadDecoderBase.indefLenValueDecoder@open-types[any-size]')]
PROPS['C18']['contracts'] = PROPS['C18']['contracts'] + OPEN_N
PROPS['C06']['contracts'] = PROPS['C06']['contracts'] + [c for c in WRAPPER if c not in PROPS['C06']['contracts']]
PROPS['C08']['contracts'] = PROPS['C08']['contracts'] + [c for c in READS[2:4] + ITER if c not in PROPS['C08']['contracts']]
CREATE = [(D, 'ber.decoder::AbstractSimplePayloadDecoder._createComponent')]
for _p in ('C10', 'C16', 'C12', 'C01', 'C04'):
    PROPS[_p]['contracts'] = PROPS[_p]['contracts'] + CREATE
RAW_DEF = [(D, 'ber.decoder::RawPayloadDecoder.valueDecoder')]
for _p in ('C13', 'C09', 'C07'):
    PROPS[_p]['contracts'] = PROPS[_p]['contracts'] + RAW_DEF
for _p in list(PROPS):
    NOT_CLAIMED.pop(_p, None)


def conc_encode_tag(oid, m):
    st = m.get('singleTag')
    if not st:
        return None
    return {'runner': 'replayers.encoder:encode_tag',
            'args': {'cls': st[0], 'fmt': st[1], 'num': st[2], 'isConstructed': bool(m.get('isConstructed'))}}


def conc_encode_length(oid, m):
    return {'runner': 'replayers.encoder:encode_length',
            'args': {'length': m['length'], 'defMode': bool(m['defMode']),
                     'supportIndefLenMode': bool(m['self']['fields']['supportIndefLenMode'])}}


def conc_to_bytes(oid, m):
    return {'runner': 'replayers.encoder:to_bytes_signed', 'args': {'value': m['value']}}


def conc_encode(oid, m):
    tags = (m.get('superTags') or {}).get('records')
    if not tags:
        return None
    opts = m['options']['dict']
    dm = opts['defMode'][1] if opts['defMode'][0] else None
    sup = bool(m['self']['fields']['supportIndefLenMode'])
    # the stub codec content is arbitrary; a primitive codec (no indefinite support) returns primitive content
    return {'runner': 'replayers.encoder:framing',
            'args': {'tags': tags, 'content': [5], 'isConstructed': bool(sup), 'isOctets': True,
                     'supportIndefLenMode': sup, 'defMode': dm}}


def conc_item_encoder(oid, m):
    opts = {k: (bool(v[1]) if k in ('defMode', 'ifNotEmpty') else v[1]) for k, v in m['options']['dict'].items() if v[0]}
    if m.get('fixedChunk') is not None and 'maxChunkSize' not in opts:
        opts['maxChunkSize'] = int(m['fixedChunk']) + 7      # any caller value different from the fixed one
    if m.get('fixedDef') is not None and 'defMode' not in opts:
        opts['defMode'] = not m['fixedDef']
    return {'runner': 'replayers.encoder:item_encoder_modes',
            'args': {'fixedDef': m.get('fixedDef'), 'fixedChunk': m.get('fixedChunk'), 'options': opts}}


def conc_constraint_add(oid, m):
    n = len(m['self']['fields']['_values'])
    return {'runner': 'replayers.types:constraint_add', 'args': {'n': n}}


def conc_simple_derive(oid, m):
    method = 'clone' if '.clone#' in oid else 'subtype'
    if 'source-unchanged' in oid:
        return {'runner': 'replayers.types:simple_derive_frame', 'args': {'method': method}}
    return {'runner': 'replayers.types:simple_derive_funnel', 'args': {'method': method}}


def conc_wrapper_mark(oid, m):
    return {'runner': 'replayers.streaming:wrapper_mark_keeps_lookahead', 'args': {'back': 2}}


CONCRETISERS = {
    'codec.streaming::CachingStreamWrapper.markedPosition.setter': conc_wrapper_mark,
    'type.base::SimpleAsn1Type.clone': conc_simple_derive,
    'type.base::SimpleAsn1Type.subtype': conc_simple_derive,
    'type.constraint::AbstractConstraintSet.__add__[1]': conc_constraint_add,
    'type.constraint::AbstractConstraintSet.__add__[2]': conc_constraint_add,
    'ber.encoder::SingleItemEncoder.__call__': conc_item_encoder,
    'ber.encoder::AbstractItemEncoder.encodeTag': conc_encode_tag,
    'ber.encoder::AbstractItemEncoder.encodeLength': conc_encode_length,
    'compat.integer::to_bytes[signed]': conc_to_bytes,
    'ber.encoder::AbstractItemEncoder.encode': conc_encode,
}
