"""Proof skeletons: which obligations, structural/table obligations, paper steps and labelled bounded
stand-ins make up the check of each property.  See DESIGN.md section 6."""

TRUSTED_BASE = [
    'pyvc executor (python ast -> path-wise verification conditions): /verif/pyvc/core.py, validated per run by '
    'vacuity guards and, in the thorough tier, by a mutant kill matrix on a scratch copy',
    'z3 (SMT solver) soundness',
    'CPython 3 semantics of the modelled subset (ints are mathematical; bytes/tuple/list as sequences)',
    'A-BUILTIN: axioms for int.bit_length / int.to_bytes / int.from_bytes / bytes() taken from the CPython docs '
    '(spec/smt.py), cross-checked on concrete points by pyvc.selfcheck',
]
ASSUMPTIONS = [
    'A-PY3: python-2 branches of version switches are not verified (pinned interpreter is CPython 3.12)',
    'A-OBJ: attribute existence, MRO and __getattr__ of pyasn1 objects are not modelled; objects are records '
    'with the fields the contract declares',
    'A-RES: MemoryError / RecursionError / KeyboardInterrupt are outside the model',
    'A-GEN: python generator resume semantics trusted (a suspended generator continues from its yield)',
    'A-LOG: `if LOG:` blocks are dropped at extraction; justified by obligation frame::codecs#log-blocks-effect-free',
]

E = 'contracts.ber_encoder'
IN = 'contracts.integer'

PROPS = {}
NOT_CLAIMED = {('C%02d' % i): 'check not built yet in this session (work in progress; see DESIGN.md section 6)' for i in range(1, 21)}

PROPS['C03'] = dict(
    level='other',
    level_text='Contracts on the real identifier/length/framing/integer functions are discharged for all inputs against '
               'X.690 spec functions; whole-encoder byte equality with an independent DER/CER reference is a labelled '
               'bounded stand-in; composition over the type universe is a paper induction.',
    level_note='Trusted: pyvc executor, z3, CPython builtin axioms; content encoders not yet under contract are covered only '
               'by the bounded stand-in; see evidence assumptions.',
    contracts=[(E, 'ber.encoder::AbstractItemEncoder.encodeTag'), (E, 'ber.encoder::AbstractItemEncoder.encodeLength'),
               (E, 'ber.encoder::AbstractItemEncoder.encode'), (IN, 'compat.integer::to_bytes[signed]')],
    tables=['dispatch'],
    standins=[dict(module='standins.codec_checks', checks='der-twin,cer-twin,ber-read',
                   bound='shared universe U2 (quick: ~800 (type,value) pairs; thorough: full leaf product), '
                         '8 BER encoder modes')],
    paper=['structural induction over the type: whole-encoder equality with DER(T, v) follows from the per-function '
           'contracts (identifier, length, framing, content octets) plus dispatch-table completeness'],
    explanation='machine-checked contracts on the real framing and content functions against the X.690 spec '
                'functions; composition over the type universe is a paper induction; entry points additionally '
                'checked on a bounded universe against an independent DER/CER reference (labelled bounded)',
)


def conc_encode_tag(oid, m):
    st = m.get('singleTag')
    if not st:
        return None
    return {'runner': 'replayers.encoder:encode_tag',
            'args': {'cls': st[0], 'fmt': st[1], 'num': st[2], 'isConstructed': bool(m.get('isConstructed'))}}


def conc_encode_length(oid, m):
    return {'runner': 'replayers.encoder:encode_length',
            'args': {'length': m['length'], 'defMode': bool(m['defMode']),
                     'supportIndefLenMode': bool(m['self']['fields']['supportIndefLenMode'])}}


def conc_to_bytes(oid, m):
    return {'runner': 'replayers.encoder:to_bytes_signed', 'args': {'value': m['value']}}


def conc_encode(oid, m):
    tags = (m.get('superTags') or {}).get('records')
    if not tags:
        return None
    opts = m['options']['dict']
    dm = opts['defMode'][1] if opts['defMode'][0] else None
    sup = bool(m['self']['fields']['supportIndefLenMode'])
    # the stub codec content is arbitrary; a primitive codec (no indefinite support) returns primitive content
    return {'runner': 'replayers.encoder:framing',
            'args': {'tags': tags, 'content': [5], 'isConstructed': bool(sup), 'isOctets': True,
                     'supportIndefLenMode': sup, 'defMode': dm}}


CONCRETISERS = {
    'ber.encoder::AbstractItemEncoder.encodeTag': conc_encode_tag,
    'ber.encoder::AbstractItemEncoder.encodeLength': conc_encode_length,
    'compat.integer::to_bytes[signed]': conc_to_bytes,
    'ber.encoder::AbstractItemEncoder.encode': conc_encode,
}
