"""Contracts on pyasn1/codec/streaming.py: re-tryable reads (kind D2), end-of-stream test, peek."""
from pyvc.core import Contract, Loop, PInt, PConst, POneOf, PBytes, CallContract
from pyvc.core import PObj, PDerived, FnV, PSort
from pyvc.models import PStream, PBytesIO, new_bytesio
import z3

F = 'pyasn1/codec/streaming.py'

READ_YIELDS = [
    # D2: an underrun marker never consumes input (short reads are rewound)
    ('underrun-rewinds', 'isinstance(y, SubstrateUnderrunError) ==> substrate.pos == old(substrate.pos)'),
    # the final value is exactly the next `size` octets and the position is just past them
    ('exact-size', '(not isinstance(y, SubstrateUnderrunError) and size >= 0) ==> '
                   '(isinstance(y, bytes) and len(y) == size and y == X.sub(substrate.data, old(substrate.pos), '
                   'old(substrate.pos) + size) and substrate.pos == old(substrate.pos) + size)'),
    ('rest', '(not isinstance(y, SubstrateUnderrunError) and size < 0) ==> (isinstance(y, bytes) and '
             'y == X.sub(substrate.data, old(substrate.pos), substrate.pos) and substrate.pos >= old(substrate.pos))'),
]


def read_contract(mode):
    return Contract(
        id='codec.streaming::readFromStream[%s]' % mode, file=F, qual='readFromStream',
        properties=['C05', 'C06', 'C07', 'C11'],
        params=dict(substrate=PStream(mode), size=PInt(), context=PConst(None)),
        requires=['size >= -1'],
        yield_ensures=READ_YIELDS,
        exit_ensures=[('ends-with-data', 'not isinstance(last_yield(), SubstrateUnderrunError)')],
        # end-of-stream is reported only when the stream really signalled it (b'' for a non-empty request),
        # nothing was consumed, and never for an empty request
        raise_ensures={'EndOfStreamError': ['size != 0', 'substrate.pos == old(substrate.pos)'] +
                       (['substrate.eof_signalled'] if mode == 'partial' else
                        ['old(substrate.pos) >= len(substrate.data)'])},
        may_raise={'EndOfStreamError': True},
        loops={0: Loop(invariant=['substrate.pos == old(substrate.pos)'], havoc_fields=['substrate.pos'] +
                       (['substrate.eof_signalled', 'substrate.none_seen'] if mode == 'partial' else []),
                       decl={}, yields_each_iteration=True)},
        external=['underrun-rewinds', 'exact-size', 'rest', 'ends-with-data'],
    )


READ_COMPLETE = read_contract('complete')
READ_PARTIAL = read_contract('partial')

IS_EOS_BYTESIO = Contract(
    id='codec.streaming::isEndOfStream[BytesIO]', file=F, qual='isEndOfStream', properties=['C05', 'C06', 'C07'],
    params=dict(substrate=PStream('complete', bases=('BytesIO', 'IOBase'))),
    yield_ensures=[('answers-are-booleans', 'isinstance(y, bool)'),
                   ('bool', 'y == (old(substrate.pos) >= len(substrate.data))'),
                   ('non-destructive', 'substrate.pos == old(substrate.pos)')],
    exit_ensures=[('one-yield', 'nyields() == 1'), ('non-destructive', 'substrate.pos == old(substrate.pos)')],
    external=['bool', 'answers-are-booleans', 'non-destructive', 'one-yield'],
)

class PMaybeChunk(PSort):
    """what read(1) gave last: None (no data yet) or at most one octet"""

    def make(self, ex, name):
        import z3 as _z
        from pyvc.core import SeqV, S, bytes_axiom, BoolSort
        if ex.choose(_z.Bool(name + '.isNone'), 'no-data-yet'):
            return None
        z = _z.Const(name, S)
        ex.assume(bytes_axiom(z, name))
        return SeqV(z, 'bytes')


IS_EOS_GENERIC = Contract(
    id='codec.streaming::isEndOfStream[generic]', file=F, qual='isEndOfStream', properties=['C05', 'C06', 'C07'],
    params=dict(substrate=PStream('partial', bases=('IOBase',))),
    yield_ensures=[
        # from the statement of C05/C06: "end of stream" is reported only when the stream signalled it
        # what StreamingDecoder.__iter__ relies on: "no data yet" is a bare None, every other item is a boolean -- never an
        # object that would pass for a (truthy) answer
        ('none-or-boolean', 'y is None or isinstance(y, bool)'),
        ('true-only-at-eof', 'y is True ==> substrate.eof_signalled'),
        ('false-only-with-data', 'y is False ==> old(substrate.pos) < len(substrate.data)'),
        ('non-destructive', 'substrate.pos == old(substrate.pos)')],
    exit_ensures=[('ends-with-bool', 'isinstance(last_yield(), bool)'),
                  ('non-destructive', 'substrate.pos == old(substrate.pos)')],
    loops={0: Loop(decl={'received': PMaybeChunk()},
                   invariant=['(received is None) ==> substrate.pos == old(substrate.pos)',
                              '(received is not None) ==> (len(received) <= 1 and substrate.pos == old(substrate.pos) + len(received))',
                              '(received is not None and len(received) == 0) ==> substrate.eof_signalled',
                              '(received is not None and len(received) == 1) ==> old(substrate.pos) < len(substrate.data)'],
                   havoc_fields=['substrate.pos', 'substrate.eof_signalled', 'substrate.none_seen', 'substrate.__reads__'], yields_each_iteration=True)},
    external=['true-only-at-eof', 'false-only-with-data', 'non-destructive', 'ends-with-bool'],
)


def _read_model(mode):
    """generator model of readFromStream for callers (D3 call reduction): final value + effects as in the
    contract above; underrun yields are forwarded by the caller (D1) and do not move the position."""
    import z3
    from pyvc.core import SeqV, _Raise, ExcV, toint, BoolSort

    def model(ex, substrate, size=-1, context=None):
        size = toint(size)
        pos = substrate.fields['pos']
        data = substrate.fields['data'].z
        rest = z3.Length(data) - pos
        # EndOfStreamError: possible only for a non-empty request at the end of the data
        if ex.choose(z3.And(ex.fresh('rfs.eof', BoolSort()), size != 0, rest <= 0), 'rfs-eof'):
            raise _Raise(ExcV('EndOfStreamError'))
        if ex.choose(size >= 0, 'rfs-size'):
            ex.assume(size <= rest)          # otherwise the generator never finishes: it keeps yielding underruns
            cs = z3.simplify(size)
            if z3.is_int_value(cs) and 1 <= cs.as_long() <= 2:
                # small constant reads as explicit units: data[pos], data[pos+1] (same value, friendlier terms)
                zz = z3.Unit(data[pos])
                for j in range(1, cs.as_long()):
                    zz = z3.Concat(zz, z3.Unit(data[pos + j]))
                out = SeqV(zz, 'bytes')
            else:
                out = SeqV(z3.Extract(data, pos, size), 'bytes')
            substrate.fields['pos'] = pos + size
        else:
            k = ex.fresh('rfs.k', z3.IntSort())
            ex.assume(z3.And(k >= 0, k <= rest))
            if mode == 'complete':
                ex.assume(k == z3.If(rest < 0, 0, rest))
            out = SeqV(z3.Extract(data, pos, k), 'bytes')
            substrate.fields['pos'] = pos + k
        return out
    model.is_generator_model = True
    model.__doc__ = ('call reduction of readFromStream (contract codec.streaming::readFromStream[%s], proved on its own): '
                     'the final chunk is exactly the requested octets at the old position and the position advances by '
                     'that many; underrun markers in between are forwarded by the caller (obligation D1) and do not move the '
                     'position; EndOfStreamError only at the end of the data' % mode)
    return model


PEEK_NOPEEK = Contract(
    id='codec.streaming::peekIntoStream[no-peek]', file=F, qual='peekIntoStream', properties=['C05', 'C11', 'C12'],
    params=dict(substrate=PStream('complete'), size=PInt()),
    requires=['size >= -1'],
    calls={'readFromStream': _read_model('complete')},
    yield_ensures=[('data', 'size >= 0 ==> y == X.sub(substrate.data, old(substrate.pos), old(substrate.pos) + size)')],
    exit_ensures=[('position-restored', 'substrate.pos == old(substrate.pos)')],
    raise_ensures={'EndOfStreamError': ['substrate.pos == old(substrate.pos)']},
    may_raise={'EndOfStreamError': True},
    external=['data', 'position-restored'],
)

# ---- CachingStreamWrapper: data structure against the abstract view (C11) --------------------------------
# view: absolute position  P = raw.pos - len(cache.content) + cache.pos   (raw.pos = octets obtained so far)
INV = ['len(self._cache.content) <= self._raw.pos', 'self._raw.pos <= len(self._raw.data)',
       'self._cache.content == X.sub(self._raw.data, self._raw.pos - len(self._cache.content), self._raw.pos)',
       '0 <= self._cache.pos', 'self._cache.pos <= len(self._cache.content)',
       # what is no longer cached has been counted: tell() + droppedOctets is the position in the underlying stream
       'self._droppedOctets == self._raw.pos - len(self._cache.content)']
P_ABS = '(self._raw.pos - len(self._cache.content) + self._cache.pos)'
P_ABS_OLD = '(old(self._raw.pos) - len(old(self._cache.content)) + old(self._cache.pos))'
K = z3.Int('DEFAULT_BUFFER_SIZE')      # abstracted to a symbolic K >= 1 (DESIGN 2.3)
W_GLOBALS = dict(io={'__name__': 'io', 'BytesIO': FnV(new_bytesio, 'io.BytesIO'), 'DEFAULT_BUFFER_SIZE': K})


def wrapper(raw_mode='partial'):
    return PObj('CachingStreamWrapper', _raw=PStream(raw_mode, bases=('IOBase',)), _cache=PBytesIO(),
                _markedPosition=PInt(), _droppedOctets=PInt())


def W(name, qual, params, ensures, raw_mode='partial', prop=None, **kw):
    return Contract(id='codec.streaming::CachingStreamWrapper.%s' % name, file=F,
                    qual='CachingStreamWrapper.%s' % qual, properties=['C11', 'C05'], prop=prop,
                    params=dict(self=wrapper(raw_mode), **params), requires=INV + kw.pop('requires', []),
                    ensures=[('inv.%d' % i, c) for i, c in enumerate(INV)] + ensures, globals=W_GLOBALS, **kw)


W_READ = W('read', 'read', dict(n=PInt()), requires=['n >= -1'], ensures=[
    # behaves like a seekable stream over the same octets: the result is the octets at the absolute position
    ('data', 'result is not None ==> (isinstance(result, bytes) and result == X.sub(self._raw.data, %s, %s + len(result)))'
     % (P_ABS_OLD, P_ABS_OLD)),
    ('advance', 'result is not None ==> %s == %s + len(result)' % (P_ABS, P_ABS_OLD)),
    ('no-data-no-move', 'result is None ==> %s == %s' % (P_ABS, P_ABS_OLD)),
    ('bounded', '(result is not None and old(n) >= 0) ==> len(result) <= old(n)'),
    # C11: fewer octets than asked for only when the source itself answered "nothing" (nothing yet, or the end): a raw
    # stream that hands out its data in small pieces is read until the request is met
    ('short-only-when-the-source-ran-dry', '(result is not None and old(n) >= 0 and len(result) < old(n)) ==> '
                                           '(self._raw.none_seen or self._raw.eof_signalled)'),
    ('no-drop', 'self._raw.pos - len(self._cache.content) == old(self._raw.pos) - len(old(self._cache.content))')],
    hints=['X.lemma_extract_concat(self._raw.data, old(self._raw.pos) - len(old(self._cache.content)), '
           'old(self._raw.pos), self._raw.pos)',
           'X.lemma_extract_extract(self._raw.data, old(self._raw.pos) - len(old(self._cache.content)), '
           'len(old(self._cache.content)), old(self._cache.pos), len(read_from_cache))',
           'X.lemma_extract_concat(self._raw.data, %s, old(self._raw.pos), self._raw.pos)' % P_ABS_OLD],
    external=['data', 'advance', 'no-data-no-move', 'bounded', 'short-only-when-the-source-ran-dry'], returns=PBytes(),
    # short answers of the raw stream are accumulated: what has been obtained so far are the octets from where the raw stream
    # stood, never more than asked for
    loops={0: Loop(invariant=['isinstance(read_from_raw, bytes)', 'n == -1 or (n >= 0 and len(read_from_raw) <= n)',
                              'self._raw.pos <= len(self._raw.data)', 'self._raw.pos == old(self._raw.pos) + len(read_from_raw)',
                              'read_from_raw == X.sub(self._raw.data, old(self._raw.pos), self._raw.pos)',
                              '(len(read_from_raw) == 0 and n > 0) ==> self._raw.eof_signalled'],
                   variant='n - len(read_from_raw)',
                   havoc_fields=['self._raw.pos', 'self._raw.eof_signalled', 'self._raw.none_seen', 'self._raw.__reads__'],
                   hints=['X.lemma_extract_concat(self._raw.data, old(self._raw.pos), iter_old(self._raw.pos), self._raw.pos)'])},
    modifies=['self._cache.content', 'self._cache.pos', 'self._raw.pos'])

W_PEEK = W('peek', 'peek', dict(n=PInt()), requires=['n >= 0'], raw_mode='complete', ensures=[
    ('data', 'result == X.sub(self._raw.data, %s, %s + len(result))' % (P_ABS_OLD, P_ABS_OLD)),
    ('position-unchanged', '%s == %s' % (P_ABS, P_ABS_OLD))],
    calls={'self.read': CallContract(W_READ, params=['n'])}, external=['data', 'position-unchanged'])

import copy as _copy_w
from pyvc.core import POpt as _POpt
_W_READ_NB = _copy_w.copy(W_READ)              # the same contract seen from a caller: the answer may be None
_W_READ_NB.returns = _POpt(PBytes())
# ... over a non-blocking source: "nothing at the moment" (None) is passed on, the position stays (C11; TypeError before 8a967c8)
W_PEEK_NB = W('peek[non-blocking]', 'peek', dict(n=PInt()), requires=['n >= 0'], raw_mode='partial', ensures=[
    ('data-or-nothing', 'result is None or result == X.sub(self._raw.data, %s, %s + len(result))' % (P_ABS_OLD, P_ABS_OLD)),
    ('position-unchanged', '%s == %s' % (P_ABS, P_ABS_OLD))],
    calls={'self.read': CallContract(_W_READ_NB, params=['n'])}, external=['data-or-nothing', 'position-unchanged'])

W_TELL = W('tell', 'tell', {}, ensures=[('is-cache-position', 'result == self._cache.pos'),
                                        ('pure', '%s == %s' % (P_ABS, P_ABS_OLD))], external=['pure'])

W_SEEK = W('seek[back-to-mark]', 'seek', dict(n=PInt(), whence=PConst(0)),
           requires=['n >= 0', 'n <= self._cache.pos'],
           ensures=[('position', 'self._cache.pos == n and result == n'),
                    ('frame', 'self._cache.content == old(self._cache.content) and self._raw.pos == old(self._raw.pos)')],
           external=['position', 'frame'])

W_SEEK_CUR = W('seek[relative-back]', 'seek', dict(n=PInt(), whence=PConst(1)),
               requires=['n <= 0', 'self._cache.pos + n >= 0'],
               ensures=[('position', '%s == %s + n' % (P_ABS, P_ABS_OLD))], external=['position'])

W_MARK_SET = W('markedPosition.setter', 'markedPosition', dict(value=PInt()), prop='setter',
               requires=['value == self._cache.pos', 'DEFAULT_BUFFER_SIZE >= 1'],
               ensures=[
                   # C11: setting the mark at the current position changes nothing observable
                   ('absolute-position-kept', '%s == %s' % (P_ABS, P_ABS_OLD)),
                   # the wrapper may number its positions anew (pinned by the tests); what the decoders measure lengths
                   # with, tell() + droppedOctets, does not move
                   ('consumed-count-stable', 'self._cache.pos + self._droppedOctets == old(self._cache.pos) + old(self._droppedOctets)'),
                   ('mark-is-current-position', 'self._markedPosition == self._cache.pos'),
                   ('unread-kept', 'X.sub(self._cache.content, self._cache.pos, len(self._cache.content)) == '
                                   'X.sub(old(self._cache.content), old(self._cache.pos), len(old(self._cache.content)))')],
               ghost={'DEFAULT_BUFFER_SIZE': PConst(K)},
               external=['absolute-position-kept', 'consumed-count-stable', 'unread-kept'])



def _peek_method(ex, self, n):
    """model of a stream's peek(n) (CachingStreamWrapper.peek contract: data at the position, position unchanged),
    over a non-blocking source: may return None or fewer octets than asked"""
    import z3 as _z
    from pyvc.core import SeqV, BoolSort, toint
    if ex.choose(ex.fresh('peek.none', BoolSort()), 'peek-none'):
        return None
    data = self.fields['data'].z
    pos = self.fields['pos']
    n = toint(n)
    rest = _z.Length(data) - pos
    k = ex.fresh('peek.k', _z.IntSort())
    ex.assume(_z.And(k >= 0, k <= rest, _z.Or(n < 0, k <= n)))
    return SeqV(_z.Extract(data, pos, k), 'bytes')


PEEK_WITHPEEK = Contract(
    id='codec.streaming::peekIntoStream[peek]', file=F, qual='peekIntoStream', properties=['C05', 'C11', 'C12'],
    params=dict(substrate=PStream('partial', bases=('IOBase',), extra_methods={'peek': _peek_method}), size=PInt()),
    requires=['size >= 0'],
    yield_ensures=[('position-unchanged', 'substrate.pos == old(substrate.pos)'),
                   ('data', 'not isinstance(y, SubstrateUnderrunError) ==> (len(y) == size and y == X.sub(substrate.data, '
                            'old(substrate.pos), old(substrate.pos) + size))'),
                   ('marker-or-data', 'isinstance(y, SubstrateUnderrunError) or isinstance(y, bytes)')],
    exit_ensures=[('ends-with-data', 'isinstance(last_yield(), bytes)'),
                  ('position-restored', 'substrate.pos == old(substrate.pos)')],
    loops={0: Loop(invariant=['substrate.pos == old(substrate.pos)'], yields_each_iteration=True)},
    external=['position-unchanged', 'data', 'marker-or-data', 'ends-with-data', 'position-restored'],
)

CONTRACTS = [READ_COMPLETE, READ_PARTIAL, IS_EOS_BYTESIO, IS_EOS_GENERIC, PEEK_NOPEEK, PEEK_WITHPEEK,
             W_READ, W_PEEK, W_PEEK_NB, W_TELL, W_SEEK, W_SEEK_CUR, W_MARK_SET]




# ---- the drop-proof position the decoders measure lengths with ------------------------------------------------------------------
W_DROPPED = W('droppedOctets.getter', 'droppedOctets', {}, prop='getter',
              ensures=[('position-in-the-underlying-stream', 'result + self._cache.pos == %s' % P_ABS),
                       ('pure', '%s == %s' % (P_ABS, P_ABS_OLD))], external=['position-in-the-underlying-stream', 'pure'])


def _consumed_substrate(ex, env):
    """any substrate the decoders see: the caching wrapper (has droppedOctets) or a seekable stream (has not)"""
    import z3 as _z
    from pyvc.core import Obj as _Obj
    fields = {'pos': _z.Int('substrate.tell')}
    if ex.choose(_z.Bool('substrate.isCachingWrapper'), 'caching-wrapper'):
        fields['droppedOctets'] = _z.Int('substrate.droppedOctets')
    return _Obj('Stream', fields, {'tell': lambda ex2, self: self.fields['pos']}, name='substrate')


CONSUMED = Contract(
    id='ber.decoder::_consumed', file='pyasn1/codec/ber/decoder.py', qual='_consumed', properties=['C11', 'C05', 'C07'],
    params=dict(substrate=PDerived(_consumed_substrate)),
    globals={'isWrapper': z3.Bool('substrate.isCachingWrapper'), 'told': z3.Int('substrate.tell'),
             'dropped': z3.Int('substrate.droppedOctets'), '_consumed': None},
    ensures=[('wrapper-position-in-the-underlying-stream', 'isWrapper ==> result == told + dropped'),
             ('seekable-stream-position', '(not isWrapper) ==> result == told')],
    note='with the wrapper invariant tell() + droppedOctets == position in the underlying stream (contracts '
         'CachingStreamWrapper.*#inv.5) this is the number of octets consumed, whatever was marked in between')
CONTRACTS = CONTRACTS + [W_DROPPED, CONSUMED]
