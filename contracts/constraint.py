"""Contracts on pyasn1/type/constraint.py: every _testValue admits exactly the set-theoretic denotation.

A child constraint is modelled by its denotation: an opaque predicate in_i(value); calling the child raises
ValueConstraintError iff not in_i (that is the contract of AbstractConstraint.__call__, proved below for a
non-empty constraint).  The per-class step is proved for arities 0..3; the structural induction over the
constraint tree is a paper argument (DESIGN 6, C14)."""
import z3
from z3 import Bool, Not, And, Or, BoolVal

from pyvc.core import (Contract, PInt, PBool, PBytes, PConst, PObj, PDerived, POpt, Obj, Tup, FnV, ExcV, _Raise, SeqV,
                       truthy, Length)

F = 'pyasn1/type/constraint.py'
P = ['C14', 'C10']


def child(i):
    """child constraint number i with denotation in_i: raises ValueConstraintError iff the value is outside"""
    def call(ex, value, idx=None):
        if not ex.choose(Bool('in_%d' % i), 'child%d' % i):
            raise _Raise(ExcV('ValueConstraintError'))
        return None
    return FnV(call, 'constraint%d' % i)


def values(n):
    return PConst(Tup([child(i) for i in range(n)]))


def ins(n):
    return ['in_%d' % i for i in range(n)]


G = {'in_%d' % i: Bool('in_%d' % i) for i in range(4)}
CONTRACTS = []

for n in range(4):
    CONTRACTS.append(Contract(
        id='type.constraint::ConstraintsIntersection._testValue[%d]' % n, file=F, qual='ConstraintsIntersection._testValue',
        properties=P, params=dict(self=PObj('ConstraintsIntersection', _values=values(n)), value=PInt(), idx=PConst(None)),
        globals=G,
        raises={'ValueConstraintError': ' or '.join('not %s' % x for x in ins(n)) if n else 'False'},
        note='admits exactly the intersection of the children (everything for no children)'))
    CONTRACTS.append(Contract(
        id='type.constraint::ConstraintsUnion._testValue[%d]' % n, file=F, qual='ConstraintsUnion._testValue',
        properties=P, params=dict(self=PObj('ConstraintsUnion', _values=values(n)), value=PInt(), idx=PConst(None)),
        globals=G,
        raises={'ValueConstraintError': ' and '.join('not %s' % x for x in ins(n)) if n else 'True'},
        note='admits exactly the union of the children (nothing for no children)'))
    CONTRACTS.append(Contract(
        id='type.constraint::ConstraintsExclusion._testValue[%d]' % n, file=F, qual='ConstraintsExclusion._testValue',
        properties=P, params=dict(self=PObj('ConstraintsExclusion', _values=values(n)), value=PInt(), idx=PConst(None)),
        globals=G,
        raises={'ValueConstraintError': ' or '.join(ins(n)) if n else 'False'},
        note='admits exactly the complement of the union of the children'))

CONTRACTS.append(Contract(
    id='type.constraint::ValueRangeConstraint._testValue', file=F, qual='ValueRangeConstraint._testValue', properties=P,
    params=dict(self=PObj('ValueRangeConstraint', start=PInt(), stop=PInt()), value=PInt(), idx=PConst(None)),
    requires=['self.start <= self.stop'],
    raises={'ValueConstraintError': 'value < self.start or value > self.stop'},
    note='admits exactly the closed interval [start, stop]'))

CONTRACTS.append(Contract(
    id='type.constraint::ValueSizeConstraint._testValue', file=F, qual='ValueSizeConstraint._testValue', properties=P,
    params=dict(self=PObj('ValueSizeConstraint', start=PInt(), stop=PInt()), value=PBytes(), idx=PConst(None)),
    requires=['self.start <= self.stop'],
    raises={'ValueConstraintError': 'len(value) < self.start or len(value) > self.stop'},
    note='admits exactly the values whose size lies in [start, stop]'))


def setmodel(name):
    """self._set: python set of the listed values; membership is an opaque predicate of the value"""
    member = z3.Function(name, z3.IntSort(), z3.BoolSort())

    def contains(ex, self, x):
        return member(x)
    return Obj('set', {}, {'__contains__': contains}, name=name), member


_SET, _MEMBER = setmodel('member_of_values')
CONTRACTS.append(Contract(
    id='type.constraint::SingleValueConstraint._testValue', file=F, qual='SingleValueConstraint._testValue', properties=P,
    params=dict(self=PObj('SingleValueConstraint', _set=PConst(_SET)), value=PInt(), idx=PConst(None)),
    globals={'member_of_values': FnV(lambda ex, x: _MEMBER(x), 'member_of_values')},
    raises={'ValueConstraintError': 'not member_of_values(value)'},
    note='admits exactly the listed values'))

for cls, none_ok in (('ComponentPresentConstraint', False), ('ComponentAbsentConstraint', True)):
    CONTRACTS.append(Contract(
        id='type.constraint::%s._testValue' % cls, file=F, qual='%s._testValue' % cls, properties=P,
        params=dict(self=PObj(cls), value=POpt(PInt()), idx=PConst(None)),
        raises={'ValueConstraintError': 'value is not None' if none_ok else 'value is None'},
        note='presence / absence of a component'))


# AbstractConstraint.__call__: evaluation entry point.  From the statement (C14): passes <=> value in the denotation.
def test_value_model(ex, self, value, idx=None):
    if not ex.choose(Bool('in_denotation'), 'testValue'):
        raise _Raise(ExcV('ValueConstraintError'))


def call_contract(tag, values, requires, note):
    return Contract(
        id='type.constraint::AbstractConstraint.__call__[%s]' % tag, file=F, qual='AbstractConstraint.__call__',
        properties=P,
        params=dict(self=PObj('AbstractConstraint', methods={'_testValue': test_value_model}, _values=PConst(values)),
                    value=PInt(), idx=PConst(None)),
        globals={'in_denotation': Bool('in_denotation')}, requires=requires,
        raises={'ValueConstraintError': 'not in_denotation'}, note=note)


CONTRACTS.append(call_contract('values', Tup([1]), [], 'the constraint object is callable: raises ValueConstraintError '
                               'exactly outside its denotation'))
CONTRACTS.append(call_contract('no-values,intersection-or-exclusion', Tup([]), ['in_denotation'],
                               'with no values the test is skipped: right for the empty intersection / exclusion, which '
                               'admit everything'))
CONTRACTS.append(call_contract('no-values,union', Tup([]), ['not in_denotation'],
                               'with no values the test is skipped: wrong for the empty union, which admits nothing'))
