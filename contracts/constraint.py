"""Contracts on pyasn1/type/constraint.py: every _testValue admits exactly the set-theoretic denotation.

A child constraint is modelled by its denotation: an opaque predicate in_i(value); calling the child raises
ValueConstraintError iff not in_i (that is the contract of AbstractConstraint.__call__, proved below for a
non-empty constraint).  The per-class step is proved for arities 0..3; the structural induction over the
constraint tree is a paper argument (DESIGN 6, C14)."""
import z3
from z3 import Bool, Not, And, Or, BoolVal

from pyvc.core import (Contract, PInt, PBool, PBytes, PConst, PObj, PDerived, POpt, Obj, Tup, FnV, ExcV, _Raise, SeqV,
                       truthy, Length)

F = 'pyasn1/type/constraint.py'
P = ['C14', 'C10']


def child(i):
    """child constraint number i with denotation in_i: raises ValueConstraintError iff the value is outside"""
    def call(ex, value, idx=None):
        if not ex.choose(Bool('in_%d' % i), 'child%d' % i):
            raise _Raise(ExcV('ValueConstraintError'))
        return None
    return FnV(call, 'constraint%d' % i)


def values(n):
    return PConst(Tup([child(i) for i in range(n)]))


def ins(n):
    return ['in_%d' % i for i in range(n)]


G = {'in_%d' % i: Bool('in_%d' % i) for i in range(4)}
CONTRACTS = []

for n in range(4):
    CONTRACTS.append(Contract(
        id='type.constraint::ConstraintsIntersection._testValue[%d]' % n, file=F, qual='ConstraintsIntersection._testValue',
        properties=P, params=dict(self=PObj('ConstraintsIntersection', _values=values(n)), value=PInt(), idx=PConst(None)),
        globals=G,
        raises={'ValueConstraintError': ' or '.join('not %s' % x for x in ins(n)) if n else 'False'},
        note='admits exactly the intersection of the children (everything for no children)'))
    CONTRACTS.append(Contract(
        id='type.constraint::ConstraintsUnion._testValue[%d]' % n, file=F, qual='ConstraintsUnion._testValue',
        properties=P, params=dict(self=PObj('ConstraintsUnion', _values=values(n)), value=PInt(), idx=PConst(None)),
        globals=G,
        raises={'ValueConstraintError': ' and '.join('not %s' % x for x in ins(n)) if n else 'True'},
        note='admits exactly the union of the children (nothing for no children)'))
    CONTRACTS.append(Contract(
        id='type.constraint::ConstraintsExclusion._testValue[%d]' % n, file=F, qual='ConstraintsExclusion._testValue',
        properties=P, params=dict(self=PObj('ConstraintsExclusion', _values=values(n)), value=PInt(), idx=PConst(None)),
        globals=G,
        raises={'ValueConstraintError': ' or '.join(ins(n)) if n else 'False'},
        note='admits exactly the complement of the union of the children'))

CONTRACTS.append(Contract(
    id='type.constraint::ValueRangeConstraint._testValue', file=F, qual='ValueRangeConstraint._testValue', properties=P,
    params=dict(self=PObj('ValueRangeConstraint', start=PInt(), stop=PInt()), value=PInt(), idx=PConst(None)),
    requires=['self.start <= self.stop'],
    raises={'ValueConstraintError': 'value < self.start or value > self.stop'},
    note='admits exactly the closed interval [start, stop]'))

CONTRACTS.append(Contract(
    id='type.constraint::ValueSizeConstraint._testValue', file=F, qual='ValueSizeConstraint._testValue', properties=P,
    params=dict(self=PObj('ValueSizeConstraint', start=PInt(), stop=PInt()), value=PBytes(), idx=PConst(None)),
    requires=['self.start <= self.stop'],
    raises={'ValueConstraintError': 'len(value) < self.start or len(value) > self.stop'},
    note='admits exactly the values whose size lies in [start, stop]'))
# ... and the absence of a component, which WITH COMPONENTS shows to constraint sets (`a (SIZE (1..2) | ABSENT)`), has no size:
# it is refused with the constraint error, never with the TypeError of len(None) (C08: that one came out of decode())
CONTRACTS.append(Contract(
    id='type.constraint::ValueSizeConstraint._testValue[absent-component]', file=F, qual='ValueSizeConstraint._testValue',
    properties=P, params=dict(self=PObj('ValueSizeConstraint', start=PInt(), stop=PInt()), value=PConst(None), idx=PConst(None)),
    requires=['self.start <= self.stop'],
    raises={'ValueConstraintError': 'True'},
    note='no value, no size: outside every SIZE constraint'))


def setmodel(name):
    """self._set: python set of the listed values; membership is an opaque predicate of the value"""
    member = z3.Function(name, z3.IntSort(), z3.BoolSort())

    def contains(ex, self, x):
        return member(x)
    return Obj('set', {}, {'__contains__': contains}, name=name), member


_SET, _MEMBER = setmodel('member_of_values')
CONTRACTS.append(Contract(
    id='type.constraint::SingleValueConstraint._testValue', file=F, qual='SingleValueConstraint._testValue', properties=P,
    params=dict(self=PObj('SingleValueConstraint', _set=PConst(_SET)), value=PInt(), idx=PConst(None)),
    globals={'member_of_values': FnV(lambda ex, x: _MEMBER(x), 'member_of_values')},
    raises={'ValueConstraintError': 'not member_of_values(value)'},
    note='admits exactly the listed values'))

for cls, none_ok in (('ComponentPresentConstraint', False), ('ComponentAbsentConstraint', True)):
    CONTRACTS.append(Contract(
        id='type.constraint::%s._testValue' % cls, file=F, qual='%s._testValue' % cls, properties=P,
        params=dict(self=PObj(cls), value=POpt(PInt()), idx=PConst(None)),
        raises={'ValueConstraintError': 'value is not None' if none_ok else 'value is None'},
        note='presence / absence of a component'))


# AbstractConstraint.__call__: evaluation entry point.  From the statement (C14): passes <=> value in the denotation.
def test_value_model(ex, self, value, idx=None):
    if not ex.choose(Bool('in_denotation'), 'testValue'):
        raise _Raise(ExcV('ValueConstraintError'))


def call_contract(tag, values, requires, note):
    return Contract(
        id='type.constraint::AbstractConstraint.__call__[%s]' % tag, file=F, qual='AbstractConstraint.__call__',
        properties=P,
        params=dict(self=PObj('AbstractConstraint', methods={'_testValue': test_value_model}, _values=PConst(values)),
                    value=PInt(), idx=PConst(None)),
        globals={'in_denotation': Bool('in_denotation')}, requires=requires,
        raises={'ValueConstraintError': 'not in_denotation'}, note=note)


CONTRACTS.append(call_contract('values', Tup([1]), [], 'the constraint object is callable: raises ValueConstraintError '
                               'exactly outside its denotation'))
CONTRACTS.append(call_contract('no-values,intersection-or-exclusion', Tup([]), ['in_denotation'],
                               'with no values the test is skipped: right for the empty intersection / exclusion, which '
                               'admit everything'))
CONTRACTS.append(call_contract('no-values,union', Tup([]), ['not in_denotation'],
                               'with no values the test is skipped: wrong for the empty union, which admits nothing'))


# ---- derivation: extending a constraint set keeps every operand (C10/C14: a derived type never drops a constraint) ----
def _cobj(i):
    def eq(ex, self, other):
        # equality of constraint objects is by operands: an arbitrary relation as far as this contract is concerned
        return ex.fresh('eq.%d' % i, z3.BoolSort())

    def isa(ex, self, clsname):
        # the operand may be of any constraint class, a constraint set (union, intersection, ...) included
        return Bool('operand%d.isinstance.%s' % (i, clsname))
    return Obj('Constraint', {'__truthy__': Bool('nonempty.%d' % i)},
               {'__eq__': eq, '__ne__': lambda ex, s, o: Not(eq(ex, s, o)), '__isinstance__': isa}, name='operand%d' % i)


from pyvc.core import ClassV as _ClassV
CLASSES = {n: _ClassV(n) for n in ('AbstractConstraint', 'AbstractConstraintSet', 'ConstraintsIntersection', 'ConstraintsUnion',
                                   'ConstraintsExclusion', 'SingleValueConstraint', 'ValueRangeConstraint')}


def _set_model(initial=()):
    def add(ex, self, x):
        self.fields['members'].items.append(x)

    def update(ex, self, other):
        self.fields['members'].items.extend(other.fields['members'].items)
    def contains(ex, self, x):
        # whether an operand is listed among the ancestors is not known here: the map also holds the operands of the
        # set's own operands (the alternatives of a union), so either answer is possible for any constraint
        return ex.fresh('valueMap.has', __import__('z3').BoolSort())
    return Obj('set', {'members': Tup(list(initial), 'list')}, {'add': add, 'update': update, '__contains__': contains},
               name='valueMap')


ANCESTOR = Obj('ConstraintSet', {}, name='ancestor')


def _ctor(ex, *values):
    return Obj('ConstraintSet', {'_values': Tup(list(values)), '_valueMap': _set_model()}, name='derived')


def _cset(n):
    def mk(ex, env):
        return Obj('ConstraintSet', {'_values': Tup([_cobj(i) for i in range(n)]), '_valueMap': _set_model([ANCESTOR]),
                                     '_extensionNarrows': env['narrows'], '__class__': FnV(_ctor, 'self.__class__')},
                   name='self')
    return mk


NEW = _cobj(9)


def _intersection_ctor(ex, *values):
    return Obj('ConstraintsIntersection', {'_values': Tup(list(values))}, name='intersection')


for n in range(3):
    same = ' and '.join(['len(last_args("self._derive")[0]) == %d' % (n + 1)] +
                        ['last_args("self._derive")[0][%d] is self._values[%d]' % (i, i) for i in range(n)] +
                        ['last_args("self._derive")[0][%d] is value' % n])
    appends = '(%s) and result is last_result("self._derive")' % same
    wraps = ('result is last_result("ConstraintsIntersection") and len(result._values) == 2 and result._values[0] is self '
             'and result._values[1] is value')
    CONTRACTS.append(Contract(
        id='type.constraint::AbstractConstraintSet.__add__[%d]' % n, file=F, qual='AbstractConstraintSet.__add__', properties=P,
        params=dict(narrows=PBool(), self=PDerived(_cset(n)), value=PConst(NEW)), globals=dict(CLASSES),
        calls={'self._derive': lambda ex, values: _ctor(ex, *values.items), 'ConstraintsIntersection': _intersection_ctor},
        ensures=[('narrowing-set-or-empty-set-appends', '(narrows or %s) ==> (%s)' % (n == 0, appends)),
                 ('non-narrowing-set-is-intersected-with-the-new-constraint',
                  '(not narrows and %s) ==> (%s)' % (n > 0, wraps))],
        note='set + constraint: an intersection (and the empty set) keeps all %d operands in order and appends the new one, '
             'even if it compares equal to one of them; a union is not given one more alternative (that would widen the '
             'type) but intersected with the new constraint' % n))
    CONTRACTS.append(Contract(
        id='type.constraint::AbstractConstraintSet._derive[%d]' % n, file=F, qual='AbstractConstraintSet._derive', properties=P,
        params=dict(narrows=PBool(), self=PDerived(_cset(n)),
                    values=PConst(Tup([_cobj(20 + i) for i in range(n + 1)]))),
        ensures=[('same-class-all-values', 'len(result._values) == %d and ' % (n + 1) +
                  ' and '.join('result._values[%d] is values[%d]' % (i, i) for i in range(n + 1))),
                 ('derived-from-self-and-its-ancestors-iff-narrowing',
                  '(len(result._valueMap.members) == 2 and result._valueMap.members[0] is self and '
                  'result._valueMap.members[1] is ancestor) '
                  'if (%s and self._extensionNarrows) else len(result._valueMap.members) == 0' % (n > 0))],
        globals={'ancestor': ANCESTOR},
        note='the derived set is registered as a subtype of this one exactly when extension can only narrow '
             '(intersection / exclusion) and this set is not the empty one'))


# ---- the subtype relation on constraint objects, asked from either side (C14) --------------------------------------------------------
def _rel_obj(name, constrained, contains_flag):
    import z3 as _z

    def make(ex, env):
        vm = Obj('set', {}, {'__contains__': lambda ex2, self, x: _z.Bool(contains_flag)}, name=name + '._valueMap')
        return Obj('AbstractConstraint', {'_values': Obj('tuple', {'__truthy__': _z.Bool(constrained)}, name=name + '._values'),
                                          '_valueMap': vm, '__truthy__': _z.Bool(constrained)},
                   {'__eq__': lambda ex2, self, o: _z.Bool('constraints.equal'), 'getValueMap': lambda ex2, self: vm}, name=name)
    return make


import z3 as _z3
_RG = {'selfConstrained': _z3.Bool('self.constrained'), 'otherConstrained': _z3.Bool('other.constrained'),
       'equal': _z3.Bool('constraints.equal'), 'selfDerivedFromOther': _z3.Bool('other in self.valueMap'),
       'otherDerivedFromSelf': _z3.Bool('self in other.valueMap')}
_RP = dict(self=PDerived(_rel_obj('self', 'self.constrained', 'other in self.valueMap')),
           otherConstraint=PDerived(_rel_obj('otherConstraint', 'other.constrained', 'self in other.valueMap')))
CONTRACTS.append(Contract(
    id='type.constraint::AbstractConstraint.isSuperTypeOf', file=F, qual='AbstractConstraint.isSuperTypeOf', properties=['C14'],
    params=_RP, globals=_RG,
    ensures=[('supertype-of-itself-of-everything-if-unconstrained-of-its-derivations',
              'result == (otherConstraint is self or not selfConstrained or equal or otherDerivedFromSelf)')]))
CONTRACTS.append(Contract(
    id='type.constraint::AbstractConstraint.isSubTypeOf', file=F, qual='AbstractConstraint.isSubTypeOf', properties=['C14'],
    params=_RP, globals=_RG,
    # the mirror image of isSuperTypeOf: a.isSubTypeOf(b) == b.isSuperTypeOf(a)
    ensures=[('mirror-of-isSuperTypeOf',
              'result == (otherConstraint is self or not otherConstrained or equal or selfDerivedFromOther)')]))


# ---- the three set operators over ANY number of operands (unbounded; the arity-indexed contracts above are instances) -----------
from pyvc.core import RecSeqV as _RecSeqV, Loop as _Loop, PIntTuple as _PIntTuple, I as _I, toint as _toint
OPERAND_ADMITS = z3.Function('operand.admits', _I, z3.IntSort(), z3.BoolSort())     # does the operand with this identity admit v
_q = z3.Int('j!q')


class _Operands(_RecSeqV):
    """self._values: the operand constraints, known by identity; calling one raises ValueConstraintError unless it admits"""

    def elem(self, i):
        ident = self.cols[0][i]

        def call(ex, self_, value, idx=None):
            if not ex.choose(OPERAND_ADMITS(ident, _toint(value)), 'operand-admits'):
                raise _Raise(ExcV('ValueConstraintError'))
            return None
        return Obj('AbstractConstraint', {'__id__': ident}, {'__call__': call}, name='operand')


def _set_self(cls):
    def make(ex, env):
        ops = env['operands']
        return Obj(cls, {'_values': _Operands([ops.z], names=('__id__',))}, name='self')
    return make


def _all_admit(ex, ops, upto, v):
    z = ops.cols[0] if isinstance(ops, _RecSeqV) else ops.z
    return z3.ForAll([_q], z3.Implies(z3.And(_q >= 0, _q < _toint(upto)), OPERAND_ADMITS(z[_q], _toint(v))))


def _none_admits(ex, ops, upto, v):
    z = ops.cols[0] if isinstance(ops, _RecSeqV) else ops.z
    return z3.ForAll([_q], z3.Implies(z3.And(_q >= 0, _q < _toint(upto)), z3.Not(OPERAND_ADMITS(z[_q], _toint(v)))))


_NG = {'all_admit': FnV(_all_admit, 'all_admit'), 'none_admits': FnV(_none_admits, 'none_admits'),
       'error': {'ValueConstraintError': _ClassV('ValueConstraintError'), '__name__': 'error'}}
_NP = lambda cls: dict(operands=_PIntTuple(), self=PDerived(_set_self(cls)), value=PInt(), idx=PConst(None))
CONTRACTS.append(Contract(
    id='type.constraint::ConstraintsIntersection._testValue[any-arity]', file=F, qual='ConstraintsIntersection._testValue', properties=P,
    params=_NP('ConstraintsIntersection'), globals=_NG,
    loops={0: _Loop(index='k', invariant=['all_admit(loop_seq, k, value)'])},
    ensures=[('passes-only-if-every-operand-admits', 'all_admit(operands, len(operands), value)')],
    raise_ensures={'ValueConstraintError': ['not all_admit(operands, len(operands), value)']},
    may_raise={'ValueConstraintError': True},
    note='admits exactly the intersection of the operands\' denotations, for any number of operands'))
CONTRACTS.append(Contract(
    id='type.constraint::ConstraintsUnion._testValue[any-arity]', file=F, qual='ConstraintsUnion._testValue', properties=P,
    params=_NP('ConstraintsUnion'), globals=_NG,
    loops={0: _Loop(index='k', invariant=['none_admits(loop_seq, k, value)'])},
    ensures=[('passes-only-if-some-operand-admits', 'not none_admits(operands, len(operands), value)')],
    raise_ensures={'ValueConstraintError': ['none_admits(operands, len(operands), value)']},
    may_raise={'ValueConstraintError': True},
    note='admits exactly the union of the operands\' denotations (nothing for no operands: recorded finding '
         'KF-empty-union-admits-everything lives one level up, in AbstractConstraint.__call__)'))
CONTRACTS.append(Contract(
    id='type.constraint::ConstraintsExclusion._testValue[any-arity]', file=F, qual='ConstraintsExclusion._testValue', properties=P,
    params=_NP('ConstraintsExclusion'), globals=_NG,
    loops={0: _Loop(index='k', invariant=['none_admits(loop_seq, k, value)'])},
    ensures=[('passes-only-if-no-operand-admits', 'none_admits(operands, len(operands), value)')],
    raise_ensures={'ValueConstraintError': ['not none_admits(operands, len(operands), value)']},
    may_raise={'ValueConstraintError': True},
    note='admits exactly the complement of the union of the operands\' denotations'))


for _c in CONTRACTS:
    import re as _re
    _m = _re.search(r'\._testValue\[(\d)\]$|__add__\[(\d)\]$|_derive\[(\d)\]$', _c.id)
    if _m:
        _c.bounded = 'constraint sets of exactly %s operands' % [g for g in _m.groups() if g is not None][0]


# ---- WITH COMPONENTS: presence constraints see an absent member, value constraints apply to a present one only ------------------
def _wc_value(ex, env):
    def get(ex2, self, field, default=None):
        if not ex2.choose(Bool('member.stored'), 'member-stored'):
            return None
        # what a read leaves in an unset slot is stored but is not a value
        return Obj('Asn1Item', {'isValue': ex2.choose(Bool('member.isValue'), 'member-is-a-value')}, name='member')

    def by_name(ex2, self, field, default='(not given)', instantiate=True):
        # a record object (a nested WITH COMPONENTS sees the member itself): asked without instantiating -- a read must not
        # leave a placeholder behind -- and with None for "not a value"
        ex2.vc('%s#record-asked-without-instantiating' % ex2.c.id, z3.BoolVal(instantiate is False and default is None),
               kind='external')
        if not ex2.choose(Bool('member.stored'), 'member-stored'):
            return None
        if not ex2.choose(Bool('member.isValue'), 'member-is-a-value'):
            return None          # getComponentByName(default=None, instantiate=False): the default for what is no value
        return Obj('Asn1Item', {'isValue': True}, name='member')
    if ex.choose(Bool('value.isRecordObject'), 'record-object'):
        def no_get(ex2, self, *a, **k):
            raise _Raise(ExcV('AttributeError'))        # record objects have no .get()
        return Obj('Sequence', {}, {'getComponentByName': by_name, 'get': no_get}, name='value')
    return Obj('dict', {}, {'get': get}, name='value')


_WC_KINDS = (('ComponentPresentConstraint', ('AbstractConstraint',)), ('ComponentAbsentConstraint', ('AbstractConstraint',)),
             ('ConstraintsUnion', ('AbstractConstraintSet', 'AbstractConstraint')), ('ValueRangeConstraint', ('AbstractConstraint',)),
             ('ConstraintsExclusion', ('AbstractConstraint',)))


def _wc_self(ex, env):
    kind = 3
    for k in (0, 1, 2, 4):
        if ex.choose(Bool('constraint.kind%d' % k), 'kind-%s' % _WC_KINDS[k][0]):
            kind = k
            break
    cls, bases = _WC_KINDS[kind]
    log = env['log']
    # a value constraint, or a set made of value constraints only (`((1..5))`, `ALL EXCEPT (SIZE (1..2))`)
    holds_presence = Bool('set.holdsPresenceConstraint')
    log.fields['isValueConstraint'] = (kind == 3) if kind not in (2, 4) else z3.Not(holds_presence)

    def sees_absence(ex2, self_, constraint):
        # callee WithComponentsConstraint._seesAbsence
        return True if kind in (0, 1) else (False if kind == 3 else holds_presence)

    def call(ex2, self_, v, idx=None):
        log.fields['called'] = True
        log.fields['arg'] = v
        if not ex2.choose(Bool('constraint.admits'), 'admits'):
            raise _Raise(ExcV('ValueConstraintError'))
        return None
    c = Obj(cls, {}, {'__call__': call, '__isinstance__': lambda ex2, self_, nm: nm == cls or nm in bases}, name='constraint')
    return Obj('WithComponentsConstraint', {'_values': Tup([Tup(['field', c])])}, {'_seesAbsence': sees_absence}, name='self')


_present = 'member_stored and member_isValue'
WITH_COMPONENTS = Contract(
    id='type.constraint::WithComponentsConstraint._testValue[one-entry]', file=F, qual='WithComponentsConstraint._testValue',
    properties=P + ['C08'],
    params=dict(log=PDerived(lambda ex, env: Obj('log', {'called': False, 'arg': None, 'isValueConstraint': None}, name='log')),
                value=PDerived(_wc_value), self=PDerived(_wc_self), idx=PConst(None)),
    globals={'member_stored': Bool('member.stored'), 'member_isValue': Bool('member.isValue'), 'admits': Bool('constraint.admits'),
             'ComponentPresentConstraint': _ClassV('ComponentPresentConstraint'),
             'ComponentAbsentConstraint': _ClassV('ComponentAbsentConstraint'),
             'AbstractConstraintSet': _ClassV('AbstractConstraintSet'),
             'ConstraintsExclusion': _ClassV('ConstraintsExclusion')},
    ensures=[
        # X.680 51.8: a value constraint on a component applies when the component is present; it is never shown "no value"
        ('value-constraints-see-present-members-only', '(log.isValueConstraint and not (%s)) ==> not log.called' % _present),
        ('otherwise-the-constraint-decides', '(not log.isValueConstraint or (%s)) ==> (log.called and admits)' % _present),
        # presence constraints (and sets that hold one) see an absent member -- also a placeholder -- as None
        ('absent-is-none', '(log.called and not (%s)) ==> log.arg is None' % _present),
        ('present-is-the-member', '(log.called and (%s)) ==> log.arg is not None' % _present)],
    raises={'ValueConstraintError': '(not log.isValueConstraint or (%s)) and not admits' % _present},
    note='the member constraint is an assumed model (admits or raises ValueConstraintError); one (field, constraint) entry: '
         'the loop over the entries repeats this step')
WITH_COMPONENTS.bounded = 'one (field, constraint) entry per constraint (the loop over entries is unrolled)'
CONTRACTS.append(WITH_COMPONENTS)


# ---- ... for any number of (field, constraint) entries ------------------------------------------------------------------------
WC_STORED = z3.Function('member.stored', _I, z3.BoolSort())          # by field token: a slot holds something
WC_ISVAL = z3.Function('member.isValue', _I, z3.BoolSort())          # ... which is a value (not a read's placeholder)
WC_PRESENCE = z3.Function('constraint.seesAbsence', _I, z3.BoolSort())   # by constraint token: PRESENT / ABSENT / a set holding one
WC_ADMITS = z3.Function('constraint.admitsMember', _I, z3.BoolSort())        # what the constraint says of what it is shown


class _Entries(_RecSeqV):
    """self._values: (field, constraint) pairs, known by tokens"""

    def elem(self, i):
        fid, cid = self.cols[0][i], self.cols[1][i]
        field = Obj('str', {'__id__': fid}, name='field')

        def call(ex, self_, v, idx=None):
            # shown what it should be shown: None for an absent member (also a placeholder), the member otherwise
            shown_ok = (v is None) if getattr(ex, '_wc_member_absent', None) else (v is not None)
            ex.vc('%s#entry-shown-the-right-thing' % ex.c.id, z3.BoolVal(bool(shown_ok)), kind='external')
            if not ex.choose(WC_ADMITS(cid), 'admits'):
                raise _Raise(ExcV('ValueConstraintError'))
            return None

        def isa(ex, self_, nm):
            return WC_PRESENCE(cid) if nm in ('ComponentPresentConstraint', 'ComponentAbsentConstraint', 'AbstractConstraintSet',
                                              'ConstraintsExclusion') else False
        c = Obj('AbstractConstraint', {'__id__': cid}, {'__call__': call, '__isinstance__': isa},
                name='constraint')
        return Tup([field, c])


def _wcn_value(ex, env):
    def get(ex2, self, field, default=None):
        fid = _toint(field.fields['__id__'])
        present = None
        if not ex2.choose(WC_STORED(fid), 'member-stored'):
            member, present = None, False
        else:
            isv = ex2.choose(WC_ISVAL(fid), 'member-is-a-value')
            member, present = Obj('Asn1Item', {'isValue': isv}, name='member'), isv
        # remember, for the entry being evaluated on this path, whether its member counts as absent (executor-side ghost)
        ex2._wc_member_absent = not present
        return member
    return Obj('dict', {}, {'get': get}, name='value')


def _wc_ok_upto(ex, entries, upto):
    f, c = (entries.cols[0], entries.cols[1]) if isinstance(entries, _RecSeqV) else (entries[0].z, entries[1].z)
    present = lambda j: z3.And(WC_STORED(f[j]), WC_ISVAL(f[j]))
    return z3.ForAll([_q], z3.Implies(z3.And(_q >= 0, _q < _toint(upto)),
                                      z3.Or(z3.And(z3.Not(WC_PRESENCE(c[_q])), z3.Not(present(_q))), WC_ADMITS(c[_q]))))


WITH_COMPONENTS_N = Contract(
    id='type.constraint::WithComponentsConstraint._testValue[any-number-of-entries]', file=F,
    qual='WithComponentsConstraint._testValue', properties=P + ['C08'],
    params=dict(fields=_PIntTuple(), constraints=_PIntTuple(),
                self=PDerived(lambda ex, env: Obj('WithComponentsConstraint', {
                    '_values': _Entries([env['fields'].z, env['constraints'].z], names=None)}, {
                    # callee WithComponentsConstraint._seesAbsence(constraint): PRESENT / ABSENT / a set that holds one
                    '_seesAbsence': lambda ex2, self_, c: WC_PRESENCE(_toint(c.fields['__id__']))}, name='self')),
                value=PDerived(_wcn_value), idx=PConst(None)),
    globals={'ok_upto': FnV(lambda ex, seq, upto: _wc_ok_upto(ex, seq, upto), 'ok_upto'),
             'entries': FnV(lambda ex: None, 'entries'),
             'ComponentPresentConstraint': _ClassV('ComponentPresentConstraint'),
             'ComponentAbsentConstraint': _ClassV('ComponentAbsentConstraint'),
             'AbstractConstraintSet': _ClassV('AbstractConstraintSet'),
             'ConstraintsExclusion': _ClassV('ConstraintsExclusion'),
             'error': {'ValueConstraintError': _ClassV('ValueConstraintError'), '__name__': 'error'}},
    requires=['len(fields) == len(constraints)'],
    loops={0: _Loop(index='k', invariant=['ok_upto(loop_seq, k)'])},
    ensures=[('passes-only-if-every-entry-is-satisfied', 'ok_upto(self._values, len(fields))')],
    raise_ensures={'ValueConstraintError': ['not ok_upto(self._values, len(fields))']},
    may_raise={'ValueConstraintError': True},
    note='an entry is satisfied when its constraint admits what it is shown, or when it is a value constraint and the member is '
         'absent (not stored, or a placeholder): value constraints -- sets of value constraints included -- are not consulted '
         'then; presence constraints and sets that hold one are shown None for an absent member (obligation '
         'entry-shown-the-right-thing; which constraints those are: callee _seesAbsence)')
CONTRACTS.append(WITH_COMPONENTS_N)


# ---- which constraints are shown the absence of a component: PRESENT, ABSENT, and sets that hold one (recursive) --------------
SEES = z3.Function('operand.seesAbsence', _I, z3.BoolSort())       # the callee's answer for an operand (this same contract)
_SA_KINDS = (('ComponentPresentConstraint', ('AbstractConstraint',)), ('ComponentAbsentConstraint', ('AbstractConstraint',)),
             ('ConstraintsUnion', ('AbstractConstraintSet', 'AbstractConstraint')),
             ('ConstraintsIntersection', ('AbstractConstraintSet', 'AbstractConstraint')),
             ('ConstraintsExclusion', ('AbstractConstraint',)), ('ValueSizeConstraint', ('AbstractConstraint',)),
             ('WithComponentsConstraint', ('AbstractConstraint',)))


class _SaOperands(_RecSeqV):
    def elem(self, i):
        return Obj('AbstractConstraint', {'__id__': self.cols[0][i]}, name='operand')


def _sa_constraint(ex, env):
    kind = len(_SA_KINDS) - 1
    for k in range(len(_SA_KINDS) - 1):
        if ex.choose(Bool('constraint.kind%d' % k), 'kind-%s' % _SA_KINDS[k][0]):
            kind = k
            break
    cls, bases = _SA_KINDS[kind]
    env['log'].fields['kind'] = kind
    return Obj(cls, {'_values': _SaOperands([env['operands'].z], names=('__id__',))},
               {'__isinstance__': lambda ex2, self_, nm: nm == cls or nm in bases}, name='constraint')


def _none_sees(ex, ops, upto):
    z = ops.cols[0] if isinstance(ops, _RecSeqV) else ops.z
    return z3.ForAll([_q], z3.Implies(z3.And(_q >= 0, _q < _toint(upto)), z3.Not(SEES(z[_q]))))


SEES_ABSENCE = Contract(
    id='type.constraint::WithComponentsConstraint._seesAbsence', file=F, qual='WithComponentsConstraint._seesAbsence',
    properties=P + ['C08'],
    params=dict(log=PDerived(lambda ex, env: Obj('log', {'kind': None}, name='log')), operands=_PIntTuple(),
                cls=PConst(Obj('type', {}, {'_seesAbsence': lambda ex, self_, operand: SEES(_toint(operand.fields['__id__']))},
                               name='cls')),
                constraint=PDerived(_sa_constraint)),
    globals={'none_sees': FnV(_none_sees, 'none_sees'),
             'ComponentPresentConstraint': _ClassV('ComponentPresentConstraint'),
             'ComponentAbsentConstraint': _ClassV('ComponentAbsentConstraint'),
             'AbstractConstraintSet': _ClassV('AbstractConstraintSet'),
             'ConstraintsExclusion': _ClassV('ConstraintsExclusion')},
    loops={0: _Loop(index='k', invariant=['none_sees(loop_seq, k)'])},
    ensures=[
        ('presence-constraints-do', 'log.kind in (0, 1) ==> result is True'),
        ('a-set-does-iff-one-of-its-operands-does', 'log.kind in (2, 3, 4) ==> '
                                                    '((result is True) == (not none_sees(operands, len(operands))) and '
                                                    '(result is True or result is False))'),
        ('value-constraints-do-not', 'log.kind in (5, 6) ==> result is False')],
    note='the recursive call is this contract (an uninterpreted answer per operand): sets of any size and depth; an inner '
         'WITH COMPONENTS, SIZE, range, ... are value constraints')
CONTRACTS.append(SEES_ABSENCE)
for _c in CONTRACTS[-1:]:
    pass
