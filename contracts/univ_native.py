"""Contracts on pyasn1/type/univ.py (Choice bookkeeping), pyasn1/codec/native/encoder.py and the ANY capture of
pyasn1/codec/ber/decoder.py."""
import z3
from z3 import Bool, Int, And, Or, Not

from pyvc.core import (Contract, Loop, PInt, PBool, PConst, PObj, POneOf, PDerived, POptions, Obj, Tup, FnV, ExcV, _Raise, ClassV,
                       DictV, NOVALUE, BoolSort, SeqV, toint, concrete, Unsupported)
from pyvc.models import PStream
from contracts.streaming import _read_model
from contracts.ber_decoder import payload_params, create_component

U = 'pyasn1/type/univ.py'
N = 'pyasn1/codec/native/encoder.py'
D = 'pyasn1/codec/ber/decoder.py'

# ---- Choice: at most one alternative at any time ---------------------------------------------------------------
NALT = 3


def slots(ex, env):
    cur = env['cur']
    return Tup([Obj('Asn1Value', {'value': Int('old.%d' % j)}, name='alt%d' % j) if cur == j else NOVALUE
                for j in range(NALT)], 'list')


def set_set_component(ex, self, idx, value=NOVALUE, *a, **k):
    """model of Set.setComponentByPosition: stores the (type-checked) value at idx or refuses with PyAsn1Error"""
    if ex.choose(ex.fresh('Set.setComponentByPosition.raises', BoolSort()), 'set-raises'):
        raise _Raise(ExcV('PyAsn1Error'))
    items = self.fields['_componentValues'].items
    if not -len(items) <= concrete(idx) < len(items):
        raise _Raise(ExcV('IndexError'))            # python list semantics of the slots
    items[concrete(idx)] = value
    return self


def inv_single(cur_expr):
    cl = []
    for j in range(NALT):
        cl.append('(%s == %d) == (self._componentValues[%d] is not noValue)' % (cur_expr, j, j))
    return cl


CHOICE_SET = Contract(
    id='type.univ::Choice.setComponentByPosition', file=U, qual='Choice.setComponentByPosition', properties=['C19', 'C04'],
    params=dict(cur=POneOf(None, 0, 1, 2),
                self=PDerived(lambda ex, env: Obj('Choice', {'_currentIdx': env['cur'], '_componentValues': slots(ex, env),
                                                             '_componentTypeLen': NALT}, name='self')),
                idx=POneOf(0, 1, 2, -1, -2, -3, -4), value=PConst(Obj('Asn1Value', {'value': Int('new')}, name='newValue')),
                verifyConstraints=PConst(True), matchTags=PConst(True), matchConstraints=PConst(True)),
    globals={'Set': {'setComponentByPosition': FnV(set_set_component, 'Set.setComponentByPosition'), '__name__': 'Set'}},
    # a negative position counts from the last alternative (python list semantics of the slots); the selection is kept in
    # its non-negative form, so that the same alternative addressed both ways is one slot
    ensures=[('selected', 'self._currentIdx == (old(idx) if old(idx) >= 0 else old(idx) + 3) and self._currentIdx >= 0 and '
                          'self._componentValues[self._currentIdx] is value')] +
            [('single-alternative.%d' % j, c) for j, c in enumerate(inv_single('self._currentIdx'))] +
            [('returns-self', 'result is self')],
    raise_ensures={'PyAsn1Error': ['self._currentIdx == cur'] + inv_single('cur')},
    may_raise={'PyAsn1Error': True},
    note='CHOICE holds at most one alternative: selecting another one clears the previous slot; a refused assignment '
         'changes nothing')

CHOICE_CLEAR = [Contract(
    id='type.univ::Choice.%s' % m, file=U, qual='Choice.%s' % m, properties=['C19'],
    params=dict(cur=POneOf(None, 0, 1, 2),
                self=PDerived(lambda ex, env: Obj('Choice', {'_currentIdx': env['cur'], '_componentValues': slots(ex, env)},
                                                  name='self'))),
    globals={'Set': {m: FnV(lambda ex, self: self, 'Set.' + m), '__name__': 'Set'}},
    ensures=[('forgets-selection', 'self._currentIdx is None')]) for m in ('clear', 'reset')]


# ---- native encoder: keys of the result = names of the present members ------------------------------------------
def record_value(ex, env):
    # a member as set by the caller, and the placeholder that iteration (items()) puts into an unset slot -- which may
    # itself count as a value (record type without mandatory members)
    comps = [Obj('Component', {'isValue': Bool('isValue.%d' % i)}, name='c%d' % i) for i in range(3)]
    phs = [Obj('Placeholder', {'isValue': Bool('placeholderIsValue.%d' % i)}, name='c%d' % i) for i in range(3)]
    nts = [Obj('NamedType', {'isOptional': Bool('isOptional.%d' % i), 'name': 'k%d' % i}, name='nt%d' % i) for i in range(3)]
    is_set = [Bool('isSet.%d' % i) for i in range(3)]

    def slot(ex2, i):
        return comps[i] if ex2.choose(is_set[i], 'set%d' % i) else phs[i]

    def items(ex2, self):
        return Tup([Tup(['k%d' % i, slot(ex2, i)]) for i in range(3)], 'list')

    def getitem(ex2, self, i):
        return slot(ex2, concrete(i))

    def get(ex2, self, idx, default=NOVALUE, instantiate=True):
        i = concrete(idx)
        if ex2.choose(is_set[i], 'set%d' % i):
            return comps[i]
        return default if instantiate is False else phs[i]
    named = Obj('NamedTypes', {'__truthy__': True, 'namedTypes': Tup(list(nts))},
                {'__getitem__': lambda ex2, self, i: nts[concrete(i)]}, name='namedTypes')
    return Obj('Sequence', {'isInconsistent': False, 'componentType': named},
               {'items': items, '__getitem__': getitem, 'getComponentByPosition': get}, name='value')


def _new_set(ex, *a):
    def add(ex2, self, x):
        self.fields['members'].items.append(x)

    def contains(ex2, self, x):
        return x in self.fields['members'].items
    return Obj('set', {'members': Tup([], 'list')}, {'add': add, '__contains__': contains}, name='set()')


def encode_fun(ex, v, **options):
    return Obj('PyValue', {'of': v}, name='py')


NATIVE_SET = Contract(
    id='native.encoder::SetEncoder.encode', file=N, qual='SetEncoder.encode', properties=['C17'],
    params=dict(self=PObj('SetEncoder', protoDict=PConst(FnV(lambda ex: DictV(), 'dict'))),
                value=PDerived(record_value), encodeFun=PConst(FnV(encode_fun, 'encodeFun')), options=POptions()),
    globals={'isOptional': {i: Bool('isOptional.%d' % i) for i in range(3)}, 'set': FnV(_new_set, 'set')},
    loops={0: Loop(unroll=True), 1: Loop(unroll=True)},
    ensures=[('keys-are-present-members.%d' % i,
              '("k%d" in result) == (not (isOpt%d and (not isSet%d or not isVal%d)))' % (i, i, i, i)) for i in range(3)] +
            [('values-converted.%d' % i, '("k%d" in result) ==> result["k%d"].of is value[%d]' % (i, i, i)) for i in range(3)],
    note='python mapping holds exactly the members that are present: an OPTIONAL member that is not set is left out, '
         'whatever placeholder iteration leaves in its slot')
NATIVE_SET.globals.update({('isSet%d' % i): Bool('isSet.%d' % i) for i in range(3)})
NATIVE_SET.globals.update({('isOpt%d' % i): Bool('isOptional.%d' % i) for i in range(3)})
NATIVE_SET.globals.update({('isVal%d' % i): Bool('isValue.%d' % i) for i in range(3)})


# ---- ANY: an untagged ANY captures the complete element, header included -----------------------------------------
def any_params(mode):
    p = payload_params('AnyPayloadDecoder', mode)
    p['asn1Spec'] = PConst(None)
    p['mark'] = PInt()
    p['substrate'] = PDerived(lambda ex, env: _marked_stream(ex, env, mode))
    # order matters: mark before substrate
    return dict(self=p['self'], mark=p['mark'], substrate=p['substrate'], asn1Spec=p['asn1Spec'], tagSet=p['tagSet'],
                length=p['length'], state=p['state'], decodeFun=p['decodeFun'], substrateFun=p['substrateFun'],
                options=p['options'])


def _marked_stream(ex, env, mode):
    s = PStream(mode).make(ex, 'substrate')
    ex.assume(And(env['mark'] >= 0, env['mark'] <= s.fields['pos']))
    s.fields['markedPosition'] = env['mark']
    return s


ANY_CAPTURE = [Contract(
    id='ber.decoder::AnyPayloadDecoder.valueDecoder[untagged,%s]' % mode, file=D, qual='AnyPayloadDecoder.valueDecoder',
    properties=['C18', 'C11'], is_generator=True, params=any_params(mode),
    requires=['length >= 0'], calls={'readFromStream': _read_model(mode)},
    yield_ensures=[
        # C18: with resolution off the field holds exactly the complete encoding: from the element start (the mark set
        # by the single item decoder) to the end of its contents
        ('captures-whole-element', 'last_yield().value == X.sub(substrate.data, mark, old(substrate.pos) + old(length))'),
        ('consumed', 'substrate.pos == old(substrate.pos) + old(length)')],
    exit_ensures=[('one-result', 'nyields() == 1')],
    may_raise={'EndOfStreamError': True},
    external=['captures-whole-element', 'consumed', 'one-result']) for mode in ('complete',)]

CONTRACTS = [CHOICE_SET] + CHOICE_CLEAR + [NATIVE_SET] + ANY_CAPTURE


# ---- Choice.__eq__: same alternative, equal values (C19 comparison; C03/C04: the encoders' DEFAULT test) ------------------
def _choice_val(prefix):
    def mk(ex, env):
        name = 'alt.%s' % prefix
        idx = Int(prefix + '.idx')
        comp = Obj('Component', {}, {'__eq__': lambda ex2, self, other: _comp_eq(ex2, self, other),
                                     '__ne__': lambda ex2, self, other: Not(_comp_eq(ex2, self, other))},
                   name=prefix + '.component')
        has = Bool(prefix + '.hasValue')
        vals = Obj('list', {'__truthy__': has}, {'__getitem__': lambda ex2, self, i: comp}, name=prefix + '._componentValues')
        return Obj('Choice', {'_componentValues': vals, '_currentIdx': idx, 'chosen': comp},
                   {'getName': lambda ex2, self: idx, 'getComponent': lambda ex2, self: comp}, ('Choice',), name=prefix)
    return mk


def _comp_eq(ex, a, b):
    # equality of the chosen components: an arbitrary relation of the two (opaque) values; comparing a component with a
    # whole CHOICE object is what the method must not do
    if isinstance(b, Obj) and b.cls == 'Choice':
        raise _Raise(ExcV('PyAsn1Error'))
    return Bool('components.equal')


CHOICE_EQ = Contract(
    id='type.univ::Choice.__eq__[choice-vs-choice]', file=U, qual='Choice.__eq__', properties=['C19', 'C04', 'C03'],
    params=dict(self=PDerived(_choice_val('a')), other=PDerived(_choice_val('b'))),
    globals={'Choice': ClassV('Choice'), 'eqc': Bool('components.equal'), 'ha': Bool('a.hasValue'), 'hb': Bool('b.hasValue'),
             'ia': Int('a.idx'), 'ib': Int('b.idx')},
    requires=['ha'],
    ensures=[('same-alternative-and-equal-values', 'result == (hb and ia == ib and eqc)')],
    note='(alternative names are modelled by their indices: getName() is injective on the alternatives of one type)')
CONTRACTS = CONTRACTS + [CHOICE_EQ]


# ---- ... a tagged ANY (the tags on the wire are the field's own) holds the contents octets only ---------------------------------
def _tagged_any_params(kind):
    p = any_params('complete')

    def spec(ex, env):
        if kind == 'type':
            sts = Obj('TagSet', {}, {'__eq__': lambda ex2, self, o: Bool('tags.equal'), '__ne__': lambda ex2, self, o: Not(Bool('tags.equal'))},
                      name='asn1Spec.tagSet')
            return Obj('Any', {'tagSet': sts, '__class__': Obj('type', {}, name='Any-class')}, name='asn1Spec')
        tm = Obj('TagMap', {}, {'__contains__': lambda ex2, self, k: Bool('tags.equal')}, name='asn1Spec.tagMap')
        return Obj('TagMap', {'tagMap': tm, '__class__': TAGMAP_CLS}, name='asn1Spec')
    p['asn1Spec'] = PDerived(spec)
    p['tagSet'] = PConst(Obj('TagSet', {}, {'__eq__': lambda ex2, self, o: Bool('tags.equal'),
                                            '__ne__': lambda ex2, self, o: Not(Bool('tags.equal'))}, name='tagSet'))
    return p


TAGMAP_CLS = Obj('type', {}, name='TagMap-class')
ANY_TAGGED = [Contract(
    id='ber.decoder::AnyPayloadDecoder.valueDecoder[guided-by-%s,complete]' % kind, file=D, qual='AnyPayloadDecoder.valueDecoder',
    properties=['C18', 'C13'], is_generator=True, params=_tagged_any_params(kind),
    globals={'tagmap': {'TagMap': TAGMAP_CLS, '__name__': 'tagmap'}, 'tagsEqual': Bool('tags.equal'),
             'os': {'SEEK_SET': 0, '__name__': 'os'}},
    requires=['length >= 0'], calls={'readFromStream': _read_model('complete')},
    yield_ensures=[
        # the field's own tags were on the wire: the value is what is inside them
        ('tagged-any-holds-the-contents', 'tagsEqual ==> last_yield().value == X.sub(substrate.data, old(substrate.pos), '
                                          'old(substrate.pos) + old(length))'),
        # other tags: the whole element, header included, is the value (an untagged ANY)
        ('untagged-any-holds-the-whole-element', '(not tagsEqual) ==> last_yield().value == X.sub(substrate.data, mark, '
                                                 'old(substrate.pos) + old(length))'),
        ('consumed', 'substrate.pos == old(substrate.pos) + old(length)')],
    exit_ensures=[('one-result', 'nyields() == 1')],
    may_raise={'EndOfStreamError': True},
    external=['tagged-any-holds-the-contents', 'untagged-any-holds-the-whole-element', 'consumed', 'one-result'])
    for kind in ('type', 'tagmap')]
CONTRACTS = CONTRACTS + ANY_TAGGED


# ---- bounded instances (fixed number of alternatives / members), labelled so --------------------------------------------------
for _c in [CHOICE_SET] + CHOICE_CLEAR:
    _c.bounded = 'CHOICE types of exactly %d alternatives, every selection state and position' % NALT
NATIVE_SET.bounded = 'records of exactly 3 members, every OPTIONAL / set / is-value pattern'


# ---- native SetEncoder / SequenceEncoder.encode for records of ANY size (C17) ----------------------------------------------------
from pyvc.core import RecSeqV as _RecSeqV, PRecSeq as _PRecSeq, PIntTuple as _PIntTuple, I as _I, S as _S
from contracts.univ_containers import sym_dict, idof, element as _element
_j = z3.Int('j!q')
N_ISSET = z3.Function('member.isSet', _I, z3.BoolSort())
N_ISVAL = z3.Function('isValueOf', _I, z3.BoolSort())          # the same symbol the container models use
N_PYVAL = z3.Function('python.value.of', _I, _I)


class _Members(_RecSeqV):
    """value.items(): (name, component) pairs in declaration order; an unset member shows as a placeholder"""

    def elem(self, i):
        name, ident, ph = self.cols[0][i], self.cols[1][i], self.cols[2][i]
        return Tup([name, _element(z3.If(N_ISSET(i), ident, ph))])


def _n_record(ex, env):
    decl = env['declaration']          # columns: isOptional (0/1), name
    comps = env['componentIds'].z
    phs = env['placeholderIds'].z
    n = decl.length
    ex.assume(And(z3.Length(comps) == n, z3.Length(phs) == n))
    # names are distinct (NamedTypes refuses duplicates), optional flags are booleans
    i2 = z3.Int('i!q')
    ex.assume(z3.ForAll([_j, i2], z3.Implies(And(_j >= 0, i2 > _j, i2 < n), decl.cols[1][_j] != decl.cols[1][i2])))
    ex.assume(z3.ForAll([_j], z3.Implies(And(_j >= 0, _j < n), Or(decl.cols[0][_j] == 0, decl.cols[0][_j] == 1))))

    def get(ex2, self, idx, default=NOVALUE, instantiate=True):
        if instantiate is not False:
            raise Unsupported('instantiating read')
        i = toint(idx)
        if ex2.choose(N_ISSET(i), 'member-set'):
            return _element(comps[i])
        return default
    named = Obj('NamedTypes', {'__truthy__': True, 'namedTypes': decl}, name='namedTypes')
    return Obj('Sequence', {'isInconsistent': False, 'componentType': named},
               {'items': lambda ex2, self: _Members([decl.cols[1], comps, phs], names=('name', '__id__', 'ph')),
                'getComponentByPosition': get}, name='value')


def _n_set(ex, *a):
    def add(ex2, self, item):
        self.fields['arr'] = z3.Store(self.fields['arr'], toint(item), True)
    return Obj('set', {'arr': z3.K(_I, False)}, {'add': add, '__contains__': lambda ex2, self, k: z3.Select(self.fields['arr'], toint(k))},
               name='absent')


def _n_encode(ex, v, **options):
    return Obj('PyValue', {'__id__': N_PYVAL(idof(v))}, name='py')


def _left_out(decl, comps, i):
    return And(decl.cols[0][i] == 1, Or(Not(N_ISSET(i)), Not(N_ISVAL(comps[i]))))


def _absent_upto(ex, absent, decl, comps, upto):
    arr = absent.fields['arr']
    cz = comps.z
    return And(z3.ForAll([_j], z3.Implies(And(_j >= 0, _j < toint(upto)), z3.Select(arr, decl.cols[1][_j]) == _left_out(decl, cz, _j))),
               z3.ForAll([_j], z3.Implies(z3.Select(arr, _j), z3.Exists([z3.Int('w!q')], And(z3.Int('w!q') >= 0, z3.Int('w!q') < toint(upto),
                                                                                            decl.cols[1][z3.Int('w!q')] == _j)))))


def _mapped_upto(ex, d, decl, comps, upto):
    p, ids = d.fields['present'], d.fields['ids']
    cz = comps.z
    w = z3.Int('w!q')
    return And(z3.ForAll([_j], z3.Implies(And(_j >= 0, _j < toint(upto)),
                                           And(z3.Select(p, decl.cols[1][_j]) == Not(_left_out(decl, cz, _j)),
                                               z3.Implies(And(Not(_left_out(decl, cz, _j)), N_ISSET(_j)),
                                                          z3.Select(ids, decl.cols[1][_j]) == N_PYVAL(cz[_j]))))),
               z3.ForAll([_j], z3.Implies(z3.Select(p, _j), z3.Exists([w], And(w >= 0, w < toint(upto), decl.cols[1][w] == _j)))))


NATIVE_SET_N = Contract(
    id='native.encoder::SetEncoder.encode[any-size]', file=N, qual='SetEncoder.encode', properties=['C17'],
    params=dict(declaration=_PRecSeq(2, names=('isOptional', 'name')), componentIds=_PIntTuple(), placeholderIds=_PIntTuple(),
                self=PObj('SetEncoder', protoDict=PConst(FnV(lambda ex: sym_dict(z3.K(_I, False), z3.K(_I, z3.IntVal(0)), z3.IntVal(0), name='{}'),
                                                             'dict'))),
                value=PDerived(_n_record), encodeFun=PConst(FnV(_n_encode, 'encodeFun')), options=POptions()),
    globals={'set': FnV(_n_set, 'set'), 'absent_upto': FnV(_absent_upto, 'absent_upto'), 'mapped_upto': FnV(_mapped_upto, 'mapped_upto')},
    loops={0: Loop(index='k', invariant=['absent_upto(absent, declaration, componentIds, k)'], havoc_fields=['absent.arr']),
           1: Loop(index='m', invariant=['mapped_upto(substrate, declaration, componentIds, m)',
                                         'absent_upto(absent, declaration, componentIds, len(declaration))'],
                   havoc_fields=['substrate.present', 'substrate.ids', 'substrate.count'])},
    ensures=[
        # the python mapping holds exactly the members that are present: an OPTIONAL member that is unset (or holds a
        # valueless placeholder) is left out; every other member maps to the conversion of its component
        ('keys-are-the-present-members', 'mapped_upto(result, declaration, componentIds, len(declaration))')],
    note='records of any size; names are distinct (NamedTypes), components known by identity, encodeFun is the recursive '
         'conversion (assumed)')
CONTRACTS = CONTRACTS + [NATIVE_SET_N]
