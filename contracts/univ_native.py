"""Contracts on pyasn1/type/univ.py (Choice bookkeeping), pyasn1/codec/native/encoder.py and the ANY capture of
pyasn1/codec/ber/decoder.py."""
import z3
from z3 import Bool, Int, And, Or, Not

from pyvc.core import (Contract, Loop, PInt, PBool, PConst, PObj, POneOf, PDerived, POptions, Obj, Tup, FnV, ExcV, _Raise, ClassV,
                       DictV, NOVALUE, BoolSort, SeqV, toint, concrete, Unsupported)
from pyvc.models import PStream
from contracts.streaming import _read_model
from contracts.ber_decoder import payload_params, create_component

U = 'pyasn1/type/univ.py'
N = 'pyasn1/codec/native/encoder.py'
D = 'pyasn1/codec/ber/decoder.py'

# ---- Choice: at most one alternative at any time ---------------------------------------------------------------
NALT = 3


def slots(ex, env):
    cur = env['cur']
    return Tup([Obj('Asn1Value', {'value': Int('old.%d' % j)}, name='alt%d' % j) if cur == j else NOVALUE
                for j in range(NALT)], 'list')


def set_set_component(ex, self, idx, value=NOVALUE, *a, **k):
    """model of Set.setComponentByPosition: stores the (type-checked) value at idx or refuses with PyAsn1Error"""
    if ex.choose(ex.fresh('Set.setComponentByPosition.raises', BoolSort()), 'set-raises'):
        raise _Raise(ExcV('PyAsn1Error'))
    items = self.fields['_componentValues'].items
    if not -len(items) <= concrete(idx) < len(items):
        raise _Raise(ExcV('IndexError'))            # python list semantics of the slots
    items[concrete(idx)] = value
    return self


def inv_single(cur_expr):
    cl = []
    for j in range(NALT):
        cl.append('(%s == %d) == (self._componentValues[%d] is not noValue)' % (cur_expr, j, j))
    return cl


CHOICE_SET = Contract(
    id='type.univ::Choice.setComponentByPosition', file=U, qual='Choice.setComponentByPosition', properties=['C19', 'C04'],
    params=dict(cur=POneOf(None, 0, 1, 2),
                self=PDerived(lambda ex, env: Obj('Choice', {'_currentIdx': env['cur'], '_componentValues': slots(ex, env),
                                                             '_componentTypeLen': NALT}, name='self')),
                idx=POneOf(0, 1, 2, -1, -2, -3, -4), value=PConst(Obj('Asn1Value', {'value': Int('new')}, name='newValue')),
                verifyConstraints=PConst(True), matchTags=PConst(True), matchConstraints=PConst(True)),
    globals={'Set': {'setComponentByPosition': FnV(set_set_component, 'Set.setComponentByPosition'), '__name__': 'Set'}},
    # a negative position counts from the last alternative (python list semantics of the slots); the selection is kept in
    # its non-negative form, so that the same alternative addressed both ways is one slot
    ensures=[('selected', 'self._currentIdx == (old(idx) if old(idx) >= 0 else old(idx) + 3) and self._currentIdx >= 0 and '
                          'self._componentValues[self._currentIdx] is value')] +
            [('single-alternative.%d' % j, c) for j, c in enumerate(inv_single('self._currentIdx'))] +
            [('returns-self', 'result is self')],
    raise_ensures={'PyAsn1Error': ['self._currentIdx == cur'] + inv_single('cur')},
    may_raise={'PyAsn1Error': True},
    note='CHOICE holds at most one alternative: selecting another one clears the previous slot; a refused assignment '
         'changes nothing')

CHOICE_CLEAR = [Contract(
    id='type.univ::Choice.%s' % m, file=U, qual='Choice.%s' % m, properties=['C19'],
    params=dict(cur=POneOf(None, 0, 1, 2),
                self=PDerived(lambda ex, env: Obj('Choice', {'_currentIdx': env['cur'], '_componentValues': slots(ex, env)},
                                                  name='self'))),
    globals={'Set': {m: FnV(lambda ex, self: self, 'Set.' + m), '__name__': 'Set'}},
    ensures=[('forgets-selection', 'self._currentIdx is None')]) for m in ('clear', 'reset')]


# ---- native encoder: keys of the result = names of the present members ------------------------------------------
def record_value(ex, env):
    # a member as set by the caller, and the placeholder that iteration (items()) puts into an unset slot -- which may
    # itself count as a value (record type without mandatory members)
    comps = [Obj('Component', {'isValue': Bool('isValue.%d' % i)}, name='c%d' % i) for i in range(3)]
    phs = [Obj('Placeholder', {'isValue': Bool('placeholderIsValue.%d' % i)}, name='c%d' % i) for i in range(3)]
    nts = [Obj('NamedType', {'isOptional': Bool('isOptional.%d' % i), 'name': 'k%d' % i}, name='nt%d' % i) for i in range(3)]
    is_set = [Bool('isSet.%d' % i) for i in range(3)]

    def slot(ex2, i):
        return comps[i] if ex2.choose(is_set[i], 'set%d' % i) else phs[i]

    def items(ex2, self):
        return Tup([Tup(['k%d' % i, slot(ex2, i)]) for i in range(3)], 'list')

    def getitem(ex2, self, i):
        return slot(ex2, concrete(i))

    def get(ex2, self, idx, default=NOVALUE, instantiate=True):
        i = concrete(idx)
        if ex2.choose(is_set[i], 'set%d' % i):
            return comps[i]
        return default if instantiate is False else phs[i]
    named = Obj('NamedTypes', {'__truthy__': True, 'namedTypes': Tup(list(nts))},
                {'__getitem__': lambda ex2, self, i: nts[concrete(i)]}, name='namedTypes')
    return Obj('Sequence', {'isInconsistent': False, 'componentType': named},
               {'items': items, '__getitem__': getitem, 'getComponentByPosition': get}, name='value')


def _new_set(ex, *a):
    def add(ex2, self, x):
        self.fields['members'].items.append(x)

    def contains(ex2, self, x):
        return x in self.fields['members'].items
    return Obj('set', {'members': Tup([], 'list')}, {'add': add, '__contains__': contains}, name='set()')


def encode_fun(ex, v, **options):
    return Obj('PyValue', {'of': v}, name='py')


NATIVE_SET = Contract(
    id='native.encoder::SetEncoder.encode', file=N, qual='SetEncoder.encode', properties=['C17'],
    params=dict(self=PObj('SetEncoder', protoDict=PConst(FnV(lambda ex: DictV(), 'dict'))),
                value=PDerived(record_value), encodeFun=PConst(FnV(encode_fun, 'encodeFun')), options=POptions()),
    globals={'isOptional': {i: Bool('isOptional.%d' % i) for i in range(3)}, 'set': FnV(_new_set, 'set')},
    loops={0: Loop(unroll=True), 1: Loop(unroll=True)},
    ensures=[('keys-are-present-members.%d' % i,
              '("k%d" in result) == (not (isOpt%d and (not isSet%d or not isVal%d)))' % (i, i, i, i)) for i in range(3)] +
            [('values-converted.%d' % i, '("k%d" in result) ==> result["k%d"].of is value[%d]' % (i, i, i)) for i in range(3)],
    note='python mapping holds exactly the members that are present: an OPTIONAL member that is not set is left out, '
         'whatever placeholder iteration leaves in its slot')
NATIVE_SET.globals.update({('isSet%d' % i): Bool('isSet.%d' % i) for i in range(3)})
NATIVE_SET.globals.update({('isOpt%d' % i): Bool('isOptional.%d' % i) for i in range(3)})
NATIVE_SET.globals.update({('isVal%d' % i): Bool('isValue.%d' % i) for i in range(3)})


# ---- ANY: an untagged ANY captures the complete element, header included -----------------------------------------
def any_params(mode):
    p = payload_params('AnyPayloadDecoder', mode)
    p['asn1Spec'] = PConst(None)
    p['mark'] = PInt()
    p['substrate'] = PDerived(lambda ex, env: _marked_stream(ex, env, mode))
    # order matters: mark before substrate
    return dict(self=p['self'], mark=p['mark'], substrate=p['substrate'], asn1Spec=p['asn1Spec'], tagSet=p['tagSet'],
                length=p['length'], state=p['state'], decodeFun=p['decodeFun'], substrateFun=p['substrateFun'],
                options=p['options'])


def _marked_stream(ex, env, mode):
    s = PStream(mode).make(ex, 'substrate')
    ex.assume(And(env['mark'] >= 0, env['mark'] <= s.fields['pos']))
    s.fields['markedPosition'] = env['mark']
    return s


ANY_CAPTURE = [Contract(
    id='ber.decoder::AnyPayloadDecoder.valueDecoder[untagged,%s]' % mode, file=D, qual='AnyPayloadDecoder.valueDecoder',
    properties=['C18', 'C11'], is_generator=True, params=any_params(mode),
    requires=['length >= 0'], calls={'readFromStream': _read_model(mode)},
    yield_ensures=[
        # C18: with resolution off the field holds exactly the complete encoding: from the element start (the mark set
        # by the single item decoder) to the end of its contents
        ('captures-whole-element', 'last_yield().value == X.sub(substrate.data, mark, old(substrate.pos) + old(length))'),
        ('consumed', 'substrate.pos == old(substrate.pos) + old(length)')],
    exit_ensures=[('one-result', 'nyields() == 1')],
    may_raise={'EndOfStreamError': True},
    external=['captures-whole-element', 'consumed', 'one-result']) for mode in ('complete',)]

CONTRACTS = [CHOICE_SET] + CHOICE_CLEAR + [NATIVE_SET] + ANY_CAPTURE


# ---- Choice.__eq__: same alternative, equal values (C19 comparison; C03/C04: the encoders' DEFAULT test) ------------------
def _choice_val(prefix):
    def mk(ex, env):
        name = 'alt.%s' % prefix
        idx = Int(prefix + '.idx')
        comp = Obj('Component', {}, {'__eq__': lambda ex2, self, other: _comp_eq(ex2, self, other),
                                     '__ne__': lambda ex2, self, other: Not(_comp_eq(ex2, self, other))},
                   name=prefix + '.component')
        has = Bool(prefix + '.hasValue')
        vals = Obj('list', {'__truthy__': has}, {'__getitem__': lambda ex2, self, i: comp}, name=prefix + '._componentValues')
        return Obj('Choice', {'_componentValues': vals, '_currentIdx': idx, 'chosen': comp},
                   {'getName': lambda ex2, self: idx, 'getComponent': lambda ex2, self: comp}, ('Choice',), name=prefix)
    return mk


def _comp_eq(ex, a, b):
    # equality of the chosen components: an arbitrary relation of the two (opaque) values; comparing a component with a
    # whole CHOICE object is what the method must not do
    if isinstance(b, Obj) and b.cls == 'Choice':
        raise _Raise(ExcV('PyAsn1Error'))
    return Bool('components.equal')


CHOICE_EQ = Contract(
    id='type.univ::Choice.__eq__[choice-vs-choice]', file=U, qual='Choice.__eq__', properties=['C19', 'C04', 'C03'],
    params=dict(self=PDerived(_choice_val('a')), other=PDerived(_choice_val('b'))),
    globals={'Choice': ClassV('Choice'), 'eqc': Bool('components.equal'), 'ha': Bool('a.hasValue'), 'hb': Bool('b.hasValue'),
             'ia': Int('a.idx'), 'ib': Int('b.idx')},
    requires=['ha'],
    ensures=[('same-alternative-and-equal-values', 'result == (hb and ia == ib and eqc)')],
    note='(alternative names are modelled by their indices: getName() is injective on the alternatives of one type)')
CONTRACTS = CONTRACTS + [CHOICE_EQ]


# ---- ... a tagged ANY (the tags on the wire are the field's own) holds the contents octets only ---------------------------------
def _tagged_any_params(kind):
    p = any_params('complete')

    def spec(ex, env):
        if kind == 'type':
            sts = Obj('TagSet', {}, {'__eq__': lambda ex2, self, o: Bool('tags.equal'), '__ne__': lambda ex2, self, o: Not(Bool('tags.equal'))},
                      name='asn1Spec.tagSet')
            return Obj('Any', {'tagSet': sts, '__class__': Obj('type', {}, name='Any-class')}, name='asn1Spec')
        tm = Obj('TagMap', {}, {'__contains__': lambda ex2, self, k: Bool('tags.equal')}, name='asn1Spec.tagMap')
        return Obj('TagMap', {'tagMap': tm, '__class__': TAGMAP_CLS}, name='asn1Spec')
    p['asn1Spec'] = PDerived(spec)
    p['tagSet'] = PConst(Obj('TagSet', {}, {'__eq__': lambda ex2, self, o: Bool('tags.equal'),
                                            '__ne__': lambda ex2, self, o: Not(Bool('tags.equal'))}, name='tagSet'))
    return p


TAGMAP_CLS = Obj('type', {}, name='TagMap-class')
ANY_TAGGED = [Contract(
    id='ber.decoder::AnyPayloadDecoder.valueDecoder[guided-by-%s,complete]' % kind, file=D, qual='AnyPayloadDecoder.valueDecoder',
    properties=['C18', 'C13'], is_generator=True, params=_tagged_any_params(kind),
    globals={'tagmap': {'TagMap': TAGMAP_CLS, '__name__': 'tagmap'}, 'tagsEqual': Bool('tags.equal'),
             'os': {'SEEK_SET': 0, '__name__': 'os'}},
    requires=['length >= 0'], calls={'readFromStream': _read_model('complete')},
    yield_ensures=[
        # the field's own tags were on the wire: the value is what is inside them
        ('tagged-any-holds-the-contents', 'tagsEqual ==> last_yield().value == X.sub(substrate.data, old(substrate.pos), '
                                          'old(substrate.pos) + old(length))'),
        # other tags: the whole element, header included, is the value (an untagged ANY)
        ('untagged-any-holds-the-whole-element', '(not tagsEqual) ==> last_yield().value == X.sub(substrate.data, mark, '
                                                 'old(substrate.pos) + old(length))'),
        ('consumed', 'substrate.pos == old(substrate.pos) + old(length)')],
    exit_ensures=[('one-result', 'nyields() == 1')],
    may_raise={'EndOfStreamError': True},
    external=['tagged-any-holds-the-contents', 'untagged-any-holds-the-whole-element', 'consumed', 'one-result'])
    for kind in ('type', 'tagmap')]
CONTRACTS = CONTRACTS + ANY_TAGGED


# ---- bounded instances (fixed number of alternatives / members), labelled so --------------------------------------------------
for _c in [CHOICE_SET] + CHOICE_CLEAR:
    _c.bounded = 'CHOICE types of exactly %d alternatives, every selection state and position' % NALT
NATIVE_SET.bounded = 'records of exactly 3 members, every OPTIONAL / set / is-value pattern'


# ---- native SetEncoder / SequenceEncoder.encode for records of ANY size (C17) ----------------------------------------------------
from pyvc.core import RecSeqV as _RecSeqV, PRecSeq as _PRecSeq, PIntTuple as _PIntTuple, I as _I, S as _S
from contracts.univ_containers import sym_dict, idof, element as _element
_j = z3.Int('j!q')
N_ISSET = z3.Function('member.isSet', _I, z3.BoolSort())
N_ISVAL = z3.Function('isValueOf', _I, z3.BoolSort())          # the same symbol the container models use
N_PYVAL = z3.Function('python.value.of', _I, _I)


class _Members(_RecSeqV):
    """value.items(): (name, component) pairs in declaration order; an unset member shows as a placeholder"""

    def elem(self, i):
        name, ident, ph = self.cols[0][i], self.cols[1][i], self.cols[2][i]
        return Tup([name, _element(z3.If(N_ISSET(i), ident, ph))])


def _n_record(ex, env):
    decl = env['declaration']          # columns: isOptional (0/1), name
    comps = env['componentIds'].z
    phs = env['placeholderIds'].z
    n = decl.length
    ex.assume(And(z3.Length(comps) == n, z3.Length(phs) == n))
    # names are distinct (NamedTypes refuses duplicates), optional flags are booleans
    i2 = z3.Int('i!q')
    ex.assume(z3.ForAll([_j, i2], z3.Implies(And(_j >= 0, i2 > _j, i2 < n), decl.cols[1][_j] != decl.cols[1][i2])))
    ex.assume(z3.ForAll([_j], z3.Implies(And(_j >= 0, _j < n), Or(decl.cols[0][_j] == 0, decl.cols[0][_j] == 1))))

    def get(ex2, self, idx, default=NOVALUE, instantiate=True):
        if instantiate is not False:
            raise Unsupported('instantiating read')
        i = toint(idx)
        if ex2.choose(N_ISSET(i), 'member-set'):
            return _element(comps[i])
        return default
    named = Obj('NamedTypes', {'__truthy__': True, 'namedTypes': decl}, name='namedTypes')
    return Obj('Sequence', {'isInconsistent': False, 'componentType': named},
               {'items': lambda ex2, self: _Members([decl.cols[1], comps, phs], names=('name', '__id__', 'ph')),
                'getComponentByPosition': get}, name='value')


def _n_set(ex, *a):
    def add(ex2, self, item):
        self.fields['arr'] = z3.Store(self.fields['arr'], toint(item), True)
    return Obj('set', {'arr': z3.K(_I, False)}, {'add': add, '__contains__': lambda ex2, self, k: z3.Select(self.fields['arr'], toint(k))},
               name='absent')


def _n_encode(ex, v, **options):
    return Obj('PyValue', {'__id__': N_PYVAL(idof(v))}, name='py')


def _left_out(decl, comps, i):
    return And(decl.cols[0][i] == 1, Or(Not(N_ISSET(i)), Not(N_ISVAL(comps[i]))))


def _absent_upto(ex, absent, decl, comps, upto):
    arr = absent.fields['arr']
    cz = comps.z
    return And(z3.ForAll([_j], z3.Implies(And(_j >= 0, _j < toint(upto)), z3.Select(arr, decl.cols[1][_j]) == _left_out(decl, cz, _j))),
               z3.ForAll([_j], z3.Implies(z3.Select(arr, _j), z3.Exists([z3.Int('w!q')], And(z3.Int('w!q') >= 0, z3.Int('w!q') < toint(upto),
                                                                                            decl.cols[1][z3.Int('w!q')] == _j)))))


def _mapped_upto(ex, d, decl, comps, upto):
    p, ids = d.fields['present'], d.fields['ids']
    cz = comps.z
    w = z3.Int('w!q')
    return And(z3.ForAll([_j], z3.Implies(And(_j >= 0, _j < toint(upto)),
                                           And(z3.Select(p, decl.cols[1][_j]) == Not(_left_out(decl, cz, _j)),
                                               z3.Implies(And(Not(_left_out(decl, cz, _j)), N_ISSET(_j)),
                                                          z3.Select(ids, decl.cols[1][_j]) == N_PYVAL(cz[_j]))))),
               z3.ForAll([_j], z3.Implies(z3.Select(p, _j), z3.Exists([w], And(w >= 0, w < toint(upto), decl.cols[1][w] == _j)))))


NATIVE_SET_N = Contract(
    id='native.encoder::SetEncoder.encode[any-size]', file=N, qual='SetEncoder.encode', properties=['C17'],
    params=dict(declaration=_PRecSeq(2, names=('isOptional', 'name')), componentIds=_PIntTuple(), placeholderIds=_PIntTuple(),
                self=PObj('SetEncoder', protoDict=PConst(FnV(lambda ex: sym_dict(z3.K(_I, False), z3.K(_I, z3.IntVal(0)), z3.IntVal(0), name='{}'),
                                                             'dict'))),
                value=PDerived(_n_record), encodeFun=PConst(FnV(_n_encode, 'encodeFun')), options=POptions()),
    globals={'set': FnV(_n_set, 'set'), 'absent_upto': FnV(_absent_upto, 'absent_upto'), 'mapped_upto': FnV(_mapped_upto, 'mapped_upto')},
    loops={0: Loop(index='k', invariant=['absent_upto(absent, declaration, componentIds, k)'], havoc_fields=['absent.arr']),
           1: Loop(index='m', invariant=['mapped_upto(substrate, declaration, componentIds, m)',
                                         'absent_upto(absent, declaration, componentIds, len(declaration))'],
                   havoc_fields=['substrate.present', 'substrate.ids', 'substrate.count'])},
    ensures=[
        # the python mapping holds exactly the members that are present: an OPTIONAL member that is unset (or holds a
        # valueless placeholder) is left out; every other member maps to the conversion of its component
        ('keys-are-the-present-members', 'mapped_upto(result, declaration, componentIds, len(declaration))')],
    note='records of any size; names are distinct (NamedTypes), components known by identity, encodeFun is the recursive '
         'conversion (assumed)')
CONTRACTS = CONTRACTS + [NATIVE_SET_N]


# ---- native decoders: python mapping / list + type -> value object -----------------------------------------------------------------
ND = 'pyasn1/codec/native/decoder.py'
D_HAS = z3.Function('mapping.has', _I, z3.BoolSort())          # is this name a key of the python mapping
D_PY = z3.Function('mapping.value', _I, _I)                   # the python value under a name
D_TYPE = z3.Function('declared.type.of', _I, _I)              # the component type declared under a name
D_DEC = z3.Function('decoded', _I, _I, _I)                    # decodeFun(python value, type)


class _Names(_RecSeqV):
    """iteration over a record value / a python mapping: the field names"""

    def elem(self, i):
        return self.cols[0][i]


def _d_spec(ex, env):
    names = env['names'].z

    def clone(ex2, self, *a, **kw):
        def setitem(ex3, me, name, value):
            me.fields['assigned'] = z3.Store(me.fields['assigned'], toint(name), True)
            me.fields['vals'] = z3.Store(me.fields['vals'], toint(name), idof(value))
        return Obj('Sequence', {'assigned': z3.K(_I, False), 'vals': z3.K(_I, z3.IntVal(0)), 'cleared': False, 'cloneOf': self},
                   {'__iter__': lambda ex3, me: _Names([names], names=('name',)), '__setitem__': setitem,
                    'clear': lambda ex3, me: me.fields.__setitem__('cleared', True)}, name='asn1Value')
    ct = Obj('NamedTypes', {}, {'__getitem__': lambda ex2, self, name: Obj('NamedType', {'asn1Object': Obj('Asn1Type', {'__id__': D_TYPE(toint(name))},
                                                                                                       name='memberType')}, name='namedType'),
                                '__contains__': lambda ex2, self, name: ex2.fresh('declared', z3.BoolSort())}, name='componentType')
    return Obj('Sequence', {'componentType': ct}, {'clone': clone}, name='asn1Spec')


def _d_mapping(ex, env):
    return Obj('dict', {}, {'__contains__': lambda ex2, self, k: D_HAS(toint(k)),
                            '__getitem__': lambda ex2, self, k: Obj('PyValue', {'__id__': D_PY(toint(k))}, name='pyValue')}, name='pyObject')


def _d_decode(ex, py, asn1Spec=None, **options):
    return Obj('Asn1Value', {'__id__': D_DEC(idof(py), idof(asn1Spec))}, name='decodedMember')


def _d_done(ex, v, names, upto):
    z = names.z if isinstance(names, SeqV) else names.cols[0]
    w = z3.Int('w!q')
    return And(z3.ForAll([_j], z3.Implies(And(_j >= 0, _j < toint(upto)),
                                           And(z3.Select(v.fields['assigned'], z[_j]) == D_HAS(z[_j]),
                                               z3.Implies(D_HAS(z[_j]), z3.Select(v.fields['vals'], z[_j]) == D_DEC(D_PY(z[_j]), D_TYPE(z[_j])))))),
               z3.ForAll([_j], z3.Implies(z3.Select(v.fields['assigned'], _j), z3.Exists([w], And(w >= 0, w < toint(upto), z[w] == _j)))))


NATIVE_DEC_RECORD = Contract(
    id='native.decoder::SequenceOrSetPayloadDecoder.__call__', file=ND, qual='SequenceOrSetPayloadDecoder.__call__', properties=['C17', 'C12'],
    params=dict(names=_PIntTuple(), self=PObj('SequenceOrSetPayloadDecoder'), pyObject=PDerived(_d_mapping), asn1Spec=PDerived(_d_spec),
                decodeFun=PConst(FnV(_d_decode, 'decodeFun')), options=POptions()),
    globals={'done': FnV(_d_done, 'done')},
    requires=['distinct_names'],
    loops={0: Loop(index='k', invariant=['done(asn1Value, loop_seq, k)', 'asn1Value.cleared'],
                   havoc_fields=['asn1Value.assigned', 'asn1Value.vals'])},
    ensures=[
        # exactly the members named in the python mapping are set, each to the conversion of its python value under the
        # type declared for *that* member; a member the mapping does not name stays unset; the result is a fresh value
        ('members-of-the-mapping-converted-under-their-own-types', 'done(result, names, len(names)) and result.cleared'),
        ('fresh-object-not-the-schema', 'result is not asn1Spec and result.cloneOf is asn1Spec')],
    note='names are the (distinct) field names of the record; decodeFun is the recursive conversion (assumed)')
_w1, _w2 = z3.Int('w1!q'), z3.Int('w2!q')
NATIVE_DEC_RECORD.globals['distinct_names'] = z3.ForAll([_w1, _w2], z3.Implies(
    And(_w1 >= 0, _w2 > _w1, _w2 < z3.Length(z3.Const('names', _S))), z3.Const('names', _S)[_w1] != z3.Const('names', _S)[_w2]))
CONTRACTS = CONTRACTS + [NATIVE_DEC_RECORD]


class _PyItems(_RecSeqV):
    def elem(self, i):
        return Obj('PyValue', {'__id__': self.cols[0][i]}, name='pyValue')


ELEMENT_TYPE = Obj('Asn1Type', {'__id__': z3.Int('element.type')}, name='componentType')


def _dc_spec(ex, env):
    def clone(ex2, self, *a, **kw):
        def append(ex3, me, value, *a2, **kw2):
            # SequenceOf.append(value) takes no options
            extra = kw2.get('**')
            if a2 or [k for k in kw2 if k != '**']:
                raise _Raise(ExcV('TypeError'))
            if extra is not None:
                for name_, (present, val_) in extra.entries.items():
                    if present is True or (present is not False and ex3.choose(present, 'option-%s-given' % name_)):
                        raise _Raise(ExcV('TypeError'))
            me.fields['items'] = SeqV(z3.Concat(me.fields['items'].z, z3.Unit(idof(value))), 'any')
        return Obj('SequenceOf', {'items': SeqV(z3.Empty(_S), 'any'), 'cleared': False, 'cloneOf': self},
                   {'append': append, 'clear': lambda ex3, me: me.fields.__setitem__('cleared', True)}, name='asn1Value')
    return Obj('SequenceOf', {'componentType': ELEMENT_TYPE}, {'clone': clone}, name='asn1Spec')


D_ALL = z3.RecFunction('converted_items', _S, _I, _S)
_dv, _du = z3.Const('_dv', _S), z3.Int('_du')
z3.RecAddDefinition(D_ALL, [_dv, _du], z3.If(_du <= 0, z3.Empty(_S), z3.Concat(D_ALL(_dv, _du - 1),
                                                                              z3.Unit(D_DEC(_dv[_du - 1], z3.Int('element.type'))))))
NATIVE_DEC_COLLECTION = Contract(
    id='native.decoder::SequenceOfOrSetOfPayloadDecoder.__call__', file=ND, qual='SequenceOfOrSetOfPayloadDecoder.__call__',
    properties=['C17', 'C12'],
    params=dict(items=_PIntTuple(), self=PObj('SequenceOfOrSetOfPayloadDecoder'),
                pyObject=PDerived(lambda ex, env: _PyItems([env['items'].z], names=('__id__',))), asn1Spec=PDerived(_dc_spec),
                decodeFun=PConst(FnV(_d_decode, 'decodeFun')), options=POptions(anOption=PBool())),
    globals={'converted': FnV(lambda ex, seq, upto: SeqV(D_ALL(seq.cols[0] if isinstance(seq, _RecSeqV) else seq.z, toint(upto)), 'any'), 'converted'),
             'unfold': FnV(lambda ex, seq, k: (lambda z, i: z3.Implies(i >= 0, D_ALL(z, i + 1) == z3.Concat(D_ALL(z, i), z3.Unit(D_DEC(z[i], z3.Int('element.type'))))))(
                 seq.cols[0] if isinstance(seq, _RecSeqV) else seq.z, toint(k)), 'unfold')},
    loops={0: Loop(index='k', invariant=['asn1Value.items == converted(loop_seq, k)', 'asn1Value.cleared'],
                   havoc_fields=['asn1Value.items'], hints=['unfold(loop_seq, k)'],
                   # the caller's options go to the element conversion (and nowhere else)
                   iter_ensures=['last_kwargs("decodeFun").get("anOption", "absent") == old(options).get("anOption", "absent")'])},
    calls={'decodeFun': _d_decode},
    ensures=[('every-item-converted-under-the-component-type-in-order', 'result.items == converted(items, len(items)) and result.cleared'),
             ('fresh-object-not-the-schema', 'result is not asn1Spec and result.cloneOf is asn1Spec')],
    note='python lists of any length')


# CHOICE: the first key of the mapping that names an alternative selects it
def _dch_spec(ex, env):
    def clone(ex2, self, *a, **kw):
        def setitem(ex3, me, name, value):
            me.fields['chosen'] = toint(name)
            me.fields['value'] = idof(value)
            me.fields['assignments'] = me.fields['assignments'] + 1
        return Obj('Choice', {'chosen': z3.IntVal(-1), 'value': z3.IntVal(0), 'assignments': z3.IntVal(0), 'cloneOf': self},
                   {'__setitem__': setitem}, name='asn1Value')
    ct = Obj('NamedTypes', {}, {'__getitem__': lambda ex2, self, name: Obj('NamedType', {'asn1Object': Obj('Asn1Type', {'__id__': D_TYPE(toint(name))},
                                                                                                       name='alternativeType')}, name='namedType'),
                                '__contains__': lambda ex2, self, name: D_HAS(toint(name))}, name='componentType')
    def subscript(ex2, self, name):
        # Choice.__getitem__ instantiates and *selects* the alternative in the object it is applied to: applied to the guiding
        # type it changes the schema (C12)
        self.fields['subscribed'] = True
        return Obj('Asn1Type', {'__id__': D_TYPE(toint(name))}, name='alternativeType')
    return Obj('Choice', {'componentType': ct, 'subscribed': False}, {'clone': clone, '__getitem__': subscript}, name='asn1Spec')


def _dch_mapping(ex, env):
    keys = env['keys'].z
    return Obj('dict', {}, {'__iter__': lambda ex2, self: _Names([keys], names=('name',)),
                            '__getitem__': lambda ex2, self, k: Obj('PyValue', {'__id__': D_PY(toint(k))}, name='pyValue')}, name='pyObject')


def _none_before(ex, keys, upto):
    z = keys.z if isinstance(keys, SeqV) else keys.cols[0]
    return z3.ForAll([_j], z3.Implies(And(_j >= 0, _j < toint(upto)), Not(D_HAS(z[_j]))))


NATIVE_DEC_CHOICE = Contract(
    id='native.decoder::ChoicePayloadDecoder.__call__', file=ND, qual='ChoicePayloadDecoder.__call__', properties=['C17', 'C19', 'C12'],
    params=dict(keys=_PIntTuple(), self=PObj('ChoicePayloadDecoder'), pyObject=PDerived(_dch_mapping), asn1Spec=PDerived(_dch_spec),
                decodeFun=PConst(FnV(_d_decode, 'decodeFun')), options=POptions()),
    globals={'none_before': FnV(_none_before, 'none_before'), 'is_alternative': FnV(lambda ex, n: D_HAS(toint(n)), 'is_alternative'),
             'conv': FnV(lambda ex, n: D_DEC(D_PY(toint(n)), D_TYPE(toint(n))), 'conv')},
    loops={0: Loop(index='k', invariant=['none_before(loop_seq, k)', 'asn1Value.assignments == 0', 'not asn1Spec.subscribed'],
                   havoc_fields=['asn1Value.chosen', 'asn1Value.value', 'asn1Value.assignments', 'asn1Spec.subscribed'])},
    ensures=[
        ('at-most-one-alternative-set', 'result.assignments <= 1'),
        ('the-first-key-that-names-an-alternative', 'result.assignments == 1 ==> (is_alternative(result.chosen) and '
                                                    'result.value == conv(result.chosen))'),
        ('nothing-chosen-only-if-no-key-names-one', 'result.assignments == 0 ==> none_before(keys, len(keys))'),
        # C12: the guiding type is read through its declaration (componentType), never subscripted
        ('guiding-type-not-touched', 'not asn1Spec.subscribed')],
    note='D_HAS here means "names an alternative of the CHOICE"')
CONTRACTS = CONTRACTS + [NATIVE_DEC_COLLECTION, NATIVE_DEC_CHOICE]


# ---- an untagged ANY of indefinite length captures header + every fragment (raw) + its own end-of-octets (C18) -------------------
from contracts.ber_decoder import END_OF_OCTETS as _EOO
from pyvc.core import inr as _inr, S as _SS, I as _II


def _any_fragment(ex, substrate, asn1Spec=None, tagSet=None, length=None, state=None, **kw):
    """decodeFun with the raw collector: one complete fragment TLV consumed and returned as octets; the marker when allowed"""
    allow = kw.get('allowEoo') is True
    if allow and ex.choose(ex.fresh('fragment.eoo', BoolSort()), 'end-of-octets'):
        return _EOO
    if ex.choose(ex.fresh('fragment.raises', BoolSort()), 'fragment-raises'):
        raise _Raise(ExcV('PyAsn1Error'))
    n = ex.fresh('fragment.n', _II)
    ex.assume(n >= 2)
    substrate.fields['pos'] = substrate.fields['pos'] + n
    z = ex.fresh('fragment.octets', _SS)
    ex.assume(_inr(z))
    ok = isinstance(asn1Spec, Obj) and asn1Spec.name == 'protoComponent' and isinstance(kw.get('substrateFun'), FnV) and \
        kw['substrateFun'].name == 'substrateCollector'
    substrate.fields['fragsOk'] = And(substrate.fields['fragsOk'], z3.BoolVal(bool(ok)))
    substrate.fields['frags'] = SeqV(z3.Concat(substrate.fields['frags'].z, z), 'bytes')
    return SeqV(z, 'bytes')


_any_fragment.is_generator_model = True


def _any_indef_params():
    p = any_params('complete')

    def stream(ex, env):
        s = _marked_stream(ex, env, 'complete')
        s.fields['frags'] = SeqV(z3.Empty(_SS), 'bytes')
        s.fields['fragsOk'] = z3.BoolVal(True)
        return s
    p['substrate'] = PDerived(stream)
    p['self'] = PObj('AnyPayloadDecoder', methods={'_createComponent': create_component},
                     protoComponent=PConst(Obj('Any', {}, name='protoComponent')),
                     substrateCollector=PConst(FnV(lambda ex, *a, **k: None, 'substrateCollector')))
    return p


ANY_INDEF = Contract(
    id='ber.decoder::AnyPayloadDecoder.indefLenValueDecoder[untagged,complete]', file=D, qual='AnyPayloadDecoder.indefLenValueDecoder',
    properties=['C18', 'C09', 'C11'], is_generator=True, params=_any_indef_params(),
    globals={'eoo': {'endOfOctets': _EOO, '__name__': 'eoo'}, 'os': {'SEEK_SET': 0, '__name__': 'os'},
             'EOO_SENTINEL': SeqV(z3.Concat(z3.Unit(z3.IntVal(0)), z3.Unit(z3.IntVal(0))), 'bytes'),
             'null': SeqV(z3.Empty(_SS), 'bytes')},
    calls={'readFromStream': _read_model('complete'), 'decodeFun': _any_fragment},
    loops={2: Loop(invariant=['not value_yielded()', 'isinstance(chunk, bytes)', 'substrate.fragsOk',
                              'chunk == X.cat(X.sub(substrate.data, mark, old(substrate.pos)), substrate.frags)',
                              'substrate.pos >= old(substrate.pos)'],
                   havoc_fields=['substrate.pos', 'substrate.frags', 'substrate.fragsOk'])},
    yield_ensures=[
        # with resolution off the field holds exactly the complete encoding: header, every fragment as it came, and the
        # value's own end-of-octets
        ('captures-header-fragments-and-marker', 'last_yield().value == X.cat(X.sub(substrate.data, mark, old(substrate.pos)), '
                                                 'substrate.frags, X.seq(0, 0)) and substrate.fragsOk')],
    exit_ensures=[('one-result', 'nyields() == 1')],
    may_raise={'PyAsn1Error': True, 'EndOfStreamError': True},
    external=['captures-header-fragments-and-marker', 'one-result'])
CONTRACTS = CONTRACTS + [ANY_INDEF]


# ... collected as a fragment of an enclosing capture (an indefinite-length element inside an indefinite-length ANY): the raw
# octets handed up are the element's complete encoding as well -- header, fragments, and its own end-of-octets
def _any_indef_fragment_params():
    p = _any_indef_params()
    collector = FnV(lambda ex, *a, **k: None, 'substrateCollector')
    p['self'] = PObj('AnyPayloadDecoder', methods={'_createComponent': create_component},
                     protoComponent=PConst(Obj('Any', {}, name='protoComponent')), substrateCollector=PConst(collector))
    p['substrateFun'] = PConst(collector)
    return p


ANY_INDEF_FRAGMENT = Contract(
    id='ber.decoder::AnyPayloadDecoder.indefLenValueDecoder[untagged,as-fragment,complete]', file=D,
    qual='AnyPayloadDecoder.indefLenValueDecoder', properties=['C18', 'C09', 'C02', 'C01'], is_generator=True,
    params=_any_indef_fragment_params(), globals=ANY_INDEF.globals,
    calls={'readFromStream': _read_model('complete'), 'decodeFun': _any_fragment},
    loops={2: Loop(invariant=['not value_yielded()', 'isinstance(chunk, bytes)', 'substrate.fragsOk',
                              'chunk == X.cat(X.sub(substrate.data, mark, old(substrate.pos)), substrate.frags)',
                              'substrate.pos >= old(substrate.pos)'],
                   havoc_fields=['substrate.pos', 'substrate.frags', 'substrate.fragsOk'])},
    yield_ensures=[
        ('fragment-is-the-complete-element', 'y == X.cat(X.sub(substrate.data, mark, old(substrate.pos)), substrate.frags, '
                                             'X.seq(0, 0)) and substrate.fragsOk')],
    exit_ensures=[('one-result', 'nyields() == 1')],
    may_raise={'PyAsn1Error': True, 'EndOfStreamError': True},
    external=['fragment-is-the-complete-element', 'one-result'])
CONTRACTS = CONTRACTS + [ANY_INDEF_FRAGMENT]
