"""Contracts on pyasn1/codec/ber/encoder.py (framing: identifier octets, length octets, EOO)."""
from pyvc.core import (Contract, Loop, PInt, PBool, PTup, PObj, PConst, POpt, POneOf, POptions, PBytes, PIntTuple,
                       PRecSeq, PSeqKindBy, PDerived, CallContract, module_int_consts, Obj, FnV, SeqV, Tup, ExcV, _Raise,
                       mk_seq, Length, inr, class_consts, lit_seq, toint, Unsupported)

F = 'pyasn1/codec/ber/encoder.py'
TAG = module_int_consts('pyasn1/type/tag.py')   # tagClassUniversal ... tagFormatConstructed, read from the AST

VALID_TAG = ['singleTag[0] == 0 or singleTag[0] == 64 or singleTag[0] == 128 or singleTag[0] == 192',
             'singleTag[1] == 0 or singleTag[1] == 32', 'singleTag[2] >= 0']

ENCODE_TAG = Contract(
        id='ber.encoder::AbstractItemEncoder.encodeTag', file=F, qual='AbstractItemEncoder.encodeTag',
        properties=['C01', 'C03', 'C13'],
        params=dict(self=PObj('AbstractItemEncoder'), singleTag=PTup(PInt(), PInt(), PInt()), isConstructed=PBool()),
        requires=VALID_TAG,
        ensures=[('ident', 'result == X.ident(old(singleTag[0]), 32 if (isConstructed or old(singleTag[1]) == 32) else 0,'
                           ' old(singleTag[2]))'),
                 ('octets', 'X.inr(result)'),
                 ('is-tuple', 'isinstance(result, tuple)')],
        loops={0: Loop(invariant=['tagId >= 0',
                                  'X.b128(old(singleTag[2])) == X.cat(X.b128hi(tagId), substrate)',
                                  'isinstance(substrate, tuple)', 'X.inr(substrate)'],
                       variant='tagId')},
        external=['ident', 'octets'], returns=PIntTuple(),
    )
ENCODE_LENGTH = Contract(
        id='ber.encoder::AbstractItemEncoder.encodeLength', file=F, qual='AbstractItemEncoder.encodeLength',
        properties=['C01', 'C03', 'C07'],
        params=dict(self=PObj('AbstractItemEncoder', supportIndefLenMode=PBool()), length=PInt(), defMode=PBool()),
        requires=['length >= 0'],
        ensures=[('indef', '(not defMode and self.supportIndefLenMode) ==> result == (0x80,)'),
                 ('definite-minimal', '(defMode or not self.supportIndefLenMode) ==> result == X.length_def(old(length))'),
                 ('octets', 'X.inr(result)')],
        raises={'PyAsn1Error': '(defMode or not self.supportIndefLenMode) and len(X.be256(length)) > 126'},
        loops={0: Loop(invariant=['length >= 0', 'X.be256(old(length)) == X.cat(X.be256(length), substrate)',
                                  'isinstance(substrate, tuple)', 'X.inr(substrate)'],
                       variant='length')},
        external=['indef', 'definite-minimal', 'octets'], returns=PIntTuple(),
    )


def encode_value_model(ex, value, asn1Spec, encodeFun, **options):
    """Assumed contract of the codec's encodeValue (abstract method; each concrete encodeValue is under its
    own contract): returns (substrate, isConstructed, isOctets); substrate is bytes if isOctets else a tuple
    of ints in range(256); a codec that does not support indefinite length never returns constructed
    content, and constructed content is always octets (class invariant valid(codec), an obligation on each
    concrete encodeValue); may raise PyAsn1Error."""
    from z3 import Bool, Const, Not, Implies
    from pyvc.core import S, truthy
    if ex.choose(ex.fresh('encodeValue.raises', Bool('x').sort()), 'encodeValue-raises'):
        raise _Raise(ExcV('PyAsn1Error'))
    isC = ex.fresh('ev.isConstructed', Bool('x').sort())
    isO = ex.fresh('ev.isOctets', Bool('x').sort())
    sup = truthy(ex.env['self'].fields['supportIndefLenMode'])
    ex.assume(Implies(Not(sup), Not(isC)))
    ex.assume(Implies(isC, isO))      # constructed content is always assembled from encoded octets
    z = ex.fresh('ev.content', S)
    if ex.choose(isO, 'isOctets'):
        sub = SeqV(z, 'bytes')
        ex.assume(inr(z))
    else:
        sub = SeqV(z, 'tuple')
        ex.assume(inr(z))
    return Tup([sub, isC, isO])


_AIE = class_consts(F, 'AbstractItemEncoder')     # eooIntegerSubstrate = (0, 0) is read from the real class body
EOO_T = lit_seq(_AIE['eooIntegerSubstrate'], 'tuple')
assert _AIE['eooOctetsSubstrate'] == ('expr', 'ints2octs(eooIntegerSubstrate)'), _AIE
EOO_B = lit_seq(bytes(_AIE['eooIntegerSubstrate']), 'bytes')

ENCODE = Contract(
    id='ber.encoder::AbstractItemEncoder.encode', file=F, qual='AbstractItemEncoder.encode',
    properties=['C01', 'C03', 'C07', 'C13'],
    params=dict(self=PObj('AbstractItemEncoder', supportIndefLenMode=PBool(), eooIntegerSubstrate=PConst(EOO_T),
                          eooOctetsSubstrate=PConst(EOO_B)),
                superTags=PRecSeq(3),
                value=PDerived(lambda ex, env: Obj('Asn1Item', {'tagSet': Obj('TagSet', {
                    'superTags': env['superTags'], '__truthy__': Length(env['superTags'].cols[0]) > 0})})),
                asn1Spec=PConst(None), encodeFun=PConst(None),
                options=POptions(defMode=PBool(), ifNotEmpty=PBool())),
    # `value` is built from superTags (value.tagSet.superTags; truthiness of a TagSet = it has tags)
    requires=['X.all_tags_valid(superTags)'],
    calls={'self.encodeTag': CallContract(ENCODE_TAG), 'self.encodeLength': CallContract(ENCODE_LENGTH),
           'self.encodeValue': encode_value_model},
    loops={0: Loop(index='idx',
                   decl={'isConstructed': PBool(), 'isOctets': PBool(), 'substrate': PSeqKindBy('isOctets'),
                         'defModeOverride': PBool()},
                   invariant=['idx >= 1 ==> X.inr(substrate)'],
                   iter_ensures=[
                       # C01/C07: end-of-octets is appended exactly when the header just written is indefinite,
                       # and the element is <identifier><length><previous content>[EOO]
                       'idx == 0 ==> substrate == X.cat(last_result("self.encodeTag"), '
                       'last_result("self.encodeLength"), last_result("self.encodeValue")[0], '
                       '(X.seq(0, 0) if last_result("self.encodeLength") == (0x80,) else X.empty()))',
                       'idx > 0 ==> substrate == X.cat(last_result("self.encodeTag"), '
                       'last_result("self.encodeLength"), iter_old(substrate), '
                       '(X.seq(0, 0) if last_result("self.encodeLength") == (0x80,) else X.empty()))',
                       # C13: one header per tag, constructed bit for wrappers and constructed content only
                       'last_result("self.encodeTag") == X.ident(singleTag[0], '
                       '32 if (isConstructed or singleTag[1] == 32) else 0, singleTag[2])',
                       # C03 (CER form rule): in indefinite mode every constructed level is indefinite,
                       # every primitive level definite
                       '(not options.get("defMode", True) and (idx > 0 or isConstructed)) ==> '
                       'last_result("self.encodeLength") == (0x80,)',
                       '(options.get("defMode", True) or (idx == 0 and not isConstructed)) ==> '
                       'last_result("self.encodeLength") == X.length_def(last_args("self.encodeLength")[0])',
                   ])},
    ensures=[('is-bytes', 'len(superTags) > 0 ==> isinstance(result, bytes)')],
    may_raise={'PyAsn1Error': True},
    external=['is-bytes'],
)


# ---- content encoders of the primitive types (each also establishes valid(codec): primitive codecs return
#      isConstructed == False, and non-octets content is a tuple of ints in range(256)) ----------------------------
from pyvc.core import CallContract as _CC
from contracts import integer as _integer

CODEC_PARAMS = dict(asn1Spec=PConst(None), encodeFun=PConst(None), options=POptions())

BOOLEAN_ENC = Contract(
    id='ber.encoder::BooleanEncoder.encodeValue', file=F, qual='BooleanEncoder.encodeValue', properties=['C01', 'C03'],
    params=dict(self=PObj('BooleanEncoder'), value=PBool(), **CODEC_PARAMS),
    ensures=[('content', 'result[0] == ((1,) if value else (0,))'), ('primitive', 'result[1] is False'),
             ('ints', 'result[2] is False and X.inr(result[0])')],
    note='BER: TRUE is any non-zero octet, the encoder emits 01')

CER_BOOLEAN_ENC = Contract(
    id='cer.encoder::BooleanEncoder.encodeValue', file='pyasn1/codec/cer/encoder.py', qual='BooleanEncoder.encodeValue',
    properties=['C02', 'C03'],
    params=dict(self=PObj('BooleanEncoder'), value=PInt(), **CODEC_PARAMS),
    # X.690 11.1: in CER/DER TRUE is FF
    ensures=[('canonical-true', 'result[0] == ((0,) if value == 0 else (255,))'), ('primitive', 'result[1] is False'),
             ('ints', 'result[2] is False and X.inr(result[0])')])

NULL_ENC = Contract(
    id='ber.encoder::NullEncoder.encodeValue', file=F, qual='NullEncoder.encodeValue', properties=['C01', 'C03'],
    params=dict(self=PObj('NullEncoder'), value=PConst(None), **CODEC_PARAMS),
    ensures=[('empty', 'len(result[0]) == 0'), ('primitive', 'result[1] is False')])

INTEGER_ENC = Contract(
    id='ber.encoder::IntegerEncoder.encodeValue', file=F, qual='IntegerEncoder.encodeValue', properties=['C01', 'C03'],
    params=dict(self=PObj('IntegerEncoder', supportCompactZero=PConst(False)), value=PInt(), **CODEC_PARAMS),
    calls={'to_bytes': _CC(_integer.TO_BYTES_SIGNED, params=['value'])},
    # X.690 8.3: minimal two's complement; zero is one octet 00
    ensures=[('denotes', 'X.twos_val(result[0]) == value'),
             ('minimal', 'len(result[0]) == X.twos_len(value)'),
             ('primitive', 'result[1] is False'), ('octets', 'X.inr(result[0])')])


def _oid_value(ex, env):
    return Obj('ObjectIdentifier', {'arcs': env['arcs']}, {'asTuple': lambda ex2, self: self.fields['arcs']}, name='value')


OID_ENC = Contract(
    id='ber.encoder::ObjectIdentifierEncoder.encodeValue', file=F, qual='ObjectIdentifierEncoder.encodeValue',
    properties=['C01', 'C03', 'C08'],
    params=dict(self=PObj('ObjectIdentifierEncoder'), arcs=PIntTuple(), value=PDerived(_oid_value), **CODEC_PARAMS),
    # type invariant of ObjectIdentifier values (established by ObjectIdentifier.prettyIn, assumed here): arcs >= 0
    requires=['len(arcs) < 2 or arcs[1] >= 0'],
    ensures=[
        # X.690 8.19: first subidentifier is 40*arc1 + arc2, then one base-128 subidentifier per arc
        ('first-two-arcs-packed', 'oid == X.cat(X.seq(40 * arcs[0] + arcs[1]), X.sub(arcs, 2, len(arcs)))'),
        ('subidentifiers', 'result[0] == X.b128cat(oid, 0, len(oid))'),
        ('valid-arcs-only', '(arcs[0] == 0 or arcs[0] == 1 or arcs[0] == 2) and arcs[1] >= 0 and (arcs[0] == 2 or arcs[1] <= 39)'),
        ('primitive', 'result[1] is False and result[2] is False'), ('octets', 'X.inr(result[0])')],
    may_raise={'PyAsn1Error': True},
    loops={0: Loop(index='i', invariant=['octets == X.b128cat(oid, 0, i)', 'X.inr(octets)', 'isinstance(octets, tuple)']),
           1: Loop(invariant=['subOid >= 0', 'X.b128(oid[i]) == X.cat(X.b128hi(subOid), res)', 'X.inr(res)',
                              'isinstance(res, tuple)', 'oid[i] > 127'],
                   variant='subOid')},
    external=['first-two-arcs-packed', 'subidentifiers', 'valid-arcs-only', 'octets'])


# ---- SEQUENCE / SET content: absent OPTIONAL and DEFAULT-equal members are left out (C03, C04) -----------------
NCOMP = 3


def _record_parts():
    import z3 as _z
    comps, nts, phs = [], [], []
    for i in range(NCOMP):
        dflt = Obj('Default', {}, name='default%d' % i)
        eqd = _z.Bool('equalsDefault.%d' % i)
        # the component as set by the user, and the placeholder that iteration puts there when it is not set (which
        # may or may not count as a value: a record type without mandatory members does)
        comps.append(Obj('Component', {'isValue': _z.Bool('isValue.%d' % i)},
                         {'__eq__': (lambda e: (lambda ex2, self, other: e))(eqd)}, name='component%d' % i))
        phs.append(Obj('Placeholder', {'isValue': _z.Bool('placeholderIsValue.%d' % i)},
                       {'__eq__': (lambda e: (lambda ex2, self, other: e))(eqd)}, name='component%d' % i))
        nts.append(Obj('NamedType', {'isOptional': _z.Bool('isOptional.%d' % i), 'isDefaulted': _z.Bool('isDefaulted.%d' % i),
                                     'asn1Object': dflt, 'openType': None}, name='namedType%d' % i))
    return comps, nts, phs


def _record(ex, env):
    import z3 as _z
    comps, nts, phs = _record_parts()
    named = Obj('NamedTypes', {'__truthy__': True, 'namedTypes': Tup(list(nts))},
                {'__getitem__': lambda ex2, self, i: nts[concrete_(i)]}, name='namedTypes')
    is_set = [_z.Bool('isSet.%d' % i) for i in range(NCOMP)]

    def get(ex2, self, idx, default=NOVALUE_, instantiate=True):
        i = concrete_(idx)
        if ex2.choose(is_set[i], 'set%d' % i):
            return comps[i]
        if instantiate is False or instantiate == False:     # noqa: E712  (concrete python bool from the call site)
            return default
        return phs[i]

    def values(ex2, self):
        return Tup([comps[i] if ex2.choose(is_set[i], 'set%d' % i) else phs[i] for i in range(NCOMP)], 'list')
    return Obj('Sequence', {'isInconsistent': False, 'componentType': named},
               {'values': values, 'getComponentByPosition': get}, name='value')


from pyvc.core import NOVALUE as NOVALUE_


def concrete_(i):
    from pyvc.core import concrete
    return concrete(i)


def _encode_component(ex, component, asn1Spec=None, **options):
    import z3 as _z
    from pyvc.core import S
    i = int(component.name[-1])
    z = _z.Const('chunk%d' % i, S)
    ex.assume(inr(z))
    return SeqV(z, 'bytes')


def _absent(i):
    return '(isOptional%d and (not isSet%d or not isValue%d))' % (i, i, i)


def _present(i):
    return '(not %s and not (isDefaulted%d and equalsDefault%d))' % (_absent(i), i, i)


_SYMS = dict({('%s%d' % (n, i)): __import__('z3').Bool('%s.%d' % (n, i)) for i in range(NCOMP)
              for n in ('isOptional', 'isDefaulted', 'isValue', 'equalsDefault', 'isSet', 'placeholderIsValue')})


SEQ_ENC = Contract(
    id='ber.encoder::SequenceEncoder.encodeValue[value-object]', file=F, qual='SequenceEncoder.encodeValue',
    properties=['C03', 'C04', 'C01'],
    params=dict(self=PObj('SequenceEncoder', omitEmptyOptionals=PBool()), value=PDerived(_record), asn1Spec=PConst(None),
                encodeFun=PConst(FnV(_encode_component, 'encodeFun')), options=POptions()),
    globals=dict({'chunk%d' % i: SeqV(__import__('z3').Const('chunk%d' % i, __import__('z3').SeqSort(__import__('z3').IntSort())), 'bytes') for i in range(NCOMP)},
                 **_SYMS),
    # assumed contract of SequenceAndSetBase.getComponentByPosition / values() (object model, A-OBJ; checked by the
    # stand-ins histories / containers): the placeholder put into the slot of an unset OPTIONAL member is not a value
    requires=['isOptional%d ==> not placeholderIsValue%d' % (i, i) for i in range(NCOMP)],
    ensures=[
        # X.690 8.9 / 11.5: components in declaration order; an OPTIONAL component that is not set (whatever placeholder
        # iteration leaves in its slot) and a DEFAULT component equal to its default are not encoded
        ('members-in-order-omitting-absent-and-default',
         'result[0] == X.cat(' + ', '.join('(chunk%d if %s else X.empty())' % (i, _present(i)) for i in range(NCOMP)) + ')'),
        ('constructed', 'result[1] is True and result[2] is True')],
    external=['members-in-order-omitting-absent-and-default'])


# ---- SingleItemEncoder.__call__: the fixed modes of the CER/DER subclasses override whatever the caller passes ----
from z3 import Int


def _codec_map(name):
    """model of the codec tables: a lookup either finds the (opaque) codec registered under the key or raises KeyError"""
    def getitem(ex, self, key):
        from z3 import Bool
        if ex.choose(ex.fresh(name + '.has', Bool('x').sort()), name + '-has'):
            return self.fields['codec']
        raise _Raise(ExcV('KeyError'))
    return getitem


def _concrete_encode(ex, value, asn1Spec, encodeFun, **options):
    """assumed contract of AbstractItemEncoder.encode (under its own contract above): returns octets or raises"""
    from z3 import Bool
    from pyvc.core import S
    if ex.choose(ex.fresh('encode.raises', Bool('x').sort()), 'encode-raises'):
        raise _Raise(ExcV('PyAsn1Error'))
    z = ex.fresh('encode.substrate', S)
    ex.assume(inr(z))
    return SeqV(z, 'bytes')


def _mk_item_encoder(ex, env):
    by_type = Obj('CodecByType', {'codec': 'TYPE-CODEC'}, name='byType')
    by_tag = Obj('CodecByTag', {'codec': 'TAG-CODEC'}, name='byTag')
    return Obj('SingleItemEncoder', {
        'fixedDefLengthMode': env['fixedDef'], 'fixedChunkSize': env['fixedChunk'],
        '_typeMap': Obj('Map', {'codec': Obj('Codec', {}, {'encode': _concrete_encode}, name='typeCodec')},
                        {'__getitem__': _codec_map('typeMap')}, name='typeMap'),
        '_tagMap': Obj('Map', {'codec': Obj('Codec', {}, {'encode': _concrete_encode}, name='tagCodec')},
                       {'__getitem__': _codec_map('tagMap')}, name='tagMap')}, name='self')


def _mk_asn1(name):
    def mk(ex, env):
        return Obj('Asn1Item', {'typeId': Int(name + '.typeId'),
                                'tagSet': Obj('TagSet', {'baseTag': Obj('Tag', {}, name=name + '.baseTag')},
                                              name=name + '.tagSet')}, name=name)
    return mk


def _tagset_ctor(ex, base=None, *tags):
    return Obj('TagSet', {'baseTag': base, 'base': base, 'superTags': Tup(list(tags))}, name='baseTagSet')


ITEM_ENCODER_CALL = Contract(
    id='ber.encoder::SingleItemEncoder.__call__', file=F, qual='SingleItemEncoder.__call__',
    properties=['C02', 'C03', 'C01'],
    params=dict(fixedDef=POneOf(None, True, False), fixedChunk=POpt(PInt()),
                self=PDerived(_mk_item_encoder),
                value=PDerived(_mk_asn1('value')),
                spec_given=PBool(),
                asn1Spec=PDerived(lambda ex, env: _mk_asn1('asn1Spec')(ex, env) if ex.choose(env['spec_given'], 'spec') else None),
                options=POptions(defMode=PBool(), maxChunkSize=PInt(), ifNotEmpty=PBool())),
    globals={'tag': {'TagSet': FnV(_tagset_ctor, 'tag.TagSet')}},
    ensures=[
        # X.690 10.1 / 9.1-9.2 as implemented: the class attributes of the cer/der encoders win over the caller
        ('fixed-definite-mode', 'self.fixedDefLengthMode is not None ==> '
                                'last_kwargs("concreteEncoder.encode").get("defMode", "absent") is self.fixedDefLengthMode'),
        ('fixed-chunk-size', 'self.fixedChunkSize is not None ==> '
                             'last_kwargs("concreteEncoder.encode").get("maxChunkSize", "absent") == self.fixedChunkSize'),
        ('caller-mode-kept', 'self.fixedDefLengthMode is None ==> '
                             'last_kwargs("concreteEncoder.encode").get("defMode", "absent") == '
                             'old(options).get("defMode", "absent")'),
        ('caller-chunk-kept', 'self.fixedChunkSize is None ==> '
                              'last_kwargs("concreteEncoder.encode").get("maxChunkSize", "absent") == '
                              'old(options).get("maxChunkSize", "absent")'),
        ('other-options-kept', 'last_kwargs("concreteEncoder.encode").get("ifNotEmpty", "absent") == '
                               'old(options).get("ifNotEmpty", "absent")'),
        ('recursion-through-self', 'last_args("concreteEncoder.encode")[0] is value and '
                                   'last_args("concreteEncoder.encode")[1] is asn1Spec and '
                                   'last_args("concreteEncoder.encode")[2] is self'),
        ('returns-codec-output', 'result == last_result("concreteEncoder.encode")'),
    ],
    calls={'concreteEncoder.encode': _concrete_encode},
    may_raise={'PyAsn1Error': True},
    note='cer.encoder.SingleItemEncoder and der.encoder.SingleItemEncoder only override the two class attributes '
         '(obligation group "dispatch" checks that); with them set the codec below never sees the caller\'s '
         'defMode/maxChunkSize')

CONTRACTS = [ENCODE_TAG, ENCODE_LENGTH, ENCODE, BOOLEAN_ENC, CER_BOOLEAN_ENC, NULL_ENC, INTEGER_ENC, OID_ENC, SEQ_ENC,
             ITEM_ENCODER_CALL]


# ---- OCTET STRING (and every string type) content: primitive, or segments of at most maxChunkSize octets --------------
def _some_tag(ex, self, k):
    """tagSet[k]: one of the value's own tags -- not the base tag (an implicitly tagged string has the two differ)"""
    return Obj('Tag', {'__truthy__': True}, name='tagSet[..]')


def _string_value(ex, env):
    import z3 as _z
    content = env['content']
    base = Obj('Tag', {'__truthy__': _z.Bool('hasBaseTag')}, name='baseTag')
    return Obj('OctetString', {'tagSet': Obj('TagSet', {'baseTag': base}, {'__getitem__': _some_tag}, name='tagSet')},
               {'asOctets': lambda ex2, self: content,
                'clone': lambda ex2, self, **kw: Obj('OctetString', {'tagSet': kw.get('tagSet')}, name='fragmentSpec')},
               name='value')


def _encode_chunk(ex, chunk, asn1Spec=None, **options):
    from spec.smt import enc_chunk
    z = enc_chunk(chunk.z)
    ex.assume(inr(z))
    return SeqV(z, 'bytes')


OCTETS_ENC = Contract(
    id='ber.encoder::OctetStringEncoder.encodeValue[value-object]', file=F, qual='OctetStringEncoder.encodeValue',
    properties=['C01', 'C03', 'C02', 'C13'],
    params=dict(self=PObj('OctetStringEncoder'), content=PBytes(), value=PDerived(_string_value), asn1Spec=PConst(None),
                encodeFun=PConst(FnV(_encode_chunk, 'encodeFun')), options=POptions(maxChunkSize=PInt(), defMode=PBool())),
    globals={'tag': {'TagSet': FnV(_tagset_ctor, 'tag.TagSet')}, 'hasBaseTag': __import__('z3').Bool('hasBaseTag')},
    requires=['options.get("maxChunkSize", 0) >= 0'],
    ensures=[
        # X.690 8.7: primitive when no segment size is imposed or the string fits into one segment ...
        ('primitive-when-it-fits', '(options.get("maxChunkSize", 0) == 0 or len(content) <= options.get("maxChunkSize", 0)) ==> '
                                   '(result[0] == content and result[1] is False and result[2] is True)'),
        # ... otherwise constructed from the encodings of consecutive segments of exactly maxChunkSize octets (the last
        # one shorter): nothing lost, nothing reordered (CER 9.2 with maxChunkSize fixed to 1000)
        ('segments-in-order', '(options.get("maxChunkSize", 0) > 0 and len(content) > options.get("maxChunkSize", 0)) ==> '
                              '(result[0] == X.segments_upto(content, pos, options.get("maxChunkSize", 0)) and '
                              'pos >= len(content) and pos - options.get("maxChunkSize", 0) < len(content) and '
                              'X.multiple_of(pos, options.get("maxChunkSize", 0)) and result[1] is True and result[2] is True)'),
    ],
    loops={0: Loop(invariant=['pos >= 0', 'maxChunkSize > 0', 'isinstance(substrate, bytes)', 'X.inr(substrate)',
                              'octets == content', 'pos - maxChunkSize < len(octets)', 'X.multiple_of(pos, maxChunkSize)',
                              'substrate == X.segments_upto(octets, pos, maxChunkSize)'],
                   variant='len(octets) - pos',
                   # each segment is encoded as the base (untagged or base-tagged) string type, whatever tags the value has
                   iter_ensures=['hasBaseTag ==> last_args("encodeFun")[1].tagSet.base is value.tagSet.baseTag',
                                 'len(last_args("encodeFun")[0]) >= 1 and len(last_args("encodeFun")[0]) <= maxChunkSize'],
                   hints=['X.lemma_segments_step(octets, iter_old(pos), maxChunkSize)'])},
    calls={'encodeFun': _encode_chunk},
    external=['primitive-when-it-fits', 'segments-in-order'],
    note='every string codec (OCTET STRING, character strings, useful types) shares this method')
CONTRACTS = CONTRACTS + [OCTETS_ENC]


# ---- SEQUENCE OF / SET OF content: every element, in order, none of them optional -------------------------------------
def _collection(ex, env):
    els = [Obj('Element', {}, name='element%d' % i) for i in range(NCOMP)]
    return Obj('SequenceOf', {'isInconsistent': False}, {'__iter__': lambda ex2, self: Tup(list(els), 'list')}, name='value')


def _encode_element(ex, component, asn1Spec=None, **options):
    import z3 as _z
    from pyvc.core import S
    i = int(component.name[-1])
    z = _z.Const('chunk%d' % i, S)
    ex.assume(inr(z))
    return SeqV(z, 'bytes')


SEQOF_COMPONENTS = Contract(
    id='ber.encoder::SequenceOfEncoder._encodeComponents[value-object]', file=F, qual='SequenceOfEncoder._encodeComponents',
    properties=['C01', 'C02', 'C03', 'C07'],
    params=dict(self=PObj('SequenceOfEncoder'), value=PDerived(_collection), asn1Spec=PConst(None),
                encodeFun=PConst(FnV(_encode_element, 'encodeFun')),
                options=POptions(ifNotEmpty=PBool(), defMode=PBool(), maxChunkSize=PInt())),
    globals={'chunk%d' % i: SeqV(__import__('z3').Const('chunk%d' % i, __import__('z3').SeqSort(__import__('z3').IntSort())), 'bytes')
             for i in range(NCOMP)},
    calls={'encodeFun': _encode_element},
    loops={0: Loop(unroll=True, iter_ensures=[
        # the member-level option "leave out if empty" never reaches an element (elements are not optional)
        '"ifNotEmpty" not in last_kwargs("encodeFun")',
        'last_kwargs("encodeFun").get("defMode", "absent") == old(options).get("defMode", "absent")',
        'last_kwargs("encodeFun").get("maxChunkSize", "absent") == old(options).get("maxChunkSize", "absent")'])},
    ensures=[('every-element-in-order', 'len(result) == %d and ' % NCOMP +
              ' and '.join('result[%d] == chunk%d' % (i, i) for i in range(NCOMP)))],
    external=['every-element-in-order'],
    note='three elements; SET OF sorts these chunks afterwards (cer.encoder.SetOfEncoder, stand-in der-twin/cer-twin)')
CONTRACTS = CONTRACTS + [SEQOF_COMPONENTS]


# ---- BIT STRING content: unused-bits octet + packed bits, or segments of 8 * maxChunkSize bits -----------------------------
def _bits_obj(z, name, tagSet=None, constrained=None):
    import z3 as _z
    from spec.smt import zeros, pack8, py_slice

    def asoctets(ex, self):
        out = pack8(z)
        # assumed model of univ.BitString.asOctets (integer.to_bytes is under contract; SizedInteger is not): one octet
        # per eight bits, rounded up
        ex.assume(_z.Length(out) == (_z.Length(z) + 7) / 8)
        ex.assume(inr(out))
        return SeqV(out, 'bytes')

    def derived(ex, self, bits, nm):
        """every operator of BitString builds its result with self.clone(...): the result has the type's constraints and
        is checked against them -- a padded form or a segment of a SIZE-constrained value may be refused"""
        c = self.fields['constrained']
        if c is not None and ex.choose(_z.And(c, ex.fresh('pieceViolatesTheConstraint', _z.BoolSort())), 'piece-refused'):
            raise _Raise(ExcV('ValueConstraintError'))
        return _bits_obj(bits, nm, self.fields['tagSet'], c)

    def lshift(ex, self, k):
        k = toint(k)
        ex.assume(_z.Length(zeros(k)) == _z.If(k > 0, k, 0))
        return derived(ex, self, _z.Concat(z, zeros(k)), name + '<<k')

    def clone(ex, self, *args, **kw):
        if args:
            raise Unsupported('BitString.clone with a new value')
        c = self.fields['constrained']
        if 'subtypeSpec' in kw:
            spec = kw['subtypeSpec']
            if not (isinstance(spec, Obj) and spec.fields.get('admitsEverything') is True):
                raise Unsupported('BitString.clone with constraints other than the empty intersection')
            c = _z.BoolVal(False)        # same bits, no constraints: nothing to refuse from here on
        return _bits_obj(z, name + '.clone()', kw.get('tagSet', self.fields['tagSet']), c)

    def getslice(ex, self, lo, hi):
        lo = _z.IntVal(0) if lo is None else toint(lo)
        hi = _z.Length(z) if hi is None else toint(hi)
        return derived(ex, self, py_slice(z, lo, hi), name + '[a:b]')
    return Obj('BitString', {'tagSet': tagSet, 'bits': SeqV(z, 'any'), 'constrained': constrained},
               {'asOctets': asoctets, '__lshift__': lshift, 'clone': clone, '__getslice__': getslice,
                '__len__': lambda ex, self: _z.Length(z)}, name=name)


def _bit_value(ex, env):
    import z3 as _z
    base = Obj('Tag', {'__truthy__': _z.Bool('hasBaseTag')}, name='baseTag')
    return _bits_obj(env['bits'].z, 'value', Obj('TagSet', {'baseTag': base}, {'__getitem__': _some_tag}, name='tagSet'),
                     constrained=_z.Bool('value.hasConstraints'))


def _encode_bit_chunk(ex, chunk, asn1Spec=None, **options):
    from spec.smt import enc_chunk
    z = enc_chunk(chunk.fields['bits'].z)
    ex.assume(inr(z))
    return SeqV(z, 'bytes')


_MCS = 'options.get("maxChunkSize", 0)'
BITS_ENC = Contract(
    id='ber.encoder::BitStringEncoder.encodeValue[value-object]', file=F, qual='BitStringEncoder.encodeValue',
    properties=['C01', 'C03', 'C02', 'C13'],
    params=dict(self=PObj('BitStringEncoder'), bits=PIntTuple(), value=PDerived(_bit_value), asn1Spec=PConst(None),
                encodeFun=PConst(FnV(_encode_bit_chunk, 'encodeFun')), options=POptions(maxChunkSize=PInt(), defMode=PBool())),
    globals={'tag': {'TagSet': FnV(_tagset_ctor, 'tag.TagSet')}, 'hasBaseTag': __import__('z3').Bool('hasBaseTag'),
             # constraint.ConstraintsIntersection() without operands admits every value (contracts.constraint)
             'constraint': {'ConstraintsIntersection': FnV(lambda ex, *a: Obj('ConstraintsIntersection', {'admitsEverything': not a},
                                                                              name='noConstraints'), 'ConstraintsIntersection'),
                            '__name__': 'constraint'}},
    requires=['%s >= 0' % _MCS],
    ensures=[
        # X.690 8.6.2: initial octet = number of unused bits (0..7) of the final octet, then the bits, padded with zeros
        ('primitive-when-it-fits',
         '(%s == 0 or len(bits) <= 8 * %s) ==> (result[1] is False and result[2] is True and '
         'result[0][0] == (8 - len(bits) %% 8) %% 8 and len(result[0]) == 1 + (len(bits) + 7) // 8)' % (_MCS, _MCS)),
        ('primitive-content-padded-with-zeros',
         '((%s == 0 or len(bits) <= 8 * %s) and len(bits) %% 8 != 0) ==> '
         'result[0][1:] == X.pack8(bits + X.zeros(8 - len(bits) %% 8))' % (_MCS, _MCS)),
        ('primitive-content-aligned',
         '((%s == 0 or len(bits) <= 8 * %s) and len(bits) %% 8 == 0) ==> result[0][1:] == X.pack8(bits)' % (_MCS, _MCS)),
        # X.690 8.6.4: otherwise constructed from the encodings of consecutive segments of 8 * maxChunkSize bits, only the last
        # one shorter (and the only one that may have unused bits)
        ('segments-in-order',
         '(%s > 0 and len(bits) > 8 * %s) ==> (result[1] is True and result[2] is True and '
         'result[0] == X.bit_segments_from(bits, 0, 8 * %s))' % (_MCS, _MCS, _MCS)),
    ],
    loops={0: Loop(invariant=['stop >= 0', 'stop <= valueLength', 'maxChunkSize > 0', 'valueLength == len(bits)',
                              'isinstance(substrate, bytes)', 'X.inr(substrate)',
                              'X.sub(alignedValue.bits, 0, valueLength) == bits', 'len(alignedValue.bits) >= valueLength',
                              'substrate + X.bit_segments_from(bits, stop, 8 * maxChunkSize) == '
                              'X.bit_segments_from(bits, 0, 8 * maxChunkSize)'],
                   variant='valueLength - stop',
                   iter_ensures=['hasBaseTag ==> last_args("encodeFun")[0].tagSet.base is value.tagSet.baseTag',
                                 'last_args("encodeFun")[1] is None',
                                 'len(last_args("encodeFun")[0]) >= 1 and len(last_args("encodeFun")[0]) <= 8 * maxChunkSize'],
                   hints=['X.lemma_bit_segments_step(bits, iter_old(stop), 8 * maxChunkSize)',
                          'X.lemma_prefix_slice(alignedValue.bits, bits, iter_old(stop), stop)'])},
    calls={'encodeFun': _encode_bit_chunk},
    external=['primitive-when-it-fits', 'primitive-content-padded-with-zeros', 'primitive-content-aligned', 'segments-in-order'],
    note='asOctets of the value object is an assumed model (eight bits to the octet, rounded up)')
CONTRACTS = CONTRACTS + [BITS_ENC]


# ---- CHOICE and ANY contents ------------------------------------------------------------------------------------------------
CHOSEN = Obj('Asn1Value', {}, name='chosenAlternative')


def _encode_alternative(ex, component, asn1Spec=None, **options):
    from spec.smt import enc_chunk
    import z3 as _z
    z = _z.Const('enc.alternative', _z.SeqSort(_z.IntSort()))
    ex.assume(inr(z))
    return SeqV(z, 'bytes')


CHOICE_ENC = Contract(
    id='ber.encoder::ChoiceEncoder.encodeValue[value-object]', file=F, qual='ChoiceEncoder.encodeValue',
    properties=['C01', 'C03', 'C13'],
    params=dict(self=PObj('ChoiceEncoder'),
                value=PDerived(lambda ex, env: Obj('Choice', {
                    # the constraints of the CHOICE type itself (WITH COMPONENTS), evaluated by type.univ
                    'isInconsistent': ExcV('ValueConstraintError') if ex.choose(__import__('z3').Bool('value.inconsistent'),
                                                                               'inconsistent') else False},
                    {'getComponent': lambda ex2, self: CHOSEN}, name='value')), asn1Spec=PConst(None),
                encodeFun=PConst(FnV(_encode_alternative, 'encodeFun')), options=POptions(defMode=PBool(), maxChunkSize=PInt())),
    globals={'chosen': CHOSEN, 'inconsistent': __import__('z3').Bool('value.inconsistent')},
    calls={'encodeFun': _encode_alternative},
    raises={'ValueConstraintError': 'inconsistent'},
    ensures=[
        # C14: a value that the constraints of the CHOICE type refuse is not encoded
        ('only-consistent-values-are-encoded', 'not inconsistent'),
        # X.690 8.13: the encoding of a CHOICE value is the encoding of the chosen alternative, nothing added
        ('contents-are-the-chosen-alternative', 'result[0] == last_result("encodeFun") and '
                                                'last_args("encodeFun")[0] is chosen and last_args("encodeFun")[1] is None'),
        ('options-passed-on', 'last_kwargs("encodeFun").get("defMode", "absent") == old(options).get("defMode", "absent") and '
                              'last_kwargs("encodeFun").get("maxChunkSize", "absent") == old(options).get("maxChunkSize", "absent")'),
        ('constructed', 'result[1] is True and result[2] is True')])


def _any_value(ex, env):
    return Obj('Any', {}, {'asOctets': lambda ex2, self: env['content']}, name='value')


ANY_ENC = Contract(
    id='ber.encoder::AnyEncoder.encodeValue[value-object]', file=F, qual='AnyEncoder.encodeValue', properties=['C01', 'C03', 'C18'],
    params=dict(self=PObj('AnyEncoder'), content=PBytes(), value=PDerived(_any_value), asn1Spec=PConst(None),
                encodeFun=PConst(None), options=POptions(defMode=PBool(), maxChunkSize=PInt())),
    ensures=[
        # an ANY value is already an encoding: its octets go out verbatim, never segmented whatever maxChunkSize says
        ('octets-verbatim', 'result[0] == content and result[2] is True'),
        ('framing-follows-the-length-mode', 'result[1] == (not options.get("defMode", True))')])
CONTRACTS = CONTRACTS + [CHOICE_ENC, ANY_ENC]


# ---- contracts over a record / collection of a fixed small size are bounded instances, labelled so (never counted as proved) -----
SEQ_ENC.bounded = 'records of exactly %d components, every OPTIONAL / DEFAULT / set / equals-default pattern (symbolic flags)' % NCOMP
SEQOF_COMPONENTS.bounded = 'collections of exactly %d elements' % NCOMP


# ---- SEQUENCE / SET content for records of ANY number of components ------------------------------------------------------------
import z3 as _z3
from pyvc.core import RecSeqV as _RecSeqV, I as _I, S as _S, BoolSort as _BoolSort
R_OPT = _z3.Function('member.optional', _I, _BoolSort())
R_DEF = _z3.Function('member.defaulted', _I, _BoolSort())
R_ISVAL = _z3.Function('component.isValue', _I, _BoolSort())
R_EQDEF = _z3.Function('component.equalsDefault', _I, _BoolSort())
R_CHUNK = _z3.Function('component.encoding', _I, _S)
_rv, _ru = _z3.Const('_rv', _S), _z3.Int('_ru')


def r_present(vals, i):
    return _z3.And(_z3.Not(_z3.And(R_OPT(i), _z3.Not(R_ISVAL(vals[i])))), _z3.Not(_z3.And(R_DEF(i), R_EQDEF(vals[i]))))


R_MEMBERS = _z3.RecFunction('encodings_of_present_members', _S, _I, _S)
_z3.RecAddDefinition(R_MEMBERS, [_rv, _ru], _z3.If(_ru <= 0, _z3.Empty(_S), _z3.Concat(
    R_MEMBERS(_rv, _ru - 1), _z3.If(r_present(_rv, _ru - 1), R_CHUNK(_rv[_ru - 1]), _z3.Empty(_S)))))


class _Components(_RecSeqV):
    """value.values(): the components in declaration order, known by identity"""

    def elem(self, i):
        ident = self.cols[0][i]
        return Obj('Component', {'__id__': ident, 'isValue': R_ISVAL(ident)},
                   {'__eq__': lambda ex, self_, other: R_EQDEF(ident)}, name='component')


def _record_n(ex, env):
    vals = env['components']

    def getitem(ex2, self, idx):
        i = toint(idx)
        return Obj('NamedType', {'isOptional': R_OPT(i), 'isDefaulted': R_DEF(i), 'openType': None,
                                 'asn1Object': Obj('Default', {}, name='default')}, name='namedType')
    named = Obj('NamedTypes', {'__truthy__': True}, {'__getitem__': getitem}, name='namedTypes')
    return Obj('Sequence', {'isInconsistent': False, 'componentType': named},
               {'values': lambda ex2, self: _Components([vals.z], names=('__id__',))}, name='value')


def _encode_member(ex, component, asn1Spec=None, **options):
    z = R_CHUNK(toint(component.fields['__id__']))
    ex.assume(inr(z))
    return SeqV(z, 'bytes')


SEQ_ENC_N = Contract(
    id='ber.encoder::SequenceEncoder.encodeValue[value-object,any-size]', file=F, qual='SequenceEncoder.encodeValue',
    properties=['C03', 'C04', 'C01'],
    params=dict(self=PObj('SequenceEncoder', omitEmptyOptionals=PBool()), components=PIntTuple(), value=PDerived(_record_n),
                asn1Spec=PConst(None), encodeFun=PConst(FnV(_encode_member, 'encodeFun')), options=POptions()),
    globals={'members': FnV(lambda ex, vals, upto: SeqV(R_MEMBERS(vals.z if isinstance(vals, SeqV) else vals.cols[0], toint(upto)), 'bytes'),
                            'members'),
             'unfold': FnV(lambda ex, vals, i: (lambda z, k: _z3.Implies(k >= 0, R_MEMBERS(z, k + 1) == _z3.Concat(
                 R_MEMBERS(z, k), _z3.If(r_present(z, k), R_CHUNK(z[k]), _z3.Empty(_S)))))(
                 vals.z if isinstance(vals, SeqV) else vals.cols[0], toint(i)), 'unfold')},
    loops={0: Loop(index='i', invariant=['substrate == members(loop_seq, i)', 'isinstance(substrate, bytes)', 'X.inr(substrate)'],
                   hints=['unfold(loop_seq, i)'])},
    ensures=[
        # X.690 8.9 / 11.5 for a record of any size: the encodings of the components in declaration order, an OPTIONAL
        # component that is not a value and a DEFAULT component equal to its default left out
        ('present-members-in-declaration-order', 'result[0] == members(components, len(components))'),
        ('constructed', 'result[1] is True and result[2] is True')],
    note='records without open-type members; the per-member option handling (ifNotEmpty) is in the bounded contract '
         'SequenceEncoder.encodeValue[value-object]')
CONTRACTS = CONTRACTS + [SEQ_ENC_N]


# ---- SEQUENCE OF / SET OF components for collections of ANY size ---------------------------------------------------------------
E_CHUNK = _z3.Function('element.encoding', _I, _S)
E_ALL = _z3.RecFunction('encodings_of_elements', _S, _I, _S)
_z3.RecAddDefinition(E_ALL, [_rv, _ru], _z3.If(_ru <= 0, _z3.Empty(_S), _z3.Concat(E_ALL(_rv, _ru - 1), E_CHUNK(_rv[_ru - 1]))))


class _Elements(_RecSeqV):
    def elem(self, i):
        return Obj('Element', {'__id__': self.cols[0][i]}, name='element')


def _chunk_list(ex):
    """a python list of byte strings of symbolic length: what matters of it is the concatenation and the count"""
    def append(ex2, self, chunk):
        from pyvc.core import inr_fact_concat
        z = _z3.Concat(self.fields['joined'].z, chunk.z)
        ex2.pc.append(inr_fact_concat(z, self.fields['joined'].z, chunk.z))
        self.fields['joined'] = SeqV(z, 'bytes')
        self.fields['count'] = self.fields['count'] + 1

    def join(ex2, self, sep):
        if not (_z3.is_app(sep.z) and sep.z.decl().kind() == _z3.Z3_OP_SEQ_EMPTY):
            raise Unsupported('join with a separator')
        return self.fields['joined']
    return Obj('list', {'joined': SeqV(_z3.Empty(_S), 'bytes'), 'count': _z3.IntVal(0)}, {'append': append, '__join__': join},
               name='chunks')


def _collection_n(ex, env):
    vals = env['elements']
    return Obj('SequenceOf', {'isInconsistent': False}, {'__iter__': lambda ex2, self: _Elements([vals.z], names=('__id__',))},
               name='value')


def _encode_element_n(ex, component, asn1Spec=None, **options):
    z = E_CHUNK(toint(component.fields['__id__']))
    ex.assume(inr(z))
    ok = options.get('ifNotEmpty', None) is None
    return SeqV(z, 'bytes')


SEQOF_COMPONENTS_N = Contract(
    id='ber.encoder::SequenceOfEncoder._encodeComponents[value-object,any-size]', file=F, qual='SequenceOfEncoder._encodeComponents',
    properties=['C01', 'C03', 'C02'],
    params=dict(self=PObj('SequenceOfEncoder'), elements=PIntTuple(), value=PDerived(_collection_n), asn1Spec=PConst(None),
                encodeFun=PConst(FnV(_encode_element_n, 'encodeFun')), options=POptions(ifNotEmpty=PBool())),
    globals={'all_of': FnV(lambda ex, vals, upto: SeqV(E_ALL(vals.z if isinstance(vals, SeqV) else vals.cols[0], toint(upto)), 'bytes'), 'all_of'),
             'unfold': FnV(lambda ex, vals, i: (lambda z, k: _z3.Implies(k >= 0, E_ALL(z, k + 1) == _z3.Concat(E_ALL(z, k), E_CHUNK(z[k]))))(
                 vals.z if isinstance(vals, SeqV) else vals.cols[0], toint(i)), 'unfold')},
    loops={0: Loop(index='i', invariant=['chunks.joined == all_of(loop_seq, i)', 'chunks.count == i', 'X.inr(chunks.joined)'],
                   havoc_fields=['chunks.joined', 'chunks.count'], hints=['unfold(loop_seq, i)'],
                   # no element is an OPTIONAL member: the collection's own ifNotEmpty must not reach the elements
                   iter_ensures=['last_kwargs("encodeFun").get("ifNotEmpty", "absent") == "absent"'])},
    ensures=[('every-element-in-order', 'result.joined == all_of(elements, len(elements)) and result.count == len(elements)')],
    calls={'encodeFun': _encode_element_n},
    note='collections without a wrap type (open types: bounded contract)')
SEQOF_COMPONENTS_N.empty_list = _chunk_list
CONTRACTS = CONTRACTS + [SEQOF_COMPONENTS_N]


# ... with a wrap type (SET OF / SEQUENCE OF ANY holding typed inner values, C18): each element is wrapped or not on its own
E_SAME = _z3.Function('element.isOfTheWrapType', _I, _z3.BoolSort())
E_WRAP = _z3.Function('wrapped.encoding', _S, _S)
E_ALL_W = _z3.RecFunction('encodings_of_elements_wrapped', _S, _I, _S)
_z3.RecAddDefinition(E_ALL_W, [_rv, _ru], _z3.If(_ru <= 0, _z3.Empty(_S), _z3.Concat(
    E_ALL_W(_rv, _ru - 1), _z3.If(E_SAME(_rv[_ru - 1]), E_CHUNK(_rv[_ru - 1]), E_WRAP(E_CHUNK(_rv[_ru - 1]))))))
WRAP_TYPE = Obj('Any', {}, {'isSameTypeWith': lambda ex, self, component: E_SAME(toint(component.fields['__id__']))},
                name='wrapType')


class _ElementList(Obj):
    pass


def _collection_w(ex, env):
    vals = env['elements']

    def getitem(ex2, self, k):
        if not ex2.choose(_z3.And(toint(k) >= 0, toint(k) < _z3.Length(vals.z)), 'index-in-range'):
            raise _Raise(ExcV('IndexError'))
        return Obj('Element', {'__id__': vals.z[toint(k)]}, name='element')
    return Obj('SequenceOf', {'isInconsistent': False},
               {'__iter__': lambda ex2, self: _Elements([vals.z], names=('__id__',)), '__getitem__': getitem,
                '__len__': lambda ex2, self: _z3.Length(vals.z)}, name='value')


def _encode_element_w(ex, component, asn1Spec=None, **options):
    if isinstance(component, SeqV):
        # the second call: the element's encoding wrapped into the container type
        if not (isinstance(asn1Spec, Obj) and asn1Spec.uid == WRAP_TYPE.uid):
            raise Unsupported('octets encoded under something else than the wrap type')
        z = E_WRAP(component.z)
    else:
        z = E_CHUNK(toint(component.fields['__id__']))
    ex.assume(inr(z))
    return SeqV(z, 'bytes')


SEQOF_COMPONENTS_W = Contract(
    id='ber.encoder::SequenceOfEncoder._encodeComponents[value-object,any-size,wrap-type]', file=F,
    qual='SequenceOfEncoder._encodeComponents', properties=['C18', 'C01'],
    params=dict(self=PObj('SequenceOfEncoder'), elements=PIntTuple(), value=PDerived(_collection_w), asn1Spec=PConst(None),
                encodeFun=PConst(FnV(_encode_element_w, 'encodeFun')), options=POptions(wrapType=PConst(WRAP_TYPE))),
    globals={'_isValueOf': FnV(lambda ex, t, component: E_SAME(toint(component.fields['__id__'])), '_isValueOf'),
             'all_of': FnV(lambda ex, vals, upto: SeqV(E_ALL_W(vals.z if isinstance(vals, SeqV) else vals.cols[0], toint(upto)), 'bytes'), 'all_of'),
             'unfold': FnV(lambda ex, vals, i: (lambda z, k: _z3.Implies(k >= 0, E_ALL_W(z, k + 1) == _z3.Concat(
                 E_ALL_W(z, k), _z3.If(E_SAME(z[k]), E_CHUNK(z[k]), E_WRAP(E_CHUNK(z[k]))))))(
                 vals.z if isinstance(vals, SeqV) else vals.cols[0], toint(i)), 'unfold')},
    loops={0: Loop(index='i', invariant=['chunks.joined == all_of(loop_seq, i)', 'chunks.count == i', 'X.inr(chunks.joined)'],
                   havoc_fields=['chunks.joined', 'chunks.count'], hints=['unfold(loop_seq, i)'])},
    requires=['options.get("wrapType", None) is not None'],
    # C18: an element that is not of the field's own (ANY) type is wrapped into it, one that is (raw octets) is not -- decided
    # for each element, a collection may mix the two
    ensures=[('each-element-wrapped-iff-it-is-not-of-the-wrap-type',
              'result.joined == all_of(elements, len(elements)) and result.count == len(elements)')],
    calls={'encodeFun': _encode_element_w},
    note='_isValueOf (contract below) and the two uses of encodeFun are call reductions / assumed models')
SEQOF_COMPONENTS_W.empty_list = _chunk_list
CONTRACTS = CONTRACTS + [SEQOF_COMPONENTS_W]

# "is this component a value of the (ANY) wrap type itself": same kind of type *and* same tags/constraints -- a value of another
# type that merely carries the field's tag (an inner OCTET STRING tagged like the field) is not
IS_VALUE_OF = Contract(
    id='ber.encoder::_isValueOf', file=F, qual='_isValueOf', properties=['C18', 'C01'],
    params=dict(asn1Type=PConst(Obj('Any', {'typeId': _z3.Int('wrapType.typeId')},
                                    {'isSameTypeWith': lambda ex, self, c: _z3.Bool('sameTagsAndConstraints')}, name='asn1Type')),
                component=PDerived(lambda ex, env: Obj('Asn1Value', {'typeId': _z3.Int('component.typeId')}, name='component')
                                   if ex.choose(_z3.Bool('component.isAsn1Object'), 'asn1-object') else
                                   SeqV(_z3.Const('component.octets', _S), 'bytes'))),
    globals={'isObj': _z3.Bool('component.isAsn1Object'), 'same': _z3.Bool('sameTagsAndConstraints'),
             'tw': _z3.Int('wrapType.typeId'), 'tc': _z3.Int('component.typeId')},
    ensures=[('same-kind-and-same-tags', 'isObj ==> (result == (tw == tc and same))'),
             ('plain-octets-are-not', '(not isObj) ==> (result is False or result == False)')],
    note='typeId identifies the kind of type (ANY, OCTET STRING, ...); isSameTypeWith compares tags and constraints')
CONTRACTS = CONTRACTS + [IS_VALUE_OF]


# ---- REAL, binary form in base 2 (X.690 8.5.7): first octet, two's complement exponent, unsigned mantissa ------------------------
def _real_value(ex, env):
    m0, e0 = env['m0'], env['e0']
    return Obj('Real', {'isPlusInf': False, 'isMinusInf': False, 'binEncBase': None},
               {'__iter__': lambda ex2, self: Tup([m0, 2, e0])}, name='value')


def _choose_base(ex, self, value):
    """callee RealEncoder._chooseEncBase / _dropFloatingPoint for an integral mantissa and the default base 2 (contract
    below): sign, magnitude, base 2, exponent unchanged"""
    m0, e0 = ex.env['m0'], ex.env['e0']
    return Tup([_z3.If(m0 < 0, _z3.IntVal(-1), _z3.IntVal(1)), _z3.If(m0 < 0, -m0, m0), 2, e0])


REAL_ENC = Contract(
    id='ber.encoder::RealEncoder.encodeValue[binary,base-2]', file=F, qual='RealEncoder.encodeValue', properties=['C01', 'C03', 'C09'],
    params=dict(m0=PInt(), e0=PInt(), self=PObj('RealEncoder', methods={'_chooseEncBase': _choose_base}), value=PDerived(_real_value),
                asn1Spec=PConst(None), encodeFun=PConst(None), options=POptions()),
    requires=['m0 != 0'],
    loops={0: Loop(entry_ghosts={'mag': 'm', 'exp0': 'e'},
                   invariant=['m > 0', 'e >= exp0', 'm * X.pow2f(e - exp0) == mag'], variant='m',
                   hints=['X.lemma_pow2_step(iter_old(e) - exp0)']),
           3: Loop(entry_ghosts={'mant': 'm', 'expn': 'e'}, invariant=['sf == 0', 'm % 2 == 1', 'm > 0', 'm == mant', 'e == expn'],
                   variant='m'),
           4: Loop(invariant=['isinstance(eo, bytes)', 'X.inr(eo)', 'X.sdigits(expn) == X.cat(X.sdigits(e), eo)', 'm == mant',
                              '(e >= 0) == (expn >= 0)'],
                   variant='e if e >= 0 else -1 - e', hints=['X.lemma_sdigits_step(iter_old(e))']),
           5: Loop(invariant=['isinstance(po, bytes)', 'X.inr(po)', 'm >= 0', 'X.be256(mant) == X.cat(X.be256(m), po)'],
                   variant='m', hints=['X.lemma_be256_step(iter_old(m))'])},
    ensures=[
        ('primitive', 'result[1] is False and result[2] is True'),
        # the mantissa is made odd by moving its factors of two into the exponent: the value is unchanged
        ('same-value-odd-mantissa', 'mant % 2 == 1 and mant > 0 and mant * X.pow2f(expn - e0) == (m0 if m0 > 0 else -m0) and expn >= e0'),
        # first octet: binary (bit 8), sign (bit 7), base 2 (bits 6-5 = 00), scale factor 0 (bits 4-3), exponent length code
        ('first-octet', 'result[0][0] == 128 + (64 if m0 < 0 else 0) + (len(eo) - 1 if len(eo) <= 3 else 3)'),
        # exponent: two's complement, as few octets as possible (one for 0 and -1)
        ('exponent-octets', 'len(eo) <= 3 ==> X.sub(result[0], 1, 1 + len(eo)) == eo'),
        ('exponent-is-minimal-twos-complement',
         '(expn == 0 or expn == -1) ==> (len(eo) == 1 and eo[0] == expn % 256)'),
        ('exponent-digits', '(expn != 0 and expn != -1 and len(X.sdigits(expn)) >= 1 and ((expn > 0) == (X.sdigits(expn)[0] < 128)) and len(X.sdigits(expn)) <= 3) ==> eo == X.sdigits(expn)'),
        ('exponent-digits-with-count', '(expn != 0 and expn != -1 and len(X.sdigits(expn)) >= 1 and ((expn > 0) == (X.sdigits(expn)[0] < 128)) and len(X.sdigits(expn)) > 3) ==> '
                                       'eo == X.cat(X.seq(len(X.sdigits(expn))), X.sdigits(expn))'),
        # ... with one more octet (00 / FF) when the leading digit would read as the other sign
        ('exponent-sign-octet', '(expn != 0 and expn != -1 and len(X.sdigits(expn)) >= 1 and ((expn > 0) != (X.sdigits(expn)[0] < 128)) and len(X.sdigits(expn)) <= 2) ==> '
                                'eo == X.cat(X.seq(0 if expn > 0 else 255), X.sdigits(expn))'),
        ('exponent-sign-octet-with-count', '(expn != 0 and expn != -1 and len(X.sdigits(expn)) >= 1 and ((expn > 0) != (X.sdigits(expn)[0] < 128)) and len(X.sdigits(expn)) > 2) ==> '
                                           'eo == X.cat(X.seq(len(X.sdigits(expn)) + 1, 0 if expn > 0 else 255), X.sdigits(expn))'),
        # mantissa: unsigned big-endian, no leading zero octet
        ('mantissa-octets', 'po == X.be256(mant) and X.sub(result[0], len(result[0]) - len(po), len(result[0])) == po')],
    hints=['X.lemma_sdigits_base()'],
    may_raise={'PyAsn1Error': True},
    note='integral mantissa, default base (binEncBase = 2); sdigits is the digit recursion of two\'s complement, cross-checked '
         'against int.to_bytes(signed=True) on sample points by pyvc.selfcheck')
CONTRACTS = CONTRACTS + [REAL_ENC]


# ---- REAL: re-basing the binary exponent to base 8 / 16 keeps the value (integral mantissa) --------------------------------------
DROP_FP = Contract(
    id='ber.encoder::RealEncoder._dropFloatingPoint[integral-mantissa]', file=F, qual='RealEncoder._dropFloatingPoint',
    properties=['C01', 'C03', 'C09'],
    params=dict(m=PInt(), encbase=POneOf(2, 8, 16), e=PInt()),
    globals={'mag': FnV(lambda ex, v: _z3.If(toint(v) < 0, -toint(v), toint(v)), 'mag')},
    requires=['m != 0'],
    loops={0: Loop(unroll=True)},
    ensures=[
        ('sign-and-base', 'result[0] == (-1 if old(m) < 0 else 1) and result[2] == encbase'),
        # X.690 8.5.7: value = mantissa x base^exponent; with base = 2^bits the binary exponent splits into
        # bits x (new exponent) + k, 0 <= k < bits, and the mantissa takes the factor 2^k -- exactly, whatever its size
        ('base-2-unchanged', 'encbase == 2 ==> (result[1] == mag(old(m)) and result[3] == old(e))'),
        ('base-8-same-value', 'encbase == 8 ==> (0 <= old(e) - 3 * result[3] and old(e) - 3 * result[3] < 3 and '
                              'result[1] == mag(old(m)) * X.pow2f(old(e) - 3 * result[3]))'),
        ('base-16-same-value', 'encbase == 16 ==> (0 <= old(e) - 4 * result[3] and old(e) - 4 * result[3] < 4 and '
                               'result[1] == mag(old(m)) * X.pow2f(old(e) - 4 * result[3]))')],
    note='integral mantissas (a float mantissa goes through the multiply-until-integral loop: outside the modelled subset)')
CONTRACTS = CONTRACTS + [DROP_FP]


# ---- ... with open type members (ANY DEFINED BY): wrapped into the field's type unless they are captured octets of it (C18) ------
R_OPEN = _z3.Function('member.hasOpenType', _I, _BoolSort())            # by component token
R_COLL = _z3.Function('member.isCollectionOfOpenType', _I, _BoolSort())
R_CHUNK_COLL = _z3.Function('collection.encoding.with.wrapType', _I, _S)
R_WRAP = _z3.Function('wrapped.in.field.type', _S, _S)


def r_member(vals, i):
    ident = vals[i]
    plain = R_CHUNK(ident)
    return _z3.If(r_present(vals, i),
                  _z3.If(R_OPEN(ident), _z3.If(R_COLL(ident), R_CHUNK_COLL(ident),
                                               _z3.If(E_SAME(ident), plain, R_WRAP(plain))), plain),
                  _z3.Empty(_S))


R_MEMBERS_O = _z3.RecFunction('encodings_of_present_members_with_open_types', _S, _I, _S)
_z3.RecAddDefinition(R_MEMBERS_O, [_rv, _ru], _z3.If(_ru <= 0, _z3.Empty(_S), _z3.Concat(R_MEMBERS_O(_rv, _ru - 1), r_member(_rv, _ru - 1))))
COLL_ELEMENT_TYPE = Obj('Any', {}, name='wrapType.componentType')


def _record_open(ex, env):
    vals = env['components']

    def getitem(ex2, self, idx):
        i = toint(idx)
        ident = vals.z[i]
        if ex2.choose(R_OPEN(ident), 'open-type-member'):
            coll = ex2.choose(R_COLL(ident), 'collection-of-open-type')
            declared = Obj('Any', {'typeId': 'setof-type-id' if coll else 'any-type-id', 'componentType': COLL_ELEMENT_TYPE,
                                   '__id__': ident}, name='wrapType')
            ot = Obj('OpenType', {}, name='openType')
        else:
            declared, ot = Obj('Default', {}, name='default'), None
        return Obj('NamedType', {'isOptional': R_OPT(i), 'isDefaulted': R_DEF(i), 'openType': ot, 'asn1Object': declared},
                   name='namedType')
    named = Obj('NamedTypes', {'__truthy__': True}, {'__getitem__': getitem}, name='namedTypes')
    return Obj('Sequence', {'isInconsistent': False, 'componentType': named},
               {'values': lambda ex2, self: _Components([vals.z], names=('__id__',))}, name='value')


def _kw(options, name):
    """the value a call passes for option `name`: explicit keyword first, then the **mapping -> (present, value)"""
    if name in options:
        return True, options[name]
    extra = options.get('**')
    if extra is not None and name in extra.entries:
        return extra.entries[name]
    return False, None


def _encode_member_open(ex, component, asn1Spec=None, **options):
    if isinstance(component, SeqV):
        # the second call: the inner value's encoding wrapped into the field's (ANY) type
        if not (isinstance(asn1Spec, Obj) and asn1Spec.name == 'wrapType'):
            raise Unsupported('octets encoded under something else than the field type')
        z = R_WRAP(component.z)
        ex.assume(inr(z))
        return SeqV(z, 'bytes')
    ident = toint(component.fields['__id__'])
    has_wrap, wrap = _kw(options, 'wrapType')
    if has_wrap is True and wrap is not None:
        ex.vc('%s#collection-elements-wrapped-into-the-element-type' % ex.c.id,
              _z3.BoolVal(isinstance(wrap, Obj) and wrap.uid == COLL_ELEMENT_TYPE.uid), kind='external')
        z = R_CHUNK_COLL(ident)
    else:
        # C18 / c8a2e76: the inner value of a (non-collection) open type member is no OPTIONAL member itself: it is encoded
        # also when it is empty, i.e. the canonical encoders' ifNotEmpty does not travel on into it
        present, val = _kw(options, 'ifNotEmpty')
        off = _z3.BoolVal(True) if present is False else (_z3.Not(present) if not isinstance(present, bool) else None)
        if present is True or not isinstance(present, bool):
            v_ = val if not isinstance(val, bool) else _z3.BoolVal(val)
            not_set = _z3.Not(v_) if not isinstance(val, bool) or val else _z3.BoolVal(True)
            off = not_set if present is True else _z3.Or(_z3.Not(present), not_set)
        ex.vc('%s#inner-value-of-an-open-type-always-encoded' % ex.c.id,
              _z3.Implies(_z3.And(R_OPEN(ident), _z3.Not(R_COLL(ident))), off), kind='external')
        z = R_CHUNK(ident)
    ex.assume(inr(z))
    return SeqV(z, 'bytes')


SEQ_ENC_OPEN = Contract(
    id='ber.encoder::SequenceEncoder.encodeValue[value-object,any-size,open-types]', file=F, qual='SequenceEncoder.encodeValue',
    properties=['C18', 'C01', 'C03'],
    params=dict(self=PObj('SequenceEncoder', omitEmptyOptionals=PBool()), components=PIntTuple(), value=PDerived(_record_open),
                asn1Spec=PConst(None), encodeFun=PConst(FnV(_encode_member_open, 'encodeFun')), options=POptions()),
    globals={'_isValueOf': FnV(lambda ex, t, component: E_SAME(toint(component.fields['__id__'])), '_isValueOf'),
             'univ': {'SetOf': {'typeId': 'setof-type-id'}, 'SequenceOf': {'typeId': 'seqof-type-id'}, '__name__': 'univ'},
             'members': FnV(lambda ex, vals, upto: SeqV(R_MEMBERS_O(vals.z if isinstance(vals, SeqV) else vals.cols[0], toint(upto)), 'bytes'),
                            'members'),
             'unfold': FnV(lambda ex, vals, i: (lambda z, k: _z3.Implies(k >= 0, R_MEMBERS_O(z, k + 1) == _z3.Concat(
                 R_MEMBERS_O(z, k), r_member(z, k))))(vals.z if isinstance(vals, SeqV) else vals.cols[0], toint(i)), 'unfold')},
    loops={0: Loop(index='i', invariant=['substrate == members(loop_seq, i)', 'isinstance(substrate, bytes)', 'X.inr(substrate)'],
                   hints=['unfold(loop_seq, i)'])},
    ensures=[
        # an open type member holds its inner value wrapped into the field's type -- unless it is a value of that type itself
        # (captured octets); a SET OF / SEQUENCE OF of open type values passes the element type on as wrapType
        ('open-type-members-wrapped-unless-captured', 'result[0] == members(components, len(components))'),
        ('constructed', 'result[1] is True and result[2] is True')],
    note='_isValueOf (contract) and the uses of encodeFun are call reductions / assumed models; per-member flags are symbolic')
CONTRACTS = CONTRACTS + [SEQ_ENC_OPEN]


# ---- "this Python value encodes like the DEFAULT" (asn1Spec path): a SET OF default compares as a multiset (C17) -------------------
def _ead_params(n_members, setof):
    import z3 as _z
    from pyvc.core import SeqV as _SeqV, S as _S
    chunk = lambda nm: _SeqV(_z.Const(nm, _S), 'bytes')
    cs = [Obj('pyvalue', {'chunk': chunk('chunk.c%d' % i)}, name='c%d' % i) for i in range(n_members)]
    ds = [Obj('Asn1Value', {'chunk': chunk('chunk.d%d' % i)}, name='d%d' % i) for i in range(n_members)]
    whole_c, whole_d = chunk('chunk.component'), chunk('chunk.default')
    elem_type = Obj('Asn1Type', {}, name='componentType')
    default = Obj('SetOf' if setof else 'Sequence', {'componentType': elem_type, 'chunk': whole_d},
                  {'__iter__': lambda ex, self_: Tup(list(ds), 'list')}, bases=(('SetOf',) if setof else ()), name='defaultValue')
    component = Tup(list(cs), 'list')

    def encode_fun(ex, value, asn1Spec=None, **options):
        named = lambda o, nm: isinstance(o, Obj) and o.name == nm
        if isinstance(value, Tup):
            if not named(asn1Spec, 'defaultValue'):
                raise Unsupported('the whole component encoded under something other than the default\'s type')
            return whole_c
        if named(value, 'defaultValue'):
            return whole_d
        if isinstance(value, Obj) and value.name in ('c0', 'c1'):
            if not named(asn1Spec, 'componentType'):
                ex.ghost['member_type_ok'] = False
            return value.fields['chunk']
        if isinstance(value, Obj) and value.name in ('d0', 'd1'):
            return value.fields['chunk']
        raise Unsupported('encodeFun(%r)' % (value,))
    g = {'c%d' % i: cs[i].fields['chunk'] for i in range(n_members)}
    g.update({'d%d' % i: ds[i].fields['chunk'] for i in range(n_members)})
    g.update({'whole_c': whole_c, 'whole_d': whole_d, 'univ': {'SetOf': __import__('pyvc.core', fromlist=['ClassV']).ClassV('SetOf'),
                                                              '__name__': 'univ'}})
    return dict(component=PConst(component), defaultValue=PConst(default), encodeFun=PConst(FnV(encode_fun, 'encodeFun')),
                options=PConst(__import__('pyvc.core', fromlist=['DictV']).DictV({}))), g


_p2, _g2 = _ead_params(2, True)
ENCODES_AS_DEFAULT_SETOF = Contract(
    id='ber.encoder::SequenceEncoder._encodesAsDefault[set-of,2-members]', file=F, qual='SequenceEncoder._encodesAsDefault',
    properties=['C17'], params=_p2, globals=_g2, ghost={'member_type_ok': True},
    ensures=[('multiset-of-member-encodings', 'result == ((c0 == d0 and c1 == d1) or (c0 == d1 and c1 == d0))'),
             ('members-encoded-under-the-element-type', 'member_type_ok')],
    note='encodeFun is a model (one opaque octet string per member); byte strings are totally ordered (A-BUILTIN of sort)')
ENCODES_AS_DEFAULT_SETOF.bounded = 'a SET OF default of two members against a Python list of two'
_p1, _g1 = _ead_params(2, False)
ENCODES_AS_DEFAULT_OTHER = Contract(
    id='ber.encoder::SequenceEncoder._encodesAsDefault[not-a-set-of]', file=F, qual='SequenceEncoder._encodesAsDefault',
    properties=['C17'], params=_p1, globals=_g1, ghost={'member_type_ok': True},
    ensures=[('whole-encodings-compared', 'result == (whole_c == whole_d)')],
    note='any other default: the component encoded under the default\'s type against the encoding of the default')
CONTRACTS = CONTRACTS + [ENCODES_AS_DEFAULT_SETOF, ENCODES_AS_DEFAULT_OTHER]
