"""Contracts on pyasn1/codec/ber/encoder.py (framing: identifier octets, length octets, EOO)."""
from pyvc.core import (Contract, Loop, PInt, PBool, PTup, PObj, PConst, POpt, POneOf, POptions, PBytes, PIntTuple,
                       PRecSeq, PSeqKindBy, PDerived, CallContract, module_int_consts, Obj, FnV, SeqV, Tup, ExcV, _Raise,
                       mk_seq, Length, inr, class_consts, lit_seq)

F = 'pyasn1/codec/ber/encoder.py'
TAG = module_int_consts('pyasn1/type/tag.py')   # tagClassUniversal ... tagFormatConstructed, read from the AST

VALID_TAG = ['singleTag[0] == 0 or singleTag[0] == 64 or singleTag[0] == 128 or singleTag[0] == 192',
             'singleTag[1] == 0 or singleTag[1] == 32', 'singleTag[2] >= 0']

ENCODE_TAG = Contract(
        id='ber.encoder::AbstractItemEncoder.encodeTag', file=F, qual='AbstractItemEncoder.encodeTag',
        properties=['C01', 'C03', 'C13'],
        params=dict(self=PObj('AbstractItemEncoder'), singleTag=PTup(PInt(), PInt(), PInt()), isConstructed=PBool()),
        requires=VALID_TAG,
        ensures=[('ident', 'result == X.ident(old(singleTag[0]), 32 if (isConstructed or old(singleTag[1]) == 32) else 0,'
                           ' old(singleTag[2]))'),
                 ('octets', 'X.inr(result)'),
                 ('is-tuple', 'isinstance(result, tuple)')],
        loops={0: Loop(invariant=['tagId >= 0',
                                  'X.b128(old(singleTag[2])) == X.cat(X.b128hi(tagId), substrate)',
                                  'isinstance(substrate, tuple)', 'X.inr(substrate)'],
                       variant='tagId')},
        external=['ident', 'octets'], returns=PIntTuple(),
    )
ENCODE_LENGTH = Contract(
        id='ber.encoder::AbstractItemEncoder.encodeLength', file=F, qual='AbstractItemEncoder.encodeLength',
        properties=['C01', 'C03', 'C07'],
        params=dict(self=PObj('AbstractItemEncoder', supportIndefLenMode=PBool()), length=PInt(), defMode=PBool()),
        requires=['length >= 0'],
        ensures=[('indef', '(not defMode and self.supportIndefLenMode) ==> result == (0x80,)'),
                 ('definite-minimal', '(defMode or not self.supportIndefLenMode) ==> result == X.length_def(old(length))'),
                 ('octets', 'X.inr(result)')],
        raises={'PyAsn1Error': '(defMode or not self.supportIndefLenMode) and len(X.be256(length)) > 126'},
        loops={0: Loop(invariant=['length >= 0', 'X.be256(old(length)) == X.cat(X.be256(length), substrate)',
                                  'isinstance(substrate, tuple)', 'X.inr(substrate)'],
                       variant='length')},
        external=['indef', 'definite-minimal', 'octets'], returns=PIntTuple(),
    )


def encode_value_model(ex, value, asn1Spec, encodeFun, **options):
    """Assumed contract of the codec's encodeValue (abstract method; each concrete encodeValue is under its
    own contract): returns (substrate, isConstructed, isOctets); substrate is bytes if isOctets else a tuple
    of ints in range(256); a codec that does not support indefinite length never returns constructed
    content, and constructed content is always octets (class invariant valid(codec), an obligation on each
    concrete encodeValue); may raise PyAsn1Error."""
    from z3 import Bool, Const, Not, Implies
    from pyvc.core import S, truthy
    if ex.choose(ex.fresh('encodeValue.raises', Bool('x').sort()), 'encodeValue-raises'):
        raise _Raise(ExcV('PyAsn1Error'))
    isC = ex.fresh('ev.isConstructed', Bool('x').sort())
    isO = ex.fresh('ev.isOctets', Bool('x').sort())
    sup = truthy(ex.env['self'].fields['supportIndefLenMode'])
    ex.assume(Implies(Not(sup), Not(isC)))
    ex.assume(Implies(isC, isO))      # constructed content is always assembled from encoded octets
    z = ex.fresh('ev.content', S)
    if ex.choose(isO, 'isOctets'):
        sub = SeqV(z, 'bytes')
        ex.assume(inr(z))
    else:
        sub = SeqV(z, 'tuple')
        ex.assume(inr(z))
    return Tup([sub, isC, isO])


_AIE = class_consts(F, 'AbstractItemEncoder')     # eooIntegerSubstrate = (0, 0) is read from the real class body
EOO_T = lit_seq(_AIE['eooIntegerSubstrate'], 'tuple')
assert _AIE['eooOctetsSubstrate'] == ('expr', 'ints2octs(eooIntegerSubstrate)'), _AIE
EOO_B = lit_seq(bytes(_AIE['eooIntegerSubstrate']), 'bytes')

ENCODE = Contract(
    id='ber.encoder::AbstractItemEncoder.encode', file=F, qual='AbstractItemEncoder.encode',
    properties=['C01', 'C03', 'C07', 'C13'],
    params=dict(self=PObj('AbstractItemEncoder', supportIndefLenMode=PBool(), eooIntegerSubstrate=PConst(EOO_T),
                          eooOctetsSubstrate=PConst(EOO_B)),
                superTags=PRecSeq(3),
                value=PDerived(lambda ex, env: Obj('Asn1Item', {'tagSet': Obj('TagSet', {
                    'superTags': env['superTags'], '__truthy__': Length(env['superTags'].cols[0]) > 0})})),
                asn1Spec=PConst(None), encodeFun=PConst(None),
                options=POptions(defMode=PBool(), ifNotEmpty=PBool())),
    # `value` is built from superTags (value.tagSet.superTags; truthiness of a TagSet = it has tags)
    requires=['X.all_tags_valid(superTags)'],
    calls={'self.encodeTag': CallContract(ENCODE_TAG), 'self.encodeLength': CallContract(ENCODE_LENGTH),
           'self.encodeValue': encode_value_model},
    loops={0: Loop(index='idx',
                   decl={'isConstructed': PBool(), 'isOctets': PBool(), 'substrate': PSeqKindBy('isOctets'),
                         'defModeOverride': PBool()},
                   invariant=['idx >= 1 ==> X.inr(substrate)'],
                   iter_ensures=[
                       # C01/C07: end-of-octets is appended exactly when the header just written is indefinite,
                       # and the element is <identifier><length><previous content>[EOO]
                       'idx == 0 ==> substrate == X.cat(last_result("self.encodeTag"), '
                       'last_result("self.encodeLength"), last_result("self.encodeValue")[0], '
                       '(X.seq(0, 0) if last_result("self.encodeLength") == (0x80,) else X.empty()))',
                       'idx > 0 ==> substrate == X.cat(last_result("self.encodeTag"), '
                       'last_result("self.encodeLength"), iter_old(substrate), '
                       '(X.seq(0, 0) if last_result("self.encodeLength") == (0x80,) else X.empty()))',
                       # C13: one header per tag, constructed bit for wrappers and constructed content only
                       'last_result("self.encodeTag") == X.ident(singleTag[0], '
                       '32 if (isConstructed or singleTag[1] == 32) else 0, singleTag[2])',
                       # C03 (CER form rule): in indefinite mode every constructed level is indefinite,
                       # every primitive level definite
                       '(not options.get("defMode", True) and (idx > 0 or isConstructed)) ==> '
                       'last_result("self.encodeLength") == (0x80,)',
                       '(options.get("defMode", True) or (idx == 0 and not isConstructed)) ==> '
                       'last_result("self.encodeLength") == X.length_def(last_args("self.encodeLength")[0])',
                   ])},
    ensures=[('is-bytes', 'len(superTags) > 0 ==> isinstance(result, bytes)')],
    may_raise={'PyAsn1Error': True},
    external=['is-bytes'],
)

CONTRACTS = [ENCODE_TAG, ENCODE_LENGTH, ENCODE]

