"""Contracts on pyasn1/codec/ber/encoder.py (framing: identifier octets, length octets, EOO)."""
from pyvc.core import (Contract, Loop, PInt, PBool, PTup, PObj, PConst, POpt, POneOf, POptions, PBytes, PIntTuple,
                       module_int_consts, Obj, FnV)

F = 'pyasn1/codec/ber/encoder.py'
TAG = module_int_consts('pyasn1/type/tag.py')   # tagClassUniversal ... tagFormatConstructed, read from the AST

VALID_TAG = ['singleTag[0] == 0 or singleTag[0] == 64 or singleTag[0] == 128 or singleTag[0] == 192',
             'singleTag[1] == 0 or singleTag[1] == 32', 'singleTag[2] >= 0']

CONTRACTS = [
    Contract(
        id='ber.encoder::AbstractItemEncoder.encodeTag', file=F, qual='AbstractItemEncoder.encodeTag',
        properties=['C01', 'C03', 'C13'],
        params=dict(self=PObj('AbstractItemEncoder'), singleTag=PTup(PInt(), PInt(), PInt()), isConstructed=PBool()),
        requires=VALID_TAG,
        ensures=[('ident', 'result == X.ident(old(singleTag[0]), 32 if (isConstructed or old(singleTag[1]) == 32) else 0,'
                           ' old(singleTag[2]))'),
                 ('octets', 'X.inr(result)'),
                 ('is-tuple', 'isinstance(result, tuple)')],
        loops={0: Loop(invariant=['tagId >= 0',
                                  'X.b128(old(singleTag[2])) == X.cat(X.b128hi(tagId), substrate)',
                                  'isinstance(substrate, tuple)', 'X.inr(substrate)'],
                       variant='tagId')},
        external=['ident', 'octets'],
    ),
    Contract(
        id='ber.encoder::AbstractItemEncoder.encodeLength', file=F, qual='AbstractItemEncoder.encodeLength',
        properties=['C01', 'C03', 'C07'],
        params=dict(self=PObj('AbstractItemEncoder', supportIndefLenMode=PBool()), length=PInt(), defMode=PBool()),
        requires=['length >= 0'],
        ensures=[('indef', '(not defMode and self.supportIndefLenMode) ==> result == (0x80,)'),
                 ('definite-minimal', '(defMode or not self.supportIndefLenMode) ==> result == X.length_def(old(length))'),
                 ('octets', 'X.inr(result)')],
        raises={'PyAsn1Error': '(defMode or not self.supportIndefLenMode) and len(X.be256(length)) > 126'},
        loops={0: Loop(invariant=['length >= 0', 'X.be256(old(length)) == X.cat(X.be256(length), substrate)',
                                  'isinstance(substrate, tuple)', 'X.inr(substrate)'],
                       variant='length')},
        external=['indef', 'definite-minimal', 'octets'],
    ),
]
