"""Contracts on the list protocol of SEQUENCE OF / SET OF objects (pyasn1/type/univ.py SequenceOfAndSetOfBase): the object
against an abstract view (C19).

Representation: `_componentValues` is the schema sentinel noValue or a python dict position -> component.  The dict is
modelled with symbolic integer keys: `present` (characteristic function of the key set), `ids` (identity token of the
value stored under each key) and `count` (number of keys).  The abstract view of a value object is the finite map
position -> identity; for a *dense* one (keys exactly 0..L-1, which every history of well-formed list operations
maintains -- proved below as preservation of `dense`) that is a python list of length L."""
import z3
from z3 import And, Or, Not, Implies, ForAll, Select, Store, IntVal, If

from pyvc.core import (Contract, PInt, PBool, PConst, PObj, POneOf, PDerived, Obj, Tup, FnV, ExcV, _Raise, ClassV, NOVALUE,
                       BoolSort, I, toint, concrete, Unsupported)

U = 'pyasn1/type/univ.py'
IntSet = z3.ArraySort(I, BoolSort())
IntMap = z3.ArraySort(I, I)
_k = z3.Int('k!q')
IS_VALUE_OF = z3.Function('isValueOf', I, BoolSort())     # .isValue of the object with a given identity token


def idof(v):
    if isinstance(v, Obj):
        return toint(v.fields['__id__']) if '__id__' in v.fields else IntVal(v.uid)
    raise Unsupported('identity token of %r' % (v,))


def element(ident):
    """the object stored under a key: known only by its identity token"""
    return Obj('Asn1Item', {'__id__': ident, 'isValue': IS_VALUE_OF(ident)}, bases=('Asn1Item',), name='element')


def wf(present, count):
    """what a python dict guarantees about its own key set and len(): assumed for every symbolic dict"""
    return And(count >= 0, (count == 0) == ForAll([_k], Not(Select(present, _k))))


def sym_dict(present, ids, count, name='componentValues'):
    def getitem(ex, self, k):
        k = toint(k)
        if not ex.choose(Select(self.fields['present'], k), 'key-present'):
            raise _Raise(ExcV('KeyError'))
        return element(Select(self.fields['ids'], k))

    def get(ex, self, k, default=None):
        k = toint(k)
        if ex.choose(Select(self.fields['present'], k), 'key-present'):
            return element(Select(self.fields['ids'], k))
        return default

    def setitem(ex, self, k, v):
        k = toint(k)
        was = Select(self.fields['present'], k)
        self.fields['count'] = self.fields['count'] + If(was, 0, 1)
        self.fields['present'] = Store(self.fields['present'], k, True)
        self.fields['ids'] = Store(self.fields['ids'], k, idof(v))

    def contains(ex, self, k):
        return Select(self.fields['present'], toint(k))

    def max_(ex, self):
        if not ex.choose(self.fields['count'] > 0, 'dict-non-empty'):
            raise _Raise(ExcV('ValueError'))
        m = ex.fresh('maxkey', I)
        p = self.fields['present']
        ex.assume(And(Select(p, m), ForAll([_k], Implies(Select(p, _k), _k <= m))))
        return m
    o = Obj('dict', {'present': present, 'ids': ids, 'count': count},
            {'__getitem__': getitem, 'get': get, '__setitem__': setitem, '__contains__': contains, '__max__': max_,
             '__len__': lambda ex, self: self.fields['count']}, name=name)
    o.methods['__bool__'] = lambda ex, self: self.fields['count'] > 0      # truthiness follows the current count
    return o


def empty_dict(ex):
    return sym_dict(z3.K(I, False), z3.K(I, IntVal(0)), IntVal(0), name='{}')


P0 = z3.Const('present0', IntSet)
ID0 = z3.Const('ids0', IntMap)
C0 = z3.Int('count0')
L0 = z3.Int('L0')
IS_SCHEMA = z3.Bool('self.isSchema')
DENSE0 = And(L0 >= 0, C0 == L0, ForAll([_k], Select(P0, _k) == And(_k >= 0, _k < L0)))


def dense(present, count, length):
    return And(length >= 0, count == length, ForAll([_k], Select(present, _k) == And(_k >= 0, _k < length)))


def _component_type(ex, env):
    """the declared component type (None = untyped collection): clone() gives a fresh object"""
    if ex.choose(z3.Bool('hasComponentType'), 'typed'):
        def clone(ex2, self, *a, **kw):
            return Obj('Asn1Item', {'isValue': bool(a or kw), 'clonedFrom': self, 'pyValue': (a or [kw.get('value')])[0]},
                       bases=('Asn1Item', 'SimpleAsn1Type') if ex2.choose(z3.Bool('componentTypeIsSimple'), 'simple') else ('Asn1Item',),
                       name='componentType.clone()')

        def checker(ex2, self, value, *a, **kw):
            return ex2.fresh('subtype.ok', BoolSort())
        bases = ('Asn1Item', 'SimpleAsn1Type') if ex.choose(z3.Bool('componentTypeIsSimple'), 'simple-type') else ('Asn1Item',)
        return Obj('Asn1Item', {'typeId': 'component-type-id'}, {'clone': clone, 'isSameTypeWith': checker,
                                                                  'isSuperTypeOf': checker}, bases=bases, name='componentType')
    return None


def _self(with_len=True):
    def make(ex, env):
        if ex.choose(IS_SCHEMA, 'schema-object'):
            cv = NOVALUE
        else:
            cv = sym_dict(P0, ID0, C0)
            ex.assume(wf(P0, C0))

        def length(ex2, self):
            """callee contract type.univ::SequenceOfAndSetOfBase.__len__ (proved below): 0 for a schema object or an
            empty one, else largest position + 1"""
            cv2 = self.fields['_componentValues']
            if cv2 is NOVALUE:
                return IntVal(0)
            n = ex2.fresh('len', I)
            p = cv2.fields['present']
            ex2.assume(And(n >= 0, ForAll([_k], Implies(Select(p, _k), _k < n)),
                           Or(And(n == 0, cv2.fields['count'] == 0), Select(p, n - 1))))
            return n
        methods = {'__len__': length} if with_len else {}
        return Obj('SequenceOf', {'_componentValues': cv, 'componentType': env['componentType'],
                                  'strictConstraints': z3.Bool('strictConstraints')}, methods, name='self')
    return make


def _on_dict(f):
    """clauses about the dict are false for the schema sentinel"""
    def g(ex, d, *a):
        if not (isinstance(d, Obj) and 'present' in d.fields):
            return False
        return f(ex, d, *a)
    return g


G = {'noValue': NOVALUE, 'schema': IS_SCHEMA, 'P0': P0, 'ID0': ID0, 'C0': C0, 'L0': L0,
     'base': {'Asn1Item': ClassV('Asn1Item'), 'SimpleAsn1Type': ClassV('SimpleAsn1Type'), '__name__': 'base'},
     'Any': {'typeId': 'any-type-id', '__name__': 'Any'},
     'idof': FnV(lambda ex, v: idof(v), 'idof'),
     'dense': FnV(_on_dict(lambda ex, d, n: dense(d.fields['present'], d.fields['count'], toint(n))), 'dense'),
     'dense0': DENSE0,
     'stored_at': FnV(_on_dict(lambda ex, d, k, v: And(Select(d.fields['present'], toint(k)),
                                              Select(d.fields['ids'], toint(k)) == idof(v))), 'stored_at'),
     'others_kept': FnV(_on_dict(lambda ex, d, k: And(
         ForAll([_k], Implies(_k != toint(k), And(Select(d.fields['present'], _k) == Select(P0, _k),
                                                  Implies(Select(P0, _k), Select(d.fields['ids'], _k) == Select(ID0, _k))))))),
         'others_kept'),
     'only_key': FnV(_on_dict(lambda ex, d, k: ForAll([_k], Select(d.fields['present'], _k) == (_k == toint(k)))), 'only_key'),
     'unchanged': FnV(_on_dict(lambda ex, d: And(d.fields['present'] == P0, d.fields['ids'] == ID0, d.fields['count'] == C0)), 'unchanged')}


def contract(**kw):
    c = Contract(file=U, **kw)
    c.empty_dict = empty_dict
    return c


# ---- __len__ ---------------------------------------------------------------------------------------------------------------
LEN = contract(
    id='type.univ::SequenceOfAndSetOfBase.__len__', qual='SequenceOfAndSetOfBase.__len__', properties=['C19'],
    params=dict(componentType=PConst(None), self=PDerived(_self(with_len=False))), globals=G,
    ensures=[('schema-has-no-members', 'schema ==> result == 0'),
             ('length-of-a-list', '(not schema and dense0) ==> result == L0'),
             # in general (also for a sparse object): one more than the largest position in use
             ('largest-position-plus-one', '(not schema and C0 > 0) ==> (result - 1 in self._componentValues and '
                                           'result not in self._componentValues)'),
             ('read-only', 'schema or unchanged(self._componentValues)')],
    note='the dict is a python dict with symbolic integer keys (its own guarantees -- len() counts the keys, max() is '
         'the largest key -- are the model)')

# ---- clear / reset ---------------------------------------------------------------------------------------------------------
CLEAR = contract(
    id='type.univ::SequenceOfAndSetOfBase.clear', qual='SequenceOfAndSetOfBase.clear', properties=['C19'],
    params=dict(componentType=PConst(None), self=PDerived(_self())), globals=G,
    ensures=[('empty-value-object', 'self._componentValues is not noValue and dense(self._componentValues, 0)'),
             ('returns-self', 'result is self')])
RESET = contract(
    id='type.univ::SequenceOfAndSetOfBase.reset', qual='SequenceOfAndSetOfBase.reset', properties=['C19'],
    params=dict(componentType=PConst(None), self=PDerived(_self())), globals=G,
    ensures=[('schema-object', 'self._componentValues is noValue'), ('returns-self', 'result is self')])

# ---- setComponentByPosition (position given as an int; a value object given) -------------------------------------------------
NEW_VALUE = Obj('Asn1Item', {'isValue': True}, bases=('Asn1Item',), name='value')
SETPOS = contract(
    id='type.univ::SequenceOfAndSetOfBase.setComponentByPosition[value-object]',
    qual='SequenceOfAndSetOfBase.setComponentByPosition', properties=['C19', 'C04', 'C14'],
    params=dict(componentType=PDerived(_component_type), self=PDerived(_self()), idx=PInt(), value=PConst(NEW_VALUE),
                verifyConstraints=PBool(), matchTags=PBool(), matchConstraints=PBool()),
    globals=dict(G, value=NEW_VALUE, slice=ClassV('slice')),
    requires=['idx >= 0'],
    ensures=[('becomes-a-value-object', 'self._componentValues is not noValue'),
             ('stored-at-the-position', 'stored_at(self._componentValues, idx, value)'),
             # frame: every other position keeps what it had (a schema object had nothing)
             ('other-positions-untouched', '(not schema) ==> others_kept(self._componentValues, idx)'),
             ('first-member-of-a-schema-object', 'schema ==> only_key(self._componentValues, idx)'),
             # list view: overwriting a member or adding one right after the last keeps the object a list
             ('stays-a-list', '(not schema and dense0 and idx <= L0) ==> '
                              'dense(self._componentValues, L0 + 1 if idx == L0 else L0)'),
             ('schema-becomes-a-one-element-list', '(schema and idx == 0) ==> dense(self._componentValues, 1)'),
             ('returns-self', 'result is self')],
    # a refused assignment changes nothing
    raise_ensures={'PyAsn1Error': ['schema ==> self._componentValues is noValue',
                                   '(not schema) ==> unchanged(self._componentValues)']},
    may_raise={'PyAsn1Error': True},
    note='componentType.clone / isSameTypeWith / isSuperTypeOf are assumed models (any answer)')

CONTRACTS = [LEN, CLEAR, RESET, SETPOS]

# ... a negative position counts from the end, as for a python list
SETPOS_NEG = contract(
    id='type.univ::SequenceOfAndSetOfBase.setComponentByPosition[negative-position]',
    qual='SequenceOfAndSetOfBase.setComponentByPosition', properties=['C19'],
    params=dict(SETPOS.params), globals=dict(SETPOS.globals),
    requires=['idx < 0', 'schema or dense0'],
    ensures=[('counts-from-the-end', 'stored_at(self._componentValues, L0 + old(idx), value)'),
             ('other-positions-untouched', 'others_kept(self._componentValues, L0 + old(idx))'),
             ('stays-a-list', 'dense(self._componentValues, L0)'),
             ('only-within-the-list', 'not schema and L0 + old(idx) >= 0')],
    raise_ensures={'PyAsn1Error': ['schema ==> self._componentValues is noValue',
                                   '(not schema) ==> unchanged(self._componentValues)']},
    may_raise={'PyAsn1Error': True},
    note='len(self) is the callee contract type.univ::SequenceOfAndSetOfBase.__len__')


# ---- getComponentByPosition: reads of existing members change nothing ----------------------------------------------------------
def _self_with_set(ex, env):
    o = _self()(ex, env)

    def set_pos(ex2, self, idx, value=NOVALUE, *a, **kw):
        """callee contract type.univ::SequenceOfAndSetOfBase.setComponentByPosition (proved above) for value=noValue:
        a fresh placeholder of the component type is stored at the position, or PyAsn1Error and nothing changes"""
        if ex2.choose(ex2.fresh('instantiate.refused', BoolSort()), 'placeholder-refused'):
            raise _Raise(ExcV('PyAsn1Error'))
        ph = Obj('Asn1Item', {'isValue': False}, bases=('Asn1Item',), name='placeholder')
        cv = self.fields['_componentValues']
        if cv is NOVALUE:
            cv = empty_dict(ex2)
            self.fields['_componentValues'] = cv
        cv.methods['__setitem__'](ex2, cv, idx, ph)
        self.fields['instantiated'] = ph
        return self
    o.methods['setComponentByPosition'] = set_pos
    o.fields['instantiated'] = None
    return o


DEFAULT = Obj('object', {}, name='default')
GETPOS = contract(
    id='type.univ::SequenceOfAndSetOfBase.getComponentByPosition', qual='SequenceOfAndSetOfBase.getComponentByPosition',
    properties=['C19', 'C12'],
    params=dict(componentType=PConst(None), self=PDerived(_self_with_set), idx=PInt(),
                default=POneOf(NOVALUE, DEFAULT), instantiate=PBool()),
    globals=dict(G, slice=ClassV('slice'), present0=FnV(lambda ex, k: Select(P0, toint(k)), 'present0'),
                 id0=FnV(lambda ex, k: Select(ID0, toint(k)), 'id0'), isValueOf=FnV(lambda ex, i: IS_VALUE_OF(toint(i)), 'isValueOf'),
                 theDefault=DEFAULT),
    requires=['idx >= 0'],
    ensures=[
        # an existing member is handed out as it is and nothing changes ("reads never change the object")
        ('existing-member-read-only', '(not schema and present0(idx)) ==> unchanged(self._componentValues)'),
        ('existing-member-returned', '(not schema and present0(idx) and (default is noValue or isValueOf(id0(idx)))) ==> '
                                     'idof(result) == id0(idx)'),
        ('default-instead-of-a-valueless-member', '(not schema and present0(idx) and default is not noValue and '
                                                  'not isValueOf(id0(idx))) ==> result is theDefault'),
        # a missing member: the default and no change, unless the caller asked for a placeholder
        ('missing-without-instantiate', '((schema or not present0(idx)) and not instantiate) ==> '
                                        '(result is default and (schema and self._componentValues is noValue or '
                                        'unchanged(self._componentValues)))'),
        ('missing-with-instantiate', '((schema or not present0(idx)) and instantiate) ==> '
                                     '(stored_at(self._componentValues, idx, self.instantiated) and '
                                     '(schema or others_kept(self._componentValues, idx)))')],
    may_raise={'PyAsn1Error': True},
    note='setComponentByPosition(idx) is the callee contract proved above')

CONTRACTS = CONTRACTS + [SETPOS_NEG, GETPOS]


# ---- __setitem__ / __getitem__: the same, with library errors turned into IndexError -------------------------------------------
def _self_with_pos_methods(ex, env):
    o = _self()(ex, env)

    def set_pos(ex2, self, idx, value=NOVALUE, *a, **kw):
        """callee contract setComponentByPosition[value-object]: stored at the position, everything else kept; or
        PyAsn1Error and nothing changes"""
        if ex2.choose(ex2.fresh('set.refused', BoolSort()), 'assignment-refused'):
            raise _Raise(ExcV('PyAsn1Error'))
        cv = self.fields['_componentValues']
        if cv is NOVALUE:
            cv = empty_dict(ex2)
            self.fields['_componentValues'] = cv
        cv.methods['__setitem__'](ex2, cv, idx, value)
        return self

    def get_pos(ex2, self, idx, *a, **kw):
        """callee contract getComponentByPosition: some object or PyAsn1Error"""
        if ex2.choose(ex2.fresh('get.refused', BoolSort()), 'lookup-refused'):
            raise _Raise(ExcV('PyAsn1Error'))
        r = Obj('Asn1Item', {}, bases=('Asn1Item',), name='member')
        self.fields['handedOut'] = r
        return r
    o.methods['setComponentByPosition'] = set_pos
    o.methods['getComponentByPosition'] = get_pos
    o.fields['handedOut'] = None
    return o


_SYS = {'exc_info': FnV(lambda ex: Tup([None, ex.cur_exc, None]), 'sys.exc_info'), '__name__': 'sys'}
SETITEM = contract(
    id='type.univ::SequenceOfAndSetOfBase.__setitem__', qual='SequenceOfAndSetOfBase.__setitem__', properties=['C19'],
    params=dict(componentType=PConst(None), self=PDerived(_self_with_pos_methods), idx=PInt(), value=PConst(NEW_VALUE)),
    globals=dict(G, value=NEW_VALUE, sys=_SYS, IndexError=ClassV('IndexError')),
    ensures=[('stored', 'stored_at(self._componentValues, idx, value)'),
             ('other-positions-untouched', '(not schema) ==> others_kept(self._componentValues, idx)')],
    # ill-formed operation: a lookup error and no change
    raise_ensures={'IndexError': ['schema ==> self._componentValues is noValue',
                                  '(not schema) ==> unchanged(self._componentValues)']},
    may_raise={'IndexError': True})
GETITEM = contract(
    id='type.univ::SequenceOfAndSetOfBase.__getitem__', qual='SequenceOfAndSetOfBase.__getitem__', properties=['C19'],
    params=dict(componentType=PConst(None), self=PDerived(_self_with_pos_methods), idx=PInt()),
    globals=dict(G, sys=_SYS, IndexError=ClassV('IndexError')),
    ensures=[('what-the-lookup-found', 'result is self.handedOut')],
    raise_ensures={'IndexError': ['schema or unchanged(self._componentValues)']},
    may_raise={'IndexError': True})


# ---- append: one more member at the end --------------------------------------------------------------------------------------
def _self_with_setitem(ex, env):
    o = _self()(ex, env)

    def setitem(ex2, self, idx, value):
        """callee contract __setitem__ (proved above)"""
        if ex2.choose(ex2.fresh('set.refused', BoolSort()), 'assignment-refused'):
            raise _Raise(ExcV('IndexError'))
        cv = self.fields['_componentValues']
        if cv is NOVALUE:
            cv = empty_dict(ex2)
            self.fields['_componentValues'] = cv
        cv.methods['__setitem__'](ex2, cv, idx, value)
    o.methods['__setitem__'] = setitem
    return o


APPEND = contract(
    id='type.univ::SequenceOfAndSetOfBase.append', qual='SequenceOfAndSetOfBase.append', properties=['C19', 'C04'],
    params=dict(componentType=PConst(None), self=PDerived(_self_with_setitem), value=PConst(NEW_VALUE)),
    globals=dict(G, value=NEW_VALUE),
    requires=['schema or dense0'],
    ensures=[('one-more-at-the-end', 'stored_at(self._componentValues, 0 if schema else L0, value) and '
                                     'dense(self._componentValues, 1 if schema else L0 + 1)'),
             ('members-before-it-untouched', '(not schema) ==> others_kept(self._componentValues, L0)')],
    raise_ensures={'IndexError': ['schema ==> self._componentValues is noValue',
                                  '(not schema) ==> unchanged(self._componentValues)']},
    may_raise={'IndexError': True},
    note='for an object that is a list (positions 0..L-1); on a sparse object (positions assigned out of order, outside '
         'the list protocol) append writes at the number of members, see DESIGN')
CONTRACTS = CONTRACTS + [SETITEM, GETITEM, APPEND]


# ---- isValue: a value object all of whose members are values -----------------------------------------------------------------
from pyvc.core import RecSeqV, Loop, S, SeqV
KEY_OF = z3.Function('keyOfListed', I, I)
POS_OF = z3.Function('listedAt', I, I)
NOV = IntVal(NOVALUE.uid)
_i = z3.Int('i!q')


class ElemSeq(RecSeqV):
    """dict.values() of a symbolic dict: a sequence of identity tokens; elements are the stored objects"""

    def elem(self, i):
        return element(self.cols[0][i])


def good(ident):
    return And(ident != NOV, IS_VALUE_OF(ident))


def _values(ex, self):
    """dict.values() (assumed, python): one entry per key -- every listed value is stored under some key and the value of
    every key is listed"""
    vals = ex.fresh('values', S)
    p, ids, n = self.fields['present'], self.fields['ids'], self.fields['count']
    ex.assume(And(z3.Length(vals) == n,
                  ForAll([_i], Implies(And(_i >= 0, _i < n), And(Select(p, KEY_OF(_i)), Select(ids, KEY_OF(_i)) == vals[_i]))),
                  ForAll([_k], Implies(Select(p, _k), And(POS_OF(_k) >= 0, POS_OF(_k) < n, vals[POS_OF(_k)] == Select(ids, _k))))))
    return ElemSeq([vals], names=('__id__',))


def _self_iterable(ex, env):
    o = _self()(ex, env)
    cv = o.fields['_componentValues']
    if cv is not NOVALUE:
        cv.methods['values'] = _values
    return o


ISVALUE = contract(
    id='type.univ::SequenceOfAndSetOfBase.isValue', qual='SequenceOfAndSetOfBase.isValue', prop='getter', properties=['C19', 'C10'],
    params=dict(componentType=PConst(None), self=PDerived(_self_iterable)),
    globals=dict(G, all_good=FnV(lambda ex, vals, upto: ForAll([_i], Implies(And(_i >= 0, _i < toint(upto)), good(vals.cols[0][_i]))),
                                 'all_good'),
                 members_are_values=ForAll([_k], Implies(Select(P0, _k), good(Select(ID0, _k)))),
                 a_member_is_not=z3.Exists([_k], And(Select(P0, _k), Not(good(Select(ID0, _k)))))),
    loops={0: Loop(index='i', invariant=['all_good(loop_seq, i)'])},
    ensures=[('schema-is-not-a-value', 'schema ==> result is False'),
             ('value-iff-every-member-is', '(not schema and dense0) ==> result == members_are_values'),
             ('true-only-if-every-member-is', '(result is True or result == True) ==> (not schema and members_are_values)'),
             ('read-only', 'schema or unchanged(self._componentValues)')],
    note='dict.values() is an assumed model; len(self) is the callee contract __len__')
CONTRACTS = CONTRACTS + [ISVALUE]


# ---- _cloneComponentValues: the clone gets a copy of every member at the same position, and nothing else --------------------
IS_CONSTRUCTED_OF = z3.Function('isConstructedOf', I, BoolSort())


class ItemSeq(RecSeqV):
    """dict.items() of a symbolic dict: (key, stored object) pairs"""

    def elem(self, i):
        ident = self.cols[1][i]
        e = element(ident)
        e.methods['__isinstance__'] = lambda ex, self_, nm: IS_CONSTRUCTED_OF(ident) if nm == 'ConstructedAsn1Type' else False

        def clone(ex, self_, *a, **kw):
            deep = 'cloneValueFlag' in kw
            self_.fields  # noqa
            return Obj('Asn1Item', {'copyOf': ident, 'deep': deep, 'flag': kw.get('cloneValueFlag')}, bases=('Asn1Item',),
                       name='member.clone()')
        e.methods['clone'] = clone
        return Tup([self.cols[0][i], e])


def _items(ex, self):
    """dict.items() (assumed, python): one (key, value) pair per key"""
    keys = ex.fresh('keys', S)
    vals = ex.fresh('values', S)
    p, ids, n = self.fields['present'], self.fields['ids'], self.fields['count']
    ex.assume(And(z3.Length(keys) == n, z3.Length(vals) == n,
                  ForAll([_i], Implies(And(_i >= 0, _i < n), And(Select(p, keys[_i]), Select(ids, keys[_i]) == vals[_i]))),
                  ForAll([_k], Implies(Select(p, _k), And(POS_OF(_k) >= 0, POS_OF(_k) < n, keys[POS_OF(_k)] == _k)))))
    return ItemSeq([keys, vals], names=('key', '__id__'))


def _self_with_items(ex, env):
    o = _self()(ex, env)
    cv = o.fields['_componentValues']
    if cv is not NOVALUE:
        cv.methods['items'] = _items
    return o


def _my_clone(ex, env):
    def set_pos(ex2, self, idx, value=NOVALUE, *a, **kw):
        """callee contract setComponentByPosition[value-object] on the clone: stored at the position"""
        idx = toint(idx)
        self.fields['present'] = Store(self.fields['present'], idx, True)
        self.fields['copyOf'] = Store(self.fields['copyOf'], idx, toint(value.fields['copyOf']))
        flag_ok = True
        if value.fields['deep']:
            fl = value.fields['flag']
            flag_ok = (fl == env['cloneValueFlag']) if isinstance(fl, z3.ExprRef) else False
        self.fields['deepOk'] = And(self.fields['deepOk'], flag_ok,
                                    value.fields['deep'] == IS_CONSTRUCTED_OF(toint(value.fields['copyOf'])))
        return self

    def clear(ex2, self):
        self.fields['cleared'] = True
        return self

    def reset(ex2, self):
        self.fields['wasReset'] = True
        return self
    return Obj('SequenceOf', {'present': z3.K(I, False), 'copyOf': z3.K(I, IntVal(-1)), 'cleared': False, 'wasReset': False,
                              'deepOk': z3.BoolVal(True)},
               {'setComponentByPosition': set_pos, 'clear': clear, 'reset': reset}, name='myClone')


def _copied(ex, clone, upto=None):
    p, src = clone.fields['present'], clone.fields['copyOf']
    return And(ForAll([_k], Implies(Select(p, _k), And(Select(P0, _k), Select(src, _k) == Select(ID0, _k)))), clone.fields['deepOk'])


CLONE_VALUES = contract(
    id='type.univ::SequenceOfAndSetOfBase._cloneComponentValues', qual='SequenceOfAndSetOfBase._cloneComponentValues',
    properties=['C19', 'C04', 'C12'],
    params=dict(cloneValueFlag=PBool(), componentType=PConst(None), self=PDerived(_self_with_items), myClone=PDerived(_my_clone)),
    globals=dict(G, base={'ConstructedAsn1Type': ClassV('ConstructedAsn1Type'), '__name__': 'base'},
                 copied=FnV(_copied, 'copied'),
                 listed_done=FnV(lambda ex, clone, seq, upto: ForAll([_i], Implies(
                     And(_i >= 0, _i < toint(upto), seq.cols[1][_i] != NOV), Select(clone.fields['present'], seq.cols[0][_i]))),
                     'listed_done'),
                 every_member_copied=FnV(lambda ex, clone: ForAll([_k], Implies(
                     And(Select(P0, _k), Select(ID0, _k) != NOV),
                     And(Select(clone.fields['present'], _k), Select(clone.fields['copyOf'], _k) == Select(ID0, _k)))),
                     'every_member_copied')),
    loops={0: Loop(index='i', invariant=['copied(myClone)', 'listed_done(myClone, loop_seq, i)'],
                   havoc_fields=['myClone.present', 'myClone.copyOf', 'myClone.deepOk'])},
    ensures=[
        ('schema-stays-schema', 'schema ==> (not myClone.cleared and copied(myClone))'),
        # every member is copied (not shared) to the same position, constructed members deeply; nothing else is set
        ('every-member-copied-to-its-position', '(not schema) ==> every_member_copied(myClone)'),
        ('nothing-else', 'copied(myClone)'),
        ('empty-value-stays-a-value', '(not schema and C0 == 0) ==> myClone.cleared'),
        ('source-untouched', 'schema or unchanged(self._componentValues)')],
    note='dict.items() and member.clone() are assumed models; the clone\'s setComponentByPosition is the callee contract')
CONTRACTS = CONTRACTS + [CLONE_VALUES]


# ==== SEQUENCE / SET objects (SequenceAndSetBase): a python list with one slot per declared component ===========================
def sym_list(length, ids, name='componentValues'):
    """python list of symbolic length: ids[k] for 0 <= k < length are the identity tokens of the items"""
    def eff(self, k):
        n = self.fields['length']
        return If(k < 0, k + n, k)

    def in_range(self, k):
        n = self.fields['length']
        return And(k >= -n, k < n)

    def getitem(ex, self, k):
        k = toint(k)
        if not ex.choose(in_range(self, k), 'index-in-range'):
            raise _Raise(ExcV('IndexError'))
        return element(Select(self.fields['ids'], eff(self, k)))

    def setitem(ex, self, k, v):
        k = toint(k)
        if not ex.choose(in_range(self, k), 'index-in-range'):
            raise _Raise(ExcV('IndexError'))
        self.fields['ids'] = Store(self.fields['ids'], eff(self, k), idof(v))

    def append(ex, self, v):
        self.fields['ids'] = Store(self.fields['ids'], self.fields['length'], idof(v))
        self.fields['length'] = self.fields['length'] + 1
    o = Obj('list', {'length': length, 'ids': ids},
            {'__getitem__': getitem, '__setitem__': setitem, 'append': append, '__len__': lambda ex, self: self.fields['length']},
            name=name)
    o.methods['__bool__'] = lambda ex, self: self.fields['length'] > 0
    return o


N_DECL = z3.Int('componentTypeLen')
LID0 = z3.Const('slots0', IntMap)
LLEN0 = z3.Int('slotCount0')
TYPE_SIMPLE = z3.Function('componentTypeIsSimple', I, BoolSort())
DYN = z3.Const('dynamicNames0', IntSet)


def _named_types_model(ex, env):
    def type_by_pos(ex2, self, idx):
        """NamedTypes.getTypeByPosition: the declared type, PyAsn1Error for a position outside the declaration (python
        list indexing: negative positions count from the end)"""
        idx = toint(idx)
        if not ex2.choose(And(idx >= -N_DECL, idx < N_DECL), 'declared-position'):
            raise _Raise(ExcV('PyAsn1Error'))
        simple = ex2.choose(TYPE_SIMPLE(idx), 'simple-component')

        def clone(ex3, me, *a, **kw):
            return Obj('Asn1Item', {'isValue': bool(a or 'value' in kw), 'ofDeclaredType': idx},
                       {'reset': lambda ex4, me2: me2},
                       bases=('Asn1Item', 'SimpleAsn1Type') if simple else ('Asn1Item', 'ConstructedAsn1Type'),
                       name='componentType.clone()')

        def checker(ex3, me, value, *a, **kw):
            return ex3.fresh('subtype.ok', BoolSort())
        return Obj('Asn1Item', {'declaredAt': idx}, {'clone': clone, 'isSameTypeWith': checker, 'isSuperTypeOf': checker},
                   bases=('Asn1Item', 'SimpleAsn1Type') if simple else ('Asn1Item', 'ConstructedAsn1Type'), name='declaredType')

    def getitem(ex2, self, idx):
        idx = toint(idx)
        if not ex2.choose(And(idx >= -N_DECL, idx < N_DECL), 'declared-position'):
            raise _Raise(ExcV('IndexError'))
        return Obj('NamedType', {'isDefaulted': ex2.fresh('isDefaulted', BoolSort()), 'isOptional': ex2.fresh('isOptional', BoolSort()),
                                 'openType': None if ex2.choose(ex2.fresh('noOpenType', BoolSort()), 'open-type') else
                                 Obj('OpenType', {}, name='openType')}, name='namedType')
    return Obj('NamedTypes', {'__class__': {'__name__': 'NamedTypes'}}, {'getTypeByPosition': type_by_pos, '__getitem__': getitem},
               name='componentType')


def _record_self(ex, env):
    if ex.choose(IS_SCHEMA, 'schema-object'):
        cv = NOVALUE
    else:
        cv = sym_list(LLEN0, LID0)
        ex.assume(LLEN0 >= 0)

    def contains(ex2, self, k):
        return Select(self.fields['set'], toint(k))

    def add_field(ex2, self, k):
        self.fields['set'] = Store(self.fields['set'], toint(k), True)
    dyn = Obj('DynamicNames', {'set': DYN}, {'__contains__': contains, 'addField': add_field}, name='_dynamicNames')
    return Obj('Sequence', {'_componentValues': cv, 'componentType': env['componentType'], '_componentTypeLen': N_DECL,
                            '_dynamicNames': dyn, 'strictConstraints': z3.Bool('strictConstraints')}, name='self')


def _slots_are(ex, lst, n, at, v):
    """the list has n slots; slot `at` holds v"""
    return And(lst.fields['length'] == toint(n), Select(lst.fields['ids'], toint(at)) == idof(v))


def _others_kept_list(ex, lst, at):
    return ForAll([_k], Implies(And(_k >= 0, _k < LLEN0, _k != toint(at)), Select(lst.fields['ids'], _k) == Select(LID0, _k)))


def _others_empty(ex, lst, at):
    return ForAll([_k], Implies(And(_k >= 0, _k < lst.fields['length'], _k != toint(at)), Select(lst.fields['ids'], _k) == NOV))


def _on_list(f):
    def g(ex, d, *a):
        if not (isinstance(d, Obj) and 'length' in d.fields):
            return False
        return f(ex, d, *a)
    return g


GR = dict(G, N=N_DECL, LLEN0=LLEN0, value=NEW_VALUE, SequenceAndSetBase=ClassV('SequenceAndSetBase'),
          base={'Asn1Item': ClassV('Asn1Item'), 'SimpleAsn1Type': ClassV('SimpleAsn1Type'),
                'ConstructedAsn1Type': ClassV('ConstructedAsn1Type'), '__name__': 'base'},
          slots_are=FnV(_on_list(_slots_are), 'slots_are'), others_kept_list=FnV(_on_list(_others_kept_list), 'others_kept_list'),
          others_empty=FnV(_on_list(_others_empty), 'others_empty'),
          list_unchanged=FnV(_on_list(lambda ex, lst: And(lst.fields['length'] == LLEN0, lst.fields['ids'] == LID0)), 'list_unchanged'),
          eff=FnV(lambda ex, k, n: If(toint(k) < 0, toint(k) + toint(n), toint(k)), 'eff'))


def record_contract(**kw):
    c = Contract(file=U, **kw)
    c.empty_list = lambda ex: sym_list(IntVal(0), z3.K(I, NOV), name='[]')
    c.list_repeat = lambda ex, item, n: sym_list(toint(n), z3.K(I, idof(item)), name='[x]*n')
    return c


RECORD_SETPOS = record_contract(
    id='type.univ::SequenceAndSetBase.setComponentByPosition[declared,value-object]',
    qual='SequenceAndSetBase.setComponentByPosition', properties=['C19', 'C04', 'C14'],
    params=dict(componentType=PDerived(_named_types_model), self=PDerived(_record_self), idx=PInt(), value=PConst(NEW_VALUE),
                verifyConstraints=PBool(), matchTags=PBool(), matchConstraints=PBool()),
    globals=GR,
    # a record with declared components: the representation invariant is "schema, or cleared (no slots), or one slot per
    # declared component"
    requires=['N > 0', 'schema or LLEN0 == N or LLEN0 == 0'],
    ensures=[('one-slot-per-declared-component', 'slots_are(self._componentValues, N, eff(idx, N), value)'),
             ('other-components-untouched', '(not schema) ==> others_kept_list(self._componentValues, eff(idx, N))'),
             ('schema-gets-empty-slots', '(schema or LLEN0 == 0) ==> others_empty(self._componentValues, eff(idx, N))'),
             ('only-declared-positions', '-N <= idx and idx < N'),
             ('returns-self', 'result is self')],
    raise_ensures={'PyAsn1Error': ['schema ==> self._componentValues is noValue', '(not schema) ==> list_unchanged(self._componentValues)'],
                   'IndexError': ['schema ==> self._componentValues is noValue', '(not schema) ==> list_unchanged(self._componentValues)',
                                  'idx >= N or idx < -N']},
    may_raise={'PyAsn1Error': True, 'IndexError': True},
    note='getTypeByPosition / NamedTypes[idx] / isSuperTypeOf are assumed models; python list semantics (negative '
         'positions count from the end) is the model of the slot list')
CONTRACTS = CONTRACTS + [RECORD_SETPOS]


# ... no value given: a placeholder of the declared type (constructed ones are private copies)
JOURNAL = Obj('journal', {'last': None}, name='journal')


def _named_types_journal(ex, env):
    nt = _named_types_model(ex, env)
    inner = nt.methods['getTypeByPosition']

    def type_by_pos(ex2, self, idx):
        t = inner(ex2, self, idx)
        env['journal'].fields['last'] = t
        real_clone = t.methods['clone']

        def clone(ex3, me, *a, **kw):
            c = real_clone(ex3, me, *a, **kw)
            c.fields['cloneValueFlag'] = kw.get('cloneValueFlag')
            c.fields['wasReset'] = False

            def reset(ex4, me2):
                me2.fields['wasReset'] = True
                return me2
            c.methods['reset'] = reset
            c.methods['__isinstance__'] = lambda ex4, me2, nm: ex4.choose(z3.Bool('componentIsRecord'), 'record-member') \
                if nm == 'SequenceAndSetBase' else False
            env['journal'].fields['last'] = c
            return c
        t.methods['clone'] = clone
        return t
    nt.methods['getTypeByPosition'] = type_by_pos
    return nt


RECORD_SETPOS_PLACEHOLDER = record_contract(
    id='type.univ::SequenceAndSetBase.setComponentByPosition[declared,placeholder]',
    qual='SequenceAndSetBase.setComponentByPosition', properties=['C19', 'C12'],
    params=dict(journal=PDerived(lambda ex, env: Obj('journal', {'last': None}, name='journal')),
                componentType=PDerived(_named_types_journal), self=PDerived(_record_self), idx=PInt(), value=PConst(NOVALUE),
                verifyConstraints=PBool(), matchTags=PBool(), matchConstraints=PBool()),
    globals=dict(GR, simple=FnV(lambda ex, k: TYPE_SIMPLE(toint(k)), 'simple')),
    requires=['N > 0', 'schema or LLEN0 == N or LLEN0 == 0'],
    ensures=[('placeholder-stored', 'slots_are(self._componentValues, N, eff(idx, N), journal.last)'),
             ('simple-placeholder-is-the-declared-type', 'simple(idx) ==> journal.last.declaredAt == idx'),
             # a constructed placeholder is a private copy, never the schema's own object (C12)
             ('constructed-placeholder-is-a-copy', '(not simple(idx)) ==> journal.last.ofDeclaredType == idx'),
             ('other-components-untouched', '(not schema) ==> others_kept_list(self._componentValues, eff(idx, N))')],
    raise_ensures={'PyAsn1Error': ['schema ==> self._componentValues is noValue', '(not schema) ==> list_unchanged(self._componentValues)'],
                   'IndexError': ['schema ==> self._componentValues is noValue', '(not schema) ==> list_unchanged(self._componentValues)']},
    may_raise={'PyAsn1Error': True, 'IndexError': True},
    note='a simple-typed placeholder is the (immutable) declared type object itself')
CONTRACTS = CONTRACTS + [RECORD_SETPOS_PLACEHOLDER]


# ... a record without declared components grows like a list: positions 0..L-1 are named, position L appends
def _dyn_inv(ex, self_):
    lst = self_.fields['_componentValues']
    if not (isinstance(lst, Obj) and 'length' in lst.fields):
        return False
    n = lst.fields['length']
    return ForAll([_k], Select(self_.fields['_dynamicNames'].fields['set'], _k) == And(_k >= 0, _k < n))


DYN_INV0 = ForAll([_k], Select(DYN, _k) == And(_k >= 0, _k < If(IS_SCHEMA, 0, LLEN0)))
RECORD_SETPOS_DYNAMIC = record_contract(
    id='type.univ::SequenceAndSetBase.setComponentByPosition[undeclared,value-object]',
    qual='SequenceAndSetBase.setComponentByPosition', properties=['C19'],
    params=dict(componentType=PDerived(_named_types_model), self=PDerived(_record_self), idx=PInt(), value=PConst(NEW_VALUE),
                verifyConstraints=PBool(), matchTags=PBool(), matchConstraints=PBool()),
    globals=dict(GR, names_match_slots=FnV(_dyn_inv, 'names_match_slots'), namesMatchSlots0=DYN_INV0,
                 L=If(IS_SCHEMA, 0, LLEN0)),
    requires=['N == 0', 'namesMatchSlots0', 'idx >= 0'],
    ensures=[('overwrite-or-append', 'idx <= L and slots_are(self._componentValues, L + 1 if idx == L else L, idx, value)'),
             ('other-components-untouched', '(not schema) ==> others_kept_list(self._componentValues, idx)'),
             ('every-slot-has-a-name', 'names_match_slots(self)')],
    # a position beyond the end is refused and nothing changes
    raise_ensures={'PyAsn1Error': ['idx > L', 'schema ==> self._componentValues is noValue',
                                   '(not schema) ==> list_unchanged(self._componentValues)']},
    may_raise={'PyAsn1Error': True})
CONTRACTS = CONTRACTS + [RECORD_SETPOS_DYNAMIC]


# ---- record reads: an existing component is handed out unchanged --------------------------------------------------------------
def _record_self_with_set(ex, env):
    o = _record_self(ex, env)

    def set_pos(ex2, self, idx, value=NOVALUE, *a, **kw):
        """callee contract setComponentByPosition[declared,placeholder] / [undeclared]: a placeholder is stored at the
        position (one slot per declared component), or a library / lookup error and nothing changes"""
        if ex2.choose(ex2.fresh('instantiate.refused', BoolSort()), 'placeholder-refused'):
            raise _Raise(ExcV('PyAsn1Error'))
        ph = Obj('Asn1Item', {'isValue': ex2.fresh('placeholder.isValue', BoolSort())}, bases=('Asn1Item',), name='placeholder')
        cv = self.fields['_componentValues']
        idx = toint(idx)
        ex2.assume(And(idx >= -N_DECL, idx < N_DECL))         # otherwise the callee raises (its contract)
        if cv is NOVALUE or ex2.choose(cv.fields['length'] == 0, 'cleared'):
            cv = sym_list(N_DECL, z3.K(I, NOV))
            self.fields['_componentValues'] = cv
        cv.methods['__setitem__'](ex2, cv, idx, ph)
        self.fields['instantiated'] = ph
        return self
    o.methods['setComponentByPosition'] = set_pos
    o.fields['instantiated'] = None
    return o


RECORD_GETPOS = record_contract(
    id='type.univ::SequenceAndSetBase.getComponentByPosition[declared]', qual='SequenceAndSetBase.getComponentByPosition',
    properties=['C19', 'C12'],
    params=dict(componentType=PConst(None), self=PDerived(_record_self_with_set), idx=PInt(),
                default=POneOf(NOVALUE, DEFAULT), instantiate=PBool()),
    globals=dict(GR, slot0=FnV(lambda ex, k: Select(LID0, If(toint(k) < 0, toint(k) + LLEN0, toint(k))), 'slot0'),
                 isValueOf=FnV(lambda ex, i: IS_VALUE_OF(toint(i)), 'isValueOf'), theDefault=DEFAULT, NOV=NOV,
                 in_slots=FnV(lambda ex, k: And(toint(k) >= -LLEN0, toint(k) < LLEN0), 'in_slots')),
    requires=['N > 0', 'schema or LLEN0 == N or LLEN0 == 0'],
    ensures=[
        ('set-component-read-only', '(not schema and in_slots(idx) and slot0(idx) != NOV) ==> list_unchanged(self._componentValues)'),
        # a component that is a value is always handed out; a valueless one (placeholder) only to a caller that asked for
        # instantiation and gave no default
        ('set-component-returned', '(not schema and in_slots(idx) and slot0(idx) != NOV and (isValueOf(slot0(idx)) or '
                                   '(instantiate and default is noValue))) ==> idof(result) == slot0(idx)'),
        ('default-instead-of-a-valueless-component', '(not schema and in_slots(idx) and slot0(idx) != NOV and '
                                                     'not isValueOf(slot0(idx)) and not (instantiate and default is noValue)) '
                                                     '==> result is default'),
        ('unset-without-instantiate', '((schema or not in_slots(idx) or slot0(idx) == NOV) and not instantiate) ==> '
                                      '(result is default and (self._componentValues is noValue if schema else '
                                      'list_unchanged(self._componentValues)))'),
        ('unset-with-instantiate', '((schema or not in_slots(idx) or slot0(idx) == NOV) and instantiate) ==> '
                                   '(slots_are(self._componentValues, N, eff(idx, N), self.instantiated))')],
    may_raise={'PyAsn1Error': True},
    note='setComponentByPosition(idx) is the callee contract proved above')


def _plain_record(ex, env):
    o = _record_self(ex, env)
    o.fields['DynamicNames'] = FnV(lambda ex2: Obj('DynamicNames', {'set': z3.K(I, False)}, name='DynamicNames()'), 'DynamicNames')
    return o


RECORD_CLEAR = record_contract(
    id='type.univ::SequenceAndSetBase.clear', qual='SequenceAndSetBase.clear', properties=['C19'],
    params=dict(componentType=PConst(None), self=PDerived(_plain_record)), globals=GR,
    ensures=[('empty-value-object', 'self._componentValues is not noValue and len(self._componentValues) == 0'),
             ('no-dynamic-names-left', 'names_empty(self)'), ('returns-self', 'result is self')])
RECORD_RESET = record_contract(
    id='type.univ::SequenceAndSetBase.reset', qual='SequenceAndSetBase.reset', properties=['C19'],
    params=dict(componentType=PConst(None), self=PDerived(_plain_record)), globals=GR,
    ensures=[('schema-object', 'self._componentValues is noValue'), ('no-dynamic-names-left', 'names_empty(self)'),
             ('returns-self', 'result is self')])
for _c in (RECORD_CLEAR, RECORD_RESET):
    _c.globals = dict(_c.globals, names_empty=FnV(lambda ex, s: ForAll([_k], Not(Select(s.fields['_dynamicNames'].fields['set'], _k))),
                                                  'names_empty'))
CONTRACTS = CONTRACTS + [RECORD_GETPOS, RECORD_CLEAR, RECORD_RESET]


# ---- record isValue: every component that is neither OPTIONAL nor DEFAULT is a value ----------------------------------------------
from pyvc.core import PRecSeq
NT_COLS = ('isDefaulted', 'isOptional')


def _nt_record_self(ex, env):
    nts = env['namedTypes']
    ex.assume(ForAll([_i], Implies(And(_i >= 0, _i < nts.length), And(Or(nts.cols[0][_i] == 0, nts.cols[0][_i] == 1),
                                                                       Or(nts.cols[1][_i] == 0, nts.cols[1][_i] == 1)))))
    ct = Obj('NamedTypes', {'namedTypes': nts, '__truthy__': nts.length > 0}, name='componentType')
    if ex.choose(IS_SCHEMA, 'schema-object'):
        cv = NOVALUE
    else:
        cv = sym_list(LLEN0, LID0)
        ex.assume(LLEN0 >= 0)
        cv.methods['__iter__'] = lambda ex2, self: ElemSeq([_list_as_seq(ex2, self)], names=('__id__',))
    return Obj('Sequence', {'_componentValues': cv, 'componentType': ct}, name='self')


def _list_as_seq(ex, lst):
    """the items of the slot list as a sequence (iteration order = positions)"""
    vals = ex.fresh('slots', S)
    n, ids = lst.fields['length'], lst.fields['ids']
    ex.assume(And(z3.Length(vals) == n, ForAll([_i], Implies(And(_i >= 0, _i < n), vals[_i] == Select(ids, _i)))))
    return vals


def _required_are_values(ex, nts, upto):
    return ForAll([_i], Implies(And(_i >= 0, _i < toint(upto), nts.cols[0][_i] == 0, nts.cols[1][_i] == 0),
                                And(LLEN0 > 0, good(Select(LID0, _i)))))


RECORD_ISVALUE = record_contract(
    id='type.univ::SequenceAndSetBase.isValue[declared]', qual='SequenceAndSetBase.isValue', prop='getter',
    properties=['C19', 'C10'],
    params=dict(namedTypes=PRecSeq(2, names=NT_COLS), self=PDerived(_nt_record_self)),
    globals=dict(GR, required_are_values=FnV(_required_are_values, 'required_are_values')),
    requires=['len(namedTypes) > 0', 'schema or LLEN0 == len(namedTypes) or LLEN0 == 0'],
    loops={0: Loop(index='k', invariant=['required_are_values(namedTypes, k)'])},
    ensures=[('schema-is-not-a-value', 'schema ==> result is False'),
             # X.680: a record value has every component that is neither OPTIONAL nor DEFAULT
             ('value-iff-every-mandatory-component-is', '(not schema) ==> result == required_are_values(namedTypes, len(namedTypes))'),
             ('read-only', 'schema or list_unchanged(self._componentValues)')],
    note='the declared components are a sequence of (isDefaulted, isOptional) records of any length')
CONTRACTS = CONTRACTS + [RECORD_ISVALUE]


# ---- isInconsistent (SEQUENCE OF / SET OF): the type's own constraints are evaluated on exactly the members ---------------------
def _self_for_consistency(ex, env):
    o = _self_with_items(ex, env)
    ct = NOVALUE if ex.choose(z3.Bool('componentType.isNoValue'), 'componentType-noValue') else \
        (None if ex.choose(z3.Bool('componentType.isNone'), 'untyped') else Obj('Asn1Item', {}, name='componentType'))
    o.fields['componentType'] = ct

    def spec_call(ex2, self, mapping):
        """ConstraintsIntersection.__call__ (contracts type.constraint::*): raises ValueConstraintError unless the value is
        admitted"""
        o.fields['checked'] = mapping
        if not ex2.choose(z3.Bool('constraints.admit'), 'admitted'):
            raise _Raise(ExcV('ValueConstraintError'))
        return None
    o.fields['subtypeSpec'] = Obj('ConstraintsIntersection', {'__truthy__': z3.Bool('hasConstraints')}, {'__call__': spec_call},
                                  name='subtypeSpec')
    o.fields['checked'] = None
    return o


def _is_members(ex, mapping):
    """the mapping holds exactly the members (position -> object), placeholders for "no value" left out"""
    if not (isinstance(mapping, Obj) and 'present' in mapping.fields):
        return False
    p, ids = mapping.fields['present'], mapping.fields['ids']
    return ForAll([_k], And(Select(p, _k) == And(Select(P0, _k), Select(ID0, _k) != NOV),
                            Implies(Select(p, _k), Select(ids, _k) == Select(ID0, _k))))


ISINCONSISTENT = contract(
    id='type.univ::SequenceOfAndSetOfBase.isInconsistent', qual='SequenceOfAndSetOfBase.isInconsistent', prop='getter',
    properties=['C14', 'C10'],
    params=dict(componentType=PConst(None), self=PDerived(_self_for_consistency)),
    globals=dict(G, sys=_SYS, error={'PyAsn1Error': ClassV('PyAsn1Error'), '__name__': 'error'},
                 is_members=FnV(_is_members, 'is_members'), hasConstraints=z3.Bool('hasConstraints'),
                 admitted=z3.Bool('constraints.admit'), noComponentType=z3.Bool('componentType.isNoValue'),
                 copied_upto=FnV(lambda ex, mapping, seq, upto: And(
                     ForAll([_i], Implies(And(_i >= 0, _i < toint(upto), seq.cols[1][_i] != NOV),
                                          And(Select(mapping.fields['present'], seq.cols[0][_i]),
                                              Select(mapping.fields['ids'], seq.cols[0][_i]) == seq.cols[1][_i]))),
                     ForAll([_k], Implies(Select(mapping.fields['present'], _k),
                                          And(Select(P0, _k), Select(ID0, _k) != NOV,
                                              Select(mapping.fields['ids'], _k) == Select(ID0, _k))))), 'copied_upto')),
    loops={0: Loop(index='i', invariant=['copied_upto(mapping, loop_seq, i)'],
                   havoc_fields=['mapping.present', 'mapping.ids', 'mapping.count'])},
    ensures=[
        # the constraints of the collection type (SIZE, inner-type) decide, whether or not a component type is declared
        ('consistent-iff-the-constraints-admit-the-members',
         '(hasConstraints and not noComponentType and not schema) ==> '
         '((result is False) == admitted and is_members(self.checked))'),
        # (an error object the callers can raise, not the bare True)
        ('a-schema-object-is-not-a-value-of-a-constrained-type', '(hasConstraints and not noComponentType and schema) ==> isinstance(result, PyAsn1Error)'),
        ('nothing-to-check', '(not hasConstraints or noComponentType) ==> result is False'),
        ('read-only', 'schema or unchanged(self._componentValues)')],
    note='subtypeSpec.__call__ is the constraint contracts\' entry point (assumed model here: admits or raises)')
CONTRACTS = CONTRACTS + [ISINCONSISTENT]


# ---- __iter__ / extend of SEQUENCE OF: positions 0..len-1 in order; every given value appended in order -------------------------
def _self_iter(ex, env):
    o = _self()(ex, env)

    def get_pos(ex2, self, idx, *a, **kw):
        """callee contract getComponentByPosition (existing member: handed out, nothing changes)"""
        self.fields['reads'] = self.fields['reads'] + 1
        self.fields['lastRead'] = toint(idx)
        return element(Select(ID0, toint(idx)))
    o.methods['getComponentByPosition'] = get_pos
    o.fields['reads'] = IntVal(0)
    o.fields['lastRead'] = IntVal(-1)
    return o


ITER = contract(
    id='type.univ::SequenceOfAndSetOfBase.__iter__', qual='SequenceOfAndSetOfBase.__iter__', properties=['C19', 'C04'],
    is_generator=True,
    params=dict(componentType=PConst(None), self=PDerived(_self_iter)), globals=dict(G, id0=FnV(lambda ex, k: Select(ID0, toint(k)), 'id0')),
    loops={0: Loop(index='k', invariant=['self.reads == k'], havoc_fields=['self.reads', 'self.lastRead'])},
    # iteration order = position order, each position exactly once
    yield_ensures=[('k-th-item-is-position-k', 'self.lastRead == self.reads - 1 and idof(y) == id0(self.lastRead)')],
    exit_ensures=[('as-many-items-as-len', 'schema or not dense0 or self.reads == L0')],
    note='len(self) and getComponentByPosition are the callee contracts proved above')
ITER.multi_value = True


class IdSeq(RecSeqV):
    """a python sequence of value objects given by the caller: elements known by identity"""

    def elem(self, i):
        return Obj('Asn1Item', {'__id__': self.cols[0][i], 'isValue': True}, bases=('Asn1Item',), name='given')


def _self_extend(ex, env):
    o = _self()(ex, env)

    def append(ex2, self, value):
        """callee contract append (proved above): one more member at the end, or IndexError and nothing changes"""
        if ex2.choose(ex2.fresh('append.refused', BoolSort()), 'append-refused'):
            raise _Raise(ExcV('IndexError'))
        self.fields['appended'] = SeqV(z3.Concat(self.fields['appended'].z, z3.Unit(idof(value))), 'any')
    o.methods['append'] = append
    o.fields['appended'] = SeqV(z3.Empty(S), 'any')
    return o


EXTEND = contract(
    id='type.univ::SequenceOfAndSetOfBase.extend', qual='SequenceOfAndSetOfBase.extend', properties=['C19', 'C04'],
    params=dict(componentType=PConst(None), self=PDerived(_self_extend),
                values=PDerived(lambda ex, env: IdSeq([z3.Const('given', S)], names=('__id__',)))),
    globals=dict(G, prefix=FnV(lambda ex, seq, k: SeqV(z3.Extract(seq.cols[0], IntVal(0), toint(k)), 'any'), 'prefix'),
                 all_given=FnV(lambda ex, seq: SeqV(seq.cols[0], 'any'), 'all_given')),
    loops={0: Loop(index='k', invariant=['self.appended == prefix(values, k)'], havoc_fields=['self.appended'])},
    ensures=[('every-value-appended-in-order', 'self.appended == all_given(values)'),
             # extend([]) on a schema object makes it an (empty) value, as list semantics wants
             ('an-extended-object-is-a-value', 'self._componentValues is not noValue')],
    raise_ensures={'IndexError': ['True']},
    may_raise={'IndexError': True},
    note='the given values are any python sequence of value objects; append is the callee contract')
CONTRACTS = CONTRACTS + [ITER, EXTEND]


# ---- name-addressed access to a record = position-addressed access at the position of the name ---------------------------------
NAME = 'the-name'
POS_OF_NAME = z3.Int('positionOfName')


def _self_by_name(ex, env):
    declared = ex.choose(z3.Bool('record.declared'), 'declared-components')

    def pos_by_name(kind):
        def f(ex2, self, name):
            if name != NAME:
                raise Unsupported('lookup of another name')
            if not ex2.choose(z3.Bool('name.known'), 'name-known'):
                raise _Raise(ExcV('PyAsn1Error' if kind == 'declared' else 'KeyError'))
            return POS_OF_NAME
        return f
    o = Obj('Sequence', {'_componentTypeLen': 3 if declared else 0,
                         'componentType': Obj('NamedTypes', {}, {'getPositionByName': pos_by_name('declared')}, name='componentType'),
                         '_dynamicNames': Obj('DynamicNames', {}, {'getPositionByName': pos_by_name('dynamic')}, name='_dynamicNames'),
                         'got': None, 'args': None}, name='self')

    def get_pos(ex2, self, idx, default=NOVALUE, instantiate=True):
        self.fields['args'] = Tup([idx, default, instantiate])
        r = Obj('Asn1Item', {}, name='component')
        self.fields['got'] = r
        return r

    def set_pos(ex2, self, idx, value=NOVALUE, verifyConstraints=True, matchTags=True, matchConstraints=True):
        self.fields['args'] = Tup([idx, value, verifyConstraints, matchTags, matchConstraints])
        if ex2.choose(ex2.fresh('set.refused', BoolSort()), 'assignment-refused'):
            raise _Raise(ExcV('PyAsn1Error'))
        return self
    o.methods['getComponentByPosition'] = get_pos
    o.methods['setComponentByPosition'] = set_pos
    return o


_BN = {'known': z3.Bool('name.known'), 'pos': POS_OF_NAME, 'noValue': NOVALUE,
       'error': {'PyAsn1Error': ClassV('PyAsn1Error'), '__name__': 'error'}}
GET_BY_NAME = Contract(
    file=U, id='type.univ::SequenceAndSetBase.getComponentByName', qual='SequenceAndSetBase.getComponentByName', properties=['C19'],
    params=dict(self=PDerived(_self_by_name), name=PConst(NAME), default=POneOf(NOVALUE, DEFAULT), instantiate=PBool()),
    globals=_BN,
    ensures=[('the-component-at-the-position-of-the-name', 'known and result is self.got and self.args[0] == pos and '
                                                           'self.args[1] is default and self.args[2] == instantiate')],
    # ill-formed: an unknown name is a library error and nothing was touched
    raise_ensures={'PyAsn1Error': ['not known', 'self.args is None']},
    may_raise={'PyAsn1Error': True})
SET_BY_NAME = Contract(
    file=U, id='type.univ::SequenceAndSetBase.setComponentByName', qual='SequenceAndSetBase.setComponentByName', properties=['C19'],
    params=dict(self=PDerived(_self_by_name), name=PConst(NAME), value=PConst(NEW_VALUE), verifyConstraints=PBool(),
                matchTags=PBool(), matchConstraints=PBool()),
    globals=dict(_BN, value=NEW_VALUE),
    ensures=[('assigned-at-the-position-of-the-name', 'known and result is self and self.args[0] == pos and self.args[1] is value and '
                                                      'self.args[2] == verifyConstraints and self.args[3] == matchTags and '
                                                      'self.args[4] == matchConstraints')],
    raise_ensures={'PyAsn1Error': ['not known ==> self.args is None']},
    may_raise={'PyAsn1Error': True})
CONTRACTS = CONTRACTS + [GET_BY_NAME, SET_BY_NAME]


# ==== CHOICE with any number of alternatives: at most one slot is occupied, and it is the selected one ==========================
CH_N = z3.Int('choice.N')
CH_CUR = z3.Int('choice.cur')
CH_SLOTS = z3.Const('choice.slots0', IntMap)
CH_HAS = z3.Bool('choice.hasSelection')


def _single(ids, n, cur, has):
    """slots other than the selected one are empty (noValue)"""
    return ForAll([_k], Implies(And(_k >= 0, _k < n, Or(Not(has), _k != cur)), Select(ids, _k) == NOV))


def _choice_self(ex, env):
    has = ex.choose(CH_HAS, 'has-selection')
    lst = sym_list(CH_N, CH_SLOTS, name='_componentValues')
    ex.assume(And(CH_N >= 1, _single(CH_SLOTS, CH_N, CH_CUR, z3.BoolVal(bool(has)))))
    if has:
        ex.assume(And(CH_CUR >= 0, CH_CUR < CH_N))
    return Obj('Choice', {'_currentIdx': CH_CUR if has else None, '_componentValues': lst, '_componentTypeLen': CH_N}, name='self')


def _set_set_component(ex, self, idx, value=NOVALUE, *a, **k):
    """callee contract SequenceAndSetBase.setComponentByPosition[declared,...] (proved above): the value is stored in the slot
    of the position (python list index), every other slot keeps what it had; or a library / lookup error and no change"""
    if ex.choose(ex.fresh('Set.setComponentByPosition.raises', BoolSort()), 'set-raises'):
        raise _Raise(ExcV('PyAsn1Error'))
    lst = self.fields['_componentValues']
    lst.methods['__setitem__'](ex, lst, idx, value)        # IndexError outside -N..N-1
    return self


CHOICE_SET_N = record_contract(
    id='type.univ::Choice.setComponentByPosition[any-number-of-alternatives]', qual='Choice.setComponentByPosition',
    properties=['C19', 'C04'],
    params=dict(self=PDerived(_choice_self), idx=PInt(), value=PConst(NEW_VALUE), verifyConstraints=PConst(True),
                matchTags=PConst(True), matchConstraints=PConst(True)),
    globals=dict(GR, Set={'setComponentByPosition': FnV(_set_set_component, 'Set.setComponentByPosition'), '__name__': 'Set'},
                 N=CH_N, has=CH_HAS, cur=CH_CUR, value=NEW_VALUE,
                 single=FnV(lambda ex, s: _single(s.fields['_componentValues'].fields['ids'], CH_N,
                                                  toint(s.fields['_currentIdx']) if s.fields['_currentIdx'] is not None else IntVal(-1),
                                                  z3.BoolVal(s.fields['_currentIdx'] is not None)), 'single'),
                 slot=FnV(lambda ex, s, k: Select(s.fields['_componentValues'].fields['ids'], toint(k)), 'slot'),
                 same_slots=FnV(lambda ex, s: And(s.fields['_componentValues'].fields['ids'] == CH_SLOTS,
                                                  s.fields['_componentValues'].fields['length'] == CH_N), 'same_slots')),
    ensures=[('selected-in-non-negative-form', 'self._currentIdx == (old(idx) if old(idx) >= 0 else old(idx) + N) and '
                                               'self._currentIdx >= 0 and self._currentIdx < N'),
             ('holds-the-value', 'slot(self, self._currentIdx) == idof(value)'),
             ('at-most-one-alternative', 'single(self)'),
             ('returns-self', 'result is self')],
    # a refused assignment changes nothing: neither the slots nor the selection
    raise_ensures={'PyAsn1Error': ['same_slots(self)', '(self._currentIdx is None) == (not has)', 'has ==> self._currentIdx == cur'],
                   'IndexError': ['same_slots(self)', '(self._currentIdx is None) == (not has)', 'has ==> self._currentIdx == cur']},
    may_raise={'PyAsn1Error': True, 'IndexError': True},
    note='Set.setComponentByPosition is the callee contract; the slots are a python list of one entry per alternative')
CONTRACTS = CONTRACTS + [CHOICE_SET_N]


# ---- SequenceAndSetBase._cloneComponentValues: every stored member is copied to its position, whatever its state --------------
class SlotSeq(RecSeqV):
    """iteration over the slot list of a record: element i is the object stored in slot i (or the noValue sentinel)"""

    def __init__(self, lst):
        RecSeqV.__init__(self, [], kind='list')
        self.lst = lst

    @property
    def length(self):
        return self.lst.fields['length']

    def elem(self, i):
        ident = Select(self.lst.fields['ids'], i)
        e = element(ident)
        e.methods['__isinstance__'] = lambda ex, self_, nm: IS_CONSTRUCTED_OF(ident) if nm == 'ConstructedAsn1Type' else False

        def clone(ex, self_, *a, **kw):
            return Obj('Asn1Item', {'copyOf': ident, 'deep': 'cloneValueFlag' in kw, 'flag': kw.get('cloneValueFlag')},
                       bases=('Asn1Item',), name='member.clone()')
        e.methods['clone'] = clone
        return e


def _record_self_iterable(ex, env):
    o = _record_self(ex, env)
    cv = o.fields['_componentValues']
    if cv is not NOVALUE:
        cv.methods['__iter__'] = lambda ex2, self: SlotSeq(self)
    return o


def _record_copied(ex, clone):
    p, src = clone.fields['present'], clone.fields['copyOf']
    return And(ForAll([_k], Implies(Select(p, _k), And(_k >= 0, _k < LLEN0, Select(LID0, _k) != NOV,
                                                       Select(src, _k) == Select(LID0, _k)))), clone.fields['deepOk'])


def _record_copied_upto(ex, clone, upto):
    return ForAll([_k], Implies(And(_k >= 0, _k < toint(upto), Select(LID0, _k) != NOV),
                                And(Select(clone.fields['present'], _k), Select(clone.fields['copyOf'], _k) == Select(LID0, _k))))


RECORD_CLONE_VALUES = record_contract(
    id='type.univ::SequenceAndSetBase._cloneComponentValues', qual='SequenceAndSetBase._cloneComponentValues',
    properties=['C19', 'C04', 'C12'],
    params=dict(cloneValueFlag=PBool(), componentType=PConst(None), self=PDerived(_record_self_iterable),
                myClone=PDerived(_my_clone)),
    globals=dict(GR, copied=FnV(_record_copied, 'copied'), copied_upto=FnV(_record_copied_upto, 'copied_upto')),
    loops={0: Loop(index='i', invariant=['copied(myClone)', 'copied_upto(myClone, i)'],
                   havoc_fields=['myClone.present', 'myClone.copyOf', 'myClone.deepOk'])},
    ensures=[
        # the copy of a schema object (the placeholder of an unset member) is a schema object: a freshly constructed record
        # with declared components counts as an empty value, so the copy has to be reset
        ('schema-stays-schema', 'schema ==> (myClone.wasReset and not myClone.cleared and copied(myClone))'),
        ('a-value-is-not-reset', '(not schema) ==> not myClone.wasReset'),
        # every stored member -- complete value, partly filled record or placeholder alike: what it holds is its own
        # clone()'s business -- is copied (not shared) to the same position, constructed members deeply
        ('every-member-copied-to-its-position', '(not schema) ==> copied_upto(myClone, LLEN0)'),
        ('nothing-else', 'copied(myClone)'),
        ('empty-record-stays-a-value', '(not schema and LLEN0 == 0) ==> myClone.cleared'),
        ('source-untouched', 'schema or list_unchanged(self._componentValues)')],
    note='member.clone() is an assumed model; the clone\'s setComponentByPosition is the callee contract; enumerate() over a '
         'python list is the engine\'s sequence iteration')
CONTRACTS = CONTRACTS + [RECORD_CLONE_VALUES]


# ---- SetOf.__eq__: two SET OF values are equal iff they hold the same elements the same number of times (bounded: <= 3 each) --
NEQ = 3
_EQ_VALS = {side: [z3.Int('%s.element%d' % (side, i)) for i in range(NEQ)] for side in ('mine', 'theirs')}
_EQ_LEN = {side: z3.Int('%s.count' % side) for side in ('mine', 'theirs')}


def _setof_side(side):
    def mk(ex, env):
        n = _EQ_LEN[side]
        ex.assume(And(n >= 0, n <= NEQ))
        items = []
        for i in range(NEQ):
            if not ex.choose(n > i, '%s-has-element-%d' % (side, i)):
                break
            v = _EQ_VALS[side][i]
            # element equality is the elements' own business: an equivalence, here "same abstract value"
            items.append(Obj('Asn1Item', {'abstract': v},
                             {'__eq__': lambda ex2, a, b: a.fields['abstract'] == b.fields['abstract'],
                              '__ne__': lambda ex2, a, b: a.fields['abstract'] != b.fields['abstract']},
                             bases=('Asn1Item',), name='%s[%d]' % (side, i)))
        ex.assume(n == len(items))
        return Obj('SetOf', {'_componentValues': Obj('dict', {}, name=side + '._componentValues'),
                             'components': Tup(items, 'list')}, bases=('SetOf',), name=side)
    return mk


def _multiset_equal(ex, a, b):
    xs = [o.fields['abstract'] for o in a.fields['components'].items]
    ys = [o.fields['abstract'] for o in b.fields['components'].items]
    return And([z3.Sum([If(x == e, 1, 0) for x in xs] + [IntVal(0)]) == z3.Sum([If(y == e, 1, 0) for y in ys] + [IntVal(0)])
                for e in xs + ys] + [z3.BoolVal(True)])


SETOF_EQ = Contract(
    id='type.univ::SetOf.__eq__[setof-vs-setof]', file=U, qual='SetOf.__eq__', properties=['C19', 'C04', 'C03'],
    params=dict(self=PDerived(_setof_side('mine')), other=PDerived(_setof_side('theirs'))),
    globals=dict(G, SetOf=ClassV('SetOf'), multiset_equal=FnV(_multiset_equal, 'multiset_equal')),
    ensures=[('equal-iff-same-elements-same-number-of-times', 'result == multiset_equal(self, other)'),
             ('read-only', 'len(self.components) == old(len(self.components)) and len(other.components) == old(len(other.components))')],
    note='element equality is modelled as equality of abstract values (an equivalence); the `components` property (members '
         'in position order) is an assumed model')
SETOF_EQ.bounded = 'at most 3 elements on either side (the matching loops are unrolled)'
CONTRACTS = CONTRACTS + [SETOF_EQ]


# ---- isInconsistent (SEQUENCE / SET): the type's own constraints are evaluated on {name: member} of exactly the stored members ----
# names as tokens: distinct positions have distinct names, and a made-up name is never a declared one (concrete encodings
# rather than an injectivity axiom: the reachability canaries need satisfiability, which quantified axioms make undecidable)
def NAME_DECL(k):
    return 2 * k


def NAME_DYN(k):
    return 2 * k + 1


def NAME_INV(i):
    return i / 2


def _name_of(k):
    return If(N_DECL > 0, NAME_DECL(k), NAME_DYN(k))


HOLDS_DEFAULT = z3.Function('slot.holdsDefault', z3.IntSort(), z3.BoolSort())


def _counts(k):
    # a member the constraints get to see: a value, and not the default value of a DEFAULT component (what a read leaves in
    # the slot of an absent one -- the encoders leave it out, so the constraints must not take it for a present member:
    # `d ABSENT` held on the first encode() and failed on the second)
    return And(good(Select(LID0, k)), Not(HOLDS_DEFAULT(k)))


def _record_self_for_consistency(ex, env):
    o = _record_self_iterable(ex, env)
    # callee SequenceAndSetBase._holdsDefault(idx, value): "the DEFAULT component at idx holds its default value" (an opaque
    # predicate of the position)
    o.methods['_holdsDefault'] = lambda ex2, self, idx, value: HOLDS_DEFAULT(toint(idx))

    def declared_name(ex2, self, idx):
        """NamedTypes.getNameByPosition: PyAsn1Error for a position the declaration does not have"""
        idx = toint(idx)
        if not ex2.choose(And(idx >= -N_DECL, idx < N_DECL), 'declared-position'):
            raise _Raise(ExcV('PyAsn1Error'))
        return NAME_DECL(idx)
    o.fields['componentType'] = Obj('NamedTypes', {'__class__': {'__name__': 'NamedTypes'}}, {'getNameByPosition': declared_name},
                                    name='componentType')
    o.fields['_dynamicNames'] = Obj('DynamicNames', {}, {'getNameByPosition': lambda ex2, self, idx: NAME_DYN(toint(idx))},
                                    name='_dynamicNames')

    def spec_call(ex2, self, mapping):
        o.fields['checked'] = mapping
        if not ex2.choose(z3.Bool('constraints.admit'), 'admitted'):
            raise _Raise(ExcV('ValueConstraintError'))
        return None
    o.fields['subtypeSpec'] = Obj('ConstraintsIntersection', {'__truthy__': z3.Bool('hasConstraints')}, {'__call__': spec_call},
                                  name='subtypeSpec')
    o.fields['checked'] = None
    return o


def _named_upto(ex, mapping, upto):
    """the mapping holds, under its name, every stored member of a position below `upto` that is a value (not the schema
    placeholder a read leaves in an unset slot, nor the default value of a DEFAULT component) -- and nothing else"""
    if not (isinstance(mapping, Obj) and 'present' in mapping.fields):
        return False
    p, ids = mapping.fields['present'], mapping.fields['ids']
    upto = toint(upto)
    return And(ForAll([_k], Implies(And(_k >= 0, _k < upto, _counts(_k)),
                                    And(Select(p, _name_of(_k)), Select(ids, _name_of(_k)) == Select(LID0, _k)))),
               ForAll([_i], Implies(Select(p, _i), And(NAME_INV(_i) >= 0, NAME_INV(_i) < upto, _name_of(NAME_INV(_i)) == _i,
                                                       _counts(NAME_INV(_i)),
                                                       Select(ids, _i) == Select(LID0, NAME_INV(_i))))))


RECORD_ISINCONSISTENT = record_contract(
    id='type.univ::SequenceAndSetBase.isInconsistent', qual='SequenceAndSetBase.isInconsistent', prop='getter',
    properties=['C14', 'C10'],
    params=dict(componentType=PConst(None), self=PDerived(_record_self_for_consistency)),
    globals=dict(GR, sys=_SYS, error={'PyAsn1Error': ClassV('PyAsn1Error'), '__name__': 'error'},
                 named_upto=FnV(_named_upto, 'named_upto'), hasConstraints=z3.Bool('hasConstraints'),
                 admitted=z3.Bool('constraints.admit')),
    # representation invariant: a record with declared components has at most one slot per declaration
    requires=['N >= 0', 'N == 0 or LLEN0 <= N'],
    loops={0: Loop(index='i', invariant=['named_upto(mapping, i)'],
                   havoc_fields=['mapping.present', 'mapping.ids', 'mapping.count'])},
    ensures=[
        # declared or not, the record's constraints (SIZE, WITH COMPONENTS) decide -- on its members by name; no lookup error
        ('consistent-iff-the-constraints-admit-the-members',
         '(hasConstraints and not schema) ==> ((result is False) == admitted and named_upto(self.checked, LLEN0))'),
        ('a-schema-object-is-not-a-value-of-a-constrained-type', '(hasConstraints and schema) ==> isinstance(result, PyAsn1Error)'),
        ('nothing-to-check', '(not hasConstraints) ==> result is False'),
        ('read-only', 'schema or list_unchanged(self._componentValues)')],
    note='subtypeSpec.__call__ is the constraint contracts\' entry point (assumed model: admits or raises); the name lookups '
         '(NamedTypes.getNameByPosition, DynamicNames.getNameByPosition) are assumed models with distinct names')
RECORD_ISINCONSISTENT.empty_dict = empty_dict
CONTRACTS = CONTRACTS + [RECORD_ISINCONSISTENT]


# ---- len() of a record: the number of keys, whatever slots exist yet ------------------------------------------------------------
RECORD_LEN = record_contract(
    id='type.univ::SequenceAndSetBase.__len__', qual='SequenceAndSetBase.__len__', properties=['C19', 'C12'],
    params=dict(componentType=PConst(None), self=PDerived(_record_self)),
    globals=GR,
    requires=['N >= 0', 'schema or LLEN0 == 0 or N == 0 or LLEN0 == N'],
    ensures=[('declared-record-has-one-key-per-component', '(not schema and N > 0) ==> result == N'),
             ('undeclared-record-counts-its-components', '(not schema and N == 0) ==> result == LLEN0'),
             ('read-only', 'schema or list_unchanged(self._componentValues)')],
    raises={'PyAsn1Error': 'schema'},
    note='len() of the slot list is python\'s; on a schema object the noValue sentinel refuses it')
CONTRACTS = CONTRACTS + [RECORD_LEN]


# ---- "this slot holds the default value of its DEFAULT component" (callee of isInconsistent) -------------------------------------
def _hd_self(ex, env):
    default = Obj('Asn1Value', {}, name='defaultValue')
    nt = Obj('NamedType', {'isDefaulted': z3.Bool('slot.isDefaulted'), 'asn1Object': default}, name='namedType')

    def getitem(ex2, self, idx):
        if concrete(idx) is None and not (hasattr(idx, 'sort')):
            raise Unsupported('componentType[%r]' % (idx,))
        ex2.ghost['looked_up'] = idx
        return nt
    return Obj('Sequence', {'_componentTypeLen': z3.Int('declared.count'),
                            'componentType': Obj('NamedTypes', {}, {'__getitem__': getitem}, name='componentType')}, name='self')


def _hd_value(ex, env):
    def eq(ex2, self, other):
        if isinstance(other, Obj) and other.name == 'defaultValue':
            return z3.Bool('value.equalsDefault')
        raise Unsupported('value compared with something other than the declared default')
    return Obj('Asn1Value', {}, {'__eq__': eq}, name='value')


HOLDS_DEFAULT_C = Contract(
    file=U, id='type.univ::SequenceAndSetBase._holdsDefault', qual='SequenceAndSetBase._holdsDefault',
    properties=['C12', 'C14', 'C10', 'C01', 'C02'],
    params=dict(self=PDerived(_hd_self), idx=PInt(), value=PDerived(_hd_value)),
    ghost={'looked_up': -1},
    globals={'declared': z3.Int('declared.count'), 'isDefaulted': z3.Bool('slot.isDefaulted'),
             'equalsDefault': z3.Bool('value.equalsDefault')},
    requires=['declared >= 0'],
    ensures=[('default-held-iff-declared-defaulted-and-equal',
              '(True if result else False) == (declared > 0 and isDefaulted and equalsDefault)'),
             ('the-components-own-declaration-is-asked', 'declared > 0 ==> looked_up == idx')],
    note='NamedTypes.__getitem__ and the comparison of the member with the default value object are assumed models')
CONTRACTS = CONTRACTS + [HOLDS_DEFAULT_C]


# ---- reverse() of a SEQUENCE OF: position k holds what position L-1-k held (C19) ------------------------------------------------
# (the members are walked through dict.values(): for an object built by list operations that is position order -- `ordered0`)
ORDERED0 = ForAll([_i], Implies(And(_i >= 0, _i < C0), KEY_OF(_i) == _i))


class _SymSeq(RecSeqV):
    """a python sequence of stored objects known by identity tokens (what list(), reversed(), sorted() hand on)"""

    def elem(self, i):
        return element(self.cols[0][i])


def _m_list(ex, x=None):
    if isinstance(x, RecSeqV):
        return _SymSeq([x.cols[0]], names=('__id__',))
    raise Unsupported('list(%r)' % (x,))


def _m_reversed(ex, seq):
    z = seq.cols[0]
    n = z3.Length(z)
    r = ex.fresh('reversed', S)
    ex.assume(And(z3.Length(r) == n, ForAll([_i], Implies(And(_i >= 0, _i < n), r[_i] == z[n - 1 - _i]))))
    return _SymSeq([r], names=('__id__',))


def _m_enumerate(ex, seq):
    return Obj('enumerate', {'seq': seq}, name='enumerate(...)')


def _m_dict(ex, pairs=None, **kw):
    if pairs is None and not kw:
        return empty_dict(ex)
    if not (isinstance(pairs, Obj) and pairs.cls == 'enumerate'):
        raise Unsupported('dict(%r)' % (pairs,))
    z = pairs.fields['seq'].cols[0]
    n = z3.Length(z)
    p, ids = ex.fresh('dict.present', IntSet), ex.fresh('dict.ids', IntMap)
    ex.assume(And(ForAll([_k], Select(p, _k) == And(_k >= 0, _k < n)),
                  ForAll([_k], Implies(And(_k >= 0, _k < n), Select(ids, _k) == z[_k]))))
    return sym_dict(p, ids, n, name='dict(enumerate(...))')


def _is_reversed(ex, d):
    p, ids, cnt = d.fields['present'], d.fields['ids'], d.fields['count']
    return And(dense(p, cnt, L0), ForAll([_k], Implies(And(_k >= 0, _k < L0), Select(ids, _k) == Select(ID0, L0 - 1 - _k))))


REVERSE = contract(
    id='type.univ::SequenceOfAndSetOfBase.reverse', qual='SequenceOfAndSetOfBase.reverse', properties=['C19'],
    params=dict(componentType=PConst(None), self=PDerived(_self_iterable)),
    globals=dict(G, ordered0=ORDERED0, list=FnV(_m_list, 'list'), reversed=FnV(_m_reversed, 'reversed'),
                 enumerate=FnV(_m_enumerate, 'enumerate'), dict=FnV(_m_dict, 'dict'),
                 is_reversed=FnV(_on_dict(_is_reversed), 'is_reversed')),
    # an object built by list operations: positions 0..L-1, walked in that order
    requires=['not schema', 'dense0', 'ordered0'],
    ensures=[('position-k-holds-what-L-1-k-held', 'is_reversed(self._componentValues)')],
    note='dict.values(), list(), reversed(), enumerate() and dict() of (position, member) pairs are assumed models of the '
         'python builtins over a sequence of identity tokens; the new dict is filled front to back, i.e. stays in position '
         'order (stand-in sort-grid: index / count / stable sort after reverse())')
REVERSE.canary_witness = [C0 == 1, L0 == 1]       # a collection of one member: the quantifiers range over one position
CONTRACTS = CONTRACTS + [REVERSE]


# ---- sort(key, reverse): the members in the order python's sorted() gives them, front to back (C19) ---------------------------
def _m_sorted(ex, seq, key=None, reverse=False):
    """python's sorted() (assumed): some sequence of the same length -- which one is the builtin's business (a stable
    ascending / descending order by key: stand-in sort-grid); what matters here is that it is taken over as it is and that
    the caller's key and direction reach it"""
    z = seq.cols[0]
    r = ex.fresh('sorted', S)
    ex.assume(z3.Length(r) == z3.Length(z))
    ex.ghost['sorted.result'] = SeqV(r, 'any')
    ex.ghost['sorted.key'] = key
    ex.ghost['sorted.reverse'] = reverse
    ex.ghost['sorted.input'] = SeqV(z, 'any')
    return _SymSeq([r], names=('__id__',))


def _is_sorted_result(ex, d):
    r = ex.ghost.get('sorted.result')
    if r is None:
        return False
    p, ids, cnt = d.fields['present'], d.fields['ids'], d.fields['count']
    return And(dense(p, cnt, L0), ForAll([_k], Implies(And(_k >= 0, _k < L0), Select(ids, _k) == r.z[_k])))


def _sorted_got(ex, key, reverse):
    k_ok = ex.ghost.get('sorted.key') is key or (isinstance(key, Obj) and isinstance(ex.ghost.get('sorted.key'), Obj) and
                                                 ex.ghost['sorted.key'].uid == key.uid)
    rv = ex.ghost.get('sorted.reverse')
    from pyvc.core import tobool
    r_ok = (rv is reverse) if isinstance(rv, bool) and isinstance(reverse, bool) else (tobool(rv) == tobool(reverse))
    inp = ex.ghost.get('sorted.input')
    walked = ForAll([_i], Implies(And(_i >= 0, _i < C0), inp.z[_i] == Select(ID0, _i))) if inp is not None else False
    return And(z3.BoolVal(bool(k_ok)), r_ok, walked)


SORT = contract(
    id='type.univ::SequenceOfAndSetOfBase.sort', qual='SequenceOfAndSetOfBase.sort', properties=['C19'],
    params=dict(componentType=PConst(None), self=PDerived(_self_iterable),
                key=POneOf([None, Obj('function', {}, name='key')]), reverse=PBool()),
    globals=dict(G, ordered0=ORDERED0, sorted=FnV(_m_sorted, 'sorted'), enumerate=FnV(_m_enumerate, 'enumerate'),
                 dict=FnV(_m_dict, 'dict'), is_sorted_result=FnV(_on_dict(_is_sorted_result), 'is_sorted_result'),
                 sorted_got=FnV(_sorted_got, 'sorted_got')),
    requires=['not schema', 'dense0', 'ordered0'],
    ensures=[('members-in-sorted-order-front-to-back', 'is_sorted_result(self._componentValues)'),
             ('sorted-sees-the-members-in-position-order-with-the-callers-key-and-direction', 'sorted_got(key, reverse)')],
    note='sorted() is python\'s (assumed: stable, by key, ascending or descending); this contract is about the plumbing around it')
SORT.canary_witness = [C0 == 1, L0 == 1]
CONTRACTS = CONTRACTS + [SORT]
