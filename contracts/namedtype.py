"""Contracts on pyasn1/type/namedtype.py: the position lookups the constructed decoders rely on (C09, C10).

BOUNDED: NamedTypes.__computeAmbiguousTypes builds python tuples of NamedType objects in a loop over the declaration; it
is checked for declarations of 0..4 components with every OPTIONAL/DEFAULT pattern (symbolic flags), labelled bounded.
The lookups built on its result are contracts over any declaration."""
import z3
from z3 import Bool, Int, And, Or, Not, If, IntVal

from pyvc.core import (Contract, Loop, PInt, PBool, PConst, PObj, POneOf, PDerived, Obj, Tup, FnV, ExcV, _Raise, ClassV, DictV,
                       BoolSort, I, toint, concrete, Unsupported)

F = 'pyasn1/type/namedtype.py'
NMAX = 4


def _named_type(i):
    return Obj('NamedType', {'isOptional': Bool('optional.%d' % i), 'isDefaulted': Bool('defaulted.%d' % i), 'position': i},
               name='namedType%d' % i)


NTS = [_named_type(i) for i in range(NMAX)]


def _ctor(ex, *members, **kw):
    terminal = kw.get('terminal')
    if '**' in kw and 'terminal' in kw['**'].entries and kw['**'].entries['terminal'][0] is True:
        terminal = kw['**'].entries['terminal'][1]
    return Obj('NamedTypes', {'members': Tup(list(members)), 'terminal': terminal}, name='NamedTypes(..)')


def _self(ex, env):
    n = env['n']
    return Obj('NamedTypes', {'__namedTypes': Tup(NTS[:n])}, name='self')


def _skippable(k):
    return Or(NTS[k].fields['isOptional'], NTS[k].fields['isDefaulted'])


def _expected(ex, result, n):
    """result[idx] holds the components from idx up to and including the first one at or after idx that is neither OPTIONAL
    nor DEFAULT (or up to the end of the declaration); it is `self` when that is the whole declaration"""
    n = concrete(n)
    clauses = []
    if sorted(k for k, e in result.entries.items() if e[0] is True) != list(range(n)):
        return False
    for idx in range(n):
        got = result.entries[idx][1]
        for end in range(idx, n):
            cond = And(*([_skippable(k) for k in range(idx, end)] + [BoolVal_(True) if end == n - 1 else Not(_skippable(end))]))
            want = list(range(idx, end + 1))
            if want == list(range(n)):
                same = BoolVal_(isinstance(got, Obj) and got.name == 'self')
            else:
                mem = got.fields.get('members') if isinstance(got, Obj) else None
                same = BoolVal_(mem is not None and [m.fields['position'] for m in mem.items] == want and
                                got.fields.get('terminal') is True)
            clauses.append(z3.Implies(cond, same))
    return And(*clauses) if clauses else True


def BoolVal_(b):
    return z3.BoolVal(bool(b))


AMBIGUOUS = Contract(
    id='type.namedtype::NamedTypes.__computeAmbiguousTypes[up-to-4-components]', file=F, qual='NamedTypes.__computeAmbiguousTypes',
    properties=['C09', 'C10'],
    params=dict(n=POneOf(0, 1, 2, 3, 4), self=PDerived(_self)),
    globals={'NamedTypes': FnV(_ctor, 'NamedTypes'), 'expected': FnV(_expected, 'expected')},
    ensures=[('run-up-to-the-next-mandatory-component', 'expected(result, n)')],
    note='BOUNDED to declarations of at most 4 components, every OPTIONAL/DEFAULT pattern')
AMBIGUOUS.bounded = 'declarations of 0..4 components, all OPTIONAL/DEFAULT patterns (symbolic flags)'
CONTRACTS = [AMBIGUOUS]


# ---- lookups over any declaration -------------------------------------------------------------------------------------------
PARTIAL_TAGMAP = Obj('TagMap', {}, name='partial.tagMap')


def _self_lookup(ex, env):
    """self.__ambiguousTypes: position -> the run of components starting there (see above); a position outside the
    declaration has no entry"""
    def partial_getitem(ex2, self, idx):
        idx = toint(idx)
        if not ex2.choose(Bool('position.declared'), 'position-declared'):
            raise _Raise(ExcV('KeyError'))

        def by_type(ex3, me, tagSet):
            """callee contract NamedTypes.getPositionByType on the run: the offset of the component with these tags within
            the run, or PyAsn1Error"""
            if not ex3.choose(Bool('tags.in.run'), 'tags-in-run'):
                raise _Raise(ExcV('PyAsn1Error'))
            me.fields['askedFor'] = tagSet
            return Int('offset.in.run')
        return Obj('NamedTypes', {'tagMap': PARTIAL_TAGMAP, 'startsAt': idx, 'askedFor': None}, {'getPositionByType': by_type},
                   name='run')
    amb = Obj('dict', {}, {'__getitem__': partial_getitem}, name='__ambiguousTypes')
    tag_to_pos = Obj('dict', {}, {'__getitem__': lambda ex2, self, k: (Int('position.of.tags') if ex2.choose(Bool('tags.declared'), 'tags-declared')
                                                                      else (_ for _ in ()).throw(_Raise(ExcV('KeyError'))))},
                     name='__tagToPosMap')
    return Obj('NamedTypes', {'__ambiguousTypes': amb, '__tagToPosMap': tag_to_pos}, name='self')


TAGS = Obj('TagSet', {}, name='tagSet')
_LG = {'declared': Bool('position.declared'), 'inRun': Bool('tags.in.run'), 'offset': Int('offset.in.run'), 'tagsDeclared': Bool('tags.declared'),
       'positionOfTags': Int('position.of.tags'), 'runTagMap': PARTIAL_TAGMAP,
       'error': {'PyAsn1Error': ClassV('PyAsn1Error'), '__name__': 'error'}}
NEAR_TYPE = Contract(
    id='type.namedtype::NamedTypes.getPositionNearType', file=F, qual='NamedTypes.getPositionNearType', properties=['C09', 'C10'],
    params=dict(self=PDerived(_self_lookup), tagSet=PConst(TAGS), idx=PInt()), globals=_LG,
    # the position is idx plus the offset of the tags within the run of components that may stand at idx
    ensures=[('offset-within-the-run-starting-at-idx', 'declared and inRun and result == idx + offset')],
    raise_ensures={'PyAsn1Error': ['not declared or not inRun']},
    may_raise={'PyAsn1Error': True},
    note='only library errors: a position outside the declaration (KeyError inside) is reported as PyAsn1Error')
NEAR_MAP = Contract(
    id='type.namedtype::NamedTypes.getTagMapNearPosition', file=F, qual='NamedTypes.getTagMapNearPosition', properties=['C09', 'C10'],
    params=dict(self=PDerived(_self_lookup), idx=PInt()), globals=_LG,
    ensures=[('tag-map-of-the-run-starting-at-idx', 'declared and result is runTagMap')],
    raise_ensures={'PyAsn1Error': ['not declared']}, may_raise={'PyAsn1Error': True})
BY_TYPE = Contract(
    id='type.namedtype::NamedTypes.getPositionByType', file=F, qual='NamedTypes.getPositionByType', properties=['C09', 'C10'],
    params=dict(self=PDerived(_self_lookup), tagSet=PConst(TAGS)), globals=_LG,
    ensures=[('position-of-the-tags', 'tagsDeclared and result == positionOfTags')],
    raise_ensures={'PyAsn1Error': ['not tagsDeclared']}, may_raise={'PyAsn1Error': True})
CONTRACTS = CONTRACTS + [NEAR_TYPE, NEAR_MAP, BY_TYPE]


# ---- the cached summaries of a declaration (NamedTypes.__init__): what the decoders' fast paths rely on (bounded) ---------------
def _self_init(ex, env):
    n = env['n']
    for i in range(NMAX):
        NTS[i].fields['openType'] = None
        NTS[i].fields['name'] = 'name%d' % i
        NTS[i].fields['asn1Object'] = Obj('Asn1Type', {}, name='type%d' % i)
    return Obj('NamedTypes', {'__namedTypes': Tup(NTS[:n])}, name='self')


def _summary_ok(ex, self_, n):
    n = concrete(n)
    flags = [Or(NTS[i].fields['isOptional'], NTS[i].fields['isDefaulted']) for i in range(n)]
    has = self_.fields['__hasOptionalOrDefault']
    want = Or(*flags) if flags else z3.BoolVal(False)
    hz = has if isinstance(has, z3.ExprRef) else z3.BoolVal(bool(has))
    return hz == want


def _required_ok(ex, self_, n):
    n = concrete(n)
    members = set(self_.fields['__requiredComponents'].fields['members'].items)
    return And(*[Not(_skippable(i)) if i in members else _skippable(i) for i in range(n)]) if n else (not members)


SUMMARIES = Contract(
    id='type.namedtype::NamedTypes.__init__@summaries[up-to-4-components]', file=F, qual='NamedTypes.__init__',
    region='tail:self.__hasOptionalOrDefault =',
    properties=['C09', 'C10', 'C01'],
    params=dict(n=POneOf(0, 1, 2, 3, 4), self=PDerived(_self_init)),
    globals={'summary_ok': FnV(_summary_ok, 'summary_ok'), 'required_ok': FnV(_required_ok, 'required_ok')},
    ensures=[
        # the decoders take the positional fast path only if no member may be left out: the flag has to see DEFAULT members too
        ('has-optional-or-default-iff-some-member-is', 'summary_ok(self, n)'),
        # ... and "every mandatory member present" is checked against exactly the members that are neither
        ('required-components-are-the-mandatory-ones', 'required_ok(self, n)')],
    note='BOUNDED to declarations of at most 4 components; the region is the tail of __init__ that computes the summaries')
SUMMARIES.bounded = AMBIGUOUS.bounded
CONTRACTS = CONTRACTS + [SUMMARIES]
