"""Contracts on pyasn1/compat/integer.py (CPython-3 branch of the module-level version switch)."""
from pyvc.core import Contract, PInt, PBytes, PConst

F = 'pyasn1/compat/integer.py'

CONTRACTS = [
    Contract(
        id='compat.integer::to_bytes[signed]', file=F, qual='<py3>.to_bytes', properties=['C01', 'C03'],
        params=dict(value=PInt(), signed=PConst(True), length=PConst(0)),
        ensures=[('denotes', 'X.twos_val(result) == value'),
                 ('minimal', 'len(result) == X.twos_len(value)'),
                 ('octets', 'isinstance(result, bytes) and X.inr(result)')],
        # no raises clause: OverflowError/ValueError escaping is an obligation (raises.unexpected.*)
        external=['denotes', 'minimal', 'octets'], returns=PBytes(),
        note='as called by ber.encoder.IntegerEncoder.encodeValue: to_bytes(int(value), signed=True)',
    ),
    Contract(
        id='compat.integer::to_bytes[unsigned,length]', file=F, qual='<py3>.to_bytes', properties=['C01'],
        params=dict(value=PInt(), signed=PConst(False), length=PInt()),
        requires=['value >= 0', 'length >= 0'],
        ensures=[('denotes', 'X.val256(result) == value'),
                 ('octets', 'isinstance(result, bytes) and X.inr(result)')],
        external=['denotes'],
        note='as called by univ.SizedInteger/BitString.asOctets: to_bytes(value, length=len(self))',
    ),
    Contract(
        id='compat.integer::from_bytes[signed]', file=F, qual='<py3>.from_bytes', properties=['C01', 'C09'],
        params=dict(octets=PBytes(), signed=PConst(True)),
        ensures=[('denotes', 'result == X.twos_val(octets)')],
        external=['denotes'], returns=PInt(),
    ),
    Contract(
        id='compat.integer::from_bytes[unsigned]', file=F, qual='<py3>.from_bytes', properties=['C01'],
        params=dict(octets=PBytes(), signed=PConst(False)),
        ensures=[('denotes', 'result == X.val256(octets)')],
        external=['denotes'],
    ),
]

FROM_BYTES_SIGNED = [c for c in CONTRACTS if c.id.endswith('from_bytes[signed]')][0]
TO_BYTES_SIGNED = [c for c in CONTRACTS if c.id.endswith('to_bytes[signed]')][0]
