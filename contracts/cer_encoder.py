"""Contracts on pyasn1/codec/cer/encoder.py and der/encoder.py."""
import re

import z3

from pyvc.core import (Contract, Loop, PInt, PBool, PConst, PObj, POptions, PIntTuple, PDerived, POneOf, Obj, SeqV, Tup, FnV,
                       class_consts, module_int_consts)

F = 'pyasn1/codec/cer/encoder.py'


def char_consts(cls):
    """class attributes of the form NAME = ord('x') / NAME = <int>, read from the real class body"""
    out = {}
    for k, v in class_consts(F, cls).items():
        if isinstance(v, tuple) and v[0] == 'expr':
            m = re.fullmatch(r"ord\('(.)'\)", v[1])
            if m:
                out[k] = ord(m.group(1))
        elif isinstance(v, int):
            out[k] = v
    return out


def time_contract(cls):
    consts = dict(char_consts('TimeEncoderMixIn'))
    consts.update(char_consts(cls))          # MIN_LENGTH / MAX_LENGTH overrides

    def as_numbers(ex, self):
        return self.fields['numbers']

    def octet_string_encode_value(ex, *a, **k):
        return Tup([SeqV(z3.Const('content', z3.SeqSort(z3.IntSort())), 'bytes'), False, True])
    C = consts
    return Contract(
        id='cer.encoder::%s.encodeValue[no-fraction]' % cls, file=F, qual='TimeEncoderMixIn.encodeValue',
        properties=['C20', 'C03'],
        params=dict(self=PObj(cls, **{k: PConst(v) for k, v in consts.items()}),
                    numbers=PIntTuple(),
                    value=PDerived(lambda ex, env: Obj('TimeValue', {'numbers': env['numbers']}, {'asNumbers': as_numbers})),
                    asn1Spec=PConst(None), encodeFun=PConst(None), options=POptions()),
        globals={'encoder': {'OctetStringEncoder': {'encodeValue': FnV(octet_string_encode_value, 'OctetStringEncoder.encodeValue')},
                             '__name__': 'encoder'}},
        requires=['len(numbers) >= 1', '%d not in numbers' % C['DOT_CHAR']],
        # C20: the canonical encoders refuse values that are not in UTC (and decimal commas, and out-of-window lengths)
        raises={'PyAsn1Error': '%d in numbers or %d in numbers or numbers[-1] != %d or %d in numbers or '
                               'not (%d < len(numbers) < %d)' % (C['PLUS_CHAR'], C['MINUS_CHAR'], C['Z_CHAR'],
                                                                 C['COMMA_CHAR'], C['MIN_LENGTH'], C['MAX_LENGTH'])},
        note='strings without a fraction: accepted iff they end in Z, carry no +/- zone, no comma and fit the window')


from pyvc.core import PRecSeq, Length, mk_seq, concrete, And, Or, Not

TAG_SORT_KEY = Contract(
    id='cer.encoder::SetEncoder._tagSortKey', file=F, qual='SetEncoder._tagSortKey', properties=['C03', 'C04'],
    params=dict(superTags=PRecSeq(3, names=('tagClass', 'tagFormat', 'tagId')),
                tagSet=PDerived(lambda ex, env: Obj('TagSet', {'superTags': env['superTags'],
                                                             '__truthy__': Length(env['superTags'].cols[0]) > 0}))),
    # X.690 10.3 / X.680 8.6: members are ordered by class, then number, of their OUTERMOST tag (the last one);
    # the primitive/constructed bit plays no part
    ensures=[('outermost-class-number', 'len(superTags) > 0 ==> result == X.seq(superTags[len(superTags) - 1].tagClass, '
                                        'superTags[len(superTags) - 1].tagId)'),
             ('untagged', 'len(superTags) == 0 ==> result == ()')],
    external=['outermost-class-number', 'untagged'])

CONTRACTS = [time_contract('GeneralizedTimeEncoder'), time_contract('UTCTimeEncoder'), TAG_SORT_KEY]


# ---- CER/DER SEQUENCE OF: all element encodings in order; left out only as an *empty* OPTIONAL member ----------------
def _cer_seqof_value(ex, env):
    import z3 as _z
    n = _z.Int('nElements')
    ex.assume(_z.And(n >= 0, n <= 2))
    return Obj('SequenceOf', {}, {'__len__': lambda ex2, self: n}, name='value')


def _components_model(ex, self, value, asn1Spec, encodeFun, **options):
    """assumed contract of SequenceOfEncoder._encodeComponents (proved: ber.encoder::SequenceOfEncoder._encodeComponents):
    one chunk per element, in order"""
    import z3 as _z
    from pyvc.core import S, inr, concrete
    n = _z.Int('nElements')
    out = []
    for i in range(2):
        if ex.choose(n > i, 'has-element-%d' % i):
            z = _z.Const('chunk%d' % i, S)
            ex.assume(inr(z))
            out.append(SeqV(z, 'bytes'))
    return Tup(out, 'list')


CER_SEQOF = Contract(
    id='cer.encoder::SequenceOfEncoder.encodeValue', file=F, qual='SequenceOfEncoder.encodeValue', properties=['C02', 'C03'],
    params=dict(self=PObj('SequenceOfEncoder', methods={'_encodeComponents': _components_model}),
                value=PDerived(_cer_seqof_value), asn1Spec=PConst(None), encodeFun=PConst(None),
                options=POptions(ifNotEmpty=PBool())),
    globals={'nElements': __import__('z3').Int('nElements'),
             'chunk0': SeqV(__import__('z3').Const('chunk0', __import__('z3').SeqSort(__import__('z3').IntSort())), 'bytes'),
             'chunk1': SeqV(__import__('z3').Const('chunk1', __import__('z3').SeqSort(__import__('z3').IntSort())), 'bytes')},
    ensures=[('all-elements-in-order', 'result[0] == X.cat(chunk0 if nElements > 0 else X.empty(), '
                                       'chunk1 if nElements > 1 else X.empty())'),
             ('constructed', 'result[1] is True and result[2] is True')],
    external=['all-elements-in-order'],
    note='the content is empty only when the collection is empty; whether an empty OPTIONAL member is then left out '
         'altogether is decided one level up (AbstractItemEncoder.encode, ifNotEmpty: recorded finding '
         'KF-empty-optional-of-omitted)')
CONTRACTS = CONTRACTS + [CER_SEQOF]


# ---- DER: a SET member that is an untagged CHOICE is placed by the tag actually encoded (X.690 10.3) ----------------------
def _der_component(ex, env):
    """an element with tags, wrapped in `depth` untagged CHOICEs (each holding the next as its chosen alternative)"""
    depth = env['depth']
    inner_ts = Obj('TagSet', {'__truthy__': True}, name='innerTagSet')
    obj = Obj('Element', {'typeId': 'other-type-id', 'tagSet': inner_ts}, name='chosenLeaf')
    if env['leaf_is_tagged_choice']:
        obj = Obj('Choice', {'typeId': 'choice-type-id', 'tagSet': inner_ts}, {'getComponent': lambda ex2, self: None},
                  name='taggedChoice')
    for i in range(depth):
        nxt = obj
        obj = Obj('Choice', {'typeId': 'choice-type-id', 'tagSet': Obj('TagSet', {'__truthy__': False}, name='untagged')},
                  {'getComponent': (lambda n: (lambda ex2, self: n))(nxt)}, name='untaggedChoice%d' % i)
    env['_inner_ts'] = inner_ts
    return Tup([obj, None])


DER_SORT_KEY = Contract(
    id='der.encoder::SetEncoder._componentSortKey[value-object]', file='pyasn1/codec/der/encoder.py',
    qual='SetEncoder._componentSortKey', properties=['C03', 'C02', 'C04'],
    params=dict(depth=POneOf(0, 1, 2, 3), leaf_is_tagged_choice=POneOf(False, True), componentAndType=PDerived(_der_component),
                inner=PDerived(lambda ex, env: env['_inner_ts'])),
    globals={'univ': {'Choice': {'typeId': 'choice-type-id'}, '__name__': 'univ'},
             'SetEncoder': {'_tagSortKey': FnV(lambda ex, ts: Obj('Key', {'of': ts}, name='key'), 'SetEncoder._tagSortKey'),
                            '__name__': 'SetEncoder'}},
    ensures=[('key-of-the-alternative-actually-encoded', 'result.of is inner')],
    note='however deeply the untagged CHOICEs nest, the key is taken from the tags that go on the wire; a *tagged* CHOICE '
         'is placed by its own tags (cer.encoder::SetEncoder._tagSortKey turns the tag set into (class, number))')
CONTRACTS = CONTRACTS + [DER_SORT_KEY]


# ---- CER/DER SET OF (X.690 11.6): member encodings in ascending order, shorter ones padded with zero octets for comparison --------
# Bounded: collections of 0..3 members (the sort is python's list.sort, axiomatised for the keys at hand); labelled so.
NSET = 3
_CH = [z3.Const('member%d' % i, z3.SeqSort(z3.IntSort())) for i in range(NSET)]


def _setof_components(ex, self, value, asn1Spec, encodeFun, **options):
    """assumed contract of SequenceOfEncoder._encodeComponents (proved: ber.encoder::SequenceOfEncoder._encodeComponents):
    one chunk per member, in the order the members are held"""
    from pyvc.core import inr
    n = z3.Int('nMembers')
    ex.assume(z3.And(n >= 0, n <= NSET))
    out = []
    for i in range(NSET):
        if ex.choose(n > i, 'has-member-%d' % i):
            ex.assume(inr(_CH[i]))
            out.append(SeqV(_CH[i], 'bytes'))
    return Tup(out, 'list')


def _sorted_concat(ex, result):
    """result is the concatenation of the members in some arrangement whose zero-padded encodings ascend"""
    import itertools
    from pyvc.core import SEQ_LE, toint
    from spec.smt import zeros
    n = z3.Int('nMembers')
    cases = []
    for k in range(NSET + 1):
        lens = [z3.Length(c) for c in _CH[:k]]
        mx = None
        for ln in lens:
            mx = ln if mx is None else z3.If(mx >= ln, mx, ln)
        pads = [z3.Concat(c, zeros(z3.If(mx > z3.Length(c), mx - z3.Length(c), z3.IntVal(0)))) for c in _CH[:k]] if k else []
        perms = []
        for perm in itertools.permutations(range(k)):
            parts = [_CH[i] for i in perm]
            cat = z3.Empty(z3.SeqSort(z3.IntSort())) if not parts else (parts[0] if len(parts) == 1 else z3.Concat(*parts))
            order = [SEQ_LE(pads[i], pads[j]) for i, j in zip(perm, perm[1:])]
            perms.append(z3.And(result.z == cat, *order))
        cases.append(z3.Implies(n == k, z3.Or(*perms)))
    return z3.And(*cases)


CER_SETOF = Contract(
    id='cer.encoder::SetOfEncoder.encodeValue[up-to-3-members]', file=F, qual='SetOfEncoder.encodeValue',
    properties=['C03', 'C04', 'C02'],
    params=dict(self=PObj('SetOfEncoder', methods={'_encodeComponents': _setof_components}),
                value=PConst(Obj('SetOf', {}, name='value')), asn1Spec=PConst(None), encodeFun=PConst(None), options=POptions()),
    globals={'sorted_concat': FnV(_sorted_concat, 'sorted_concat'), 'str2octs': FnV(lambda ex, s: SeqV(mk_seq([ord(c) for c in s]), 'bytes'), 'str2octs')},
    ensures=[('members-in-ascending-order-of-padded-encodings', 'sorted_concat(result[0])'),
             ('constructed', 'result[1] is True and result[2] is True')],
    note='BOUNDED to collections of at most 3 members (python list.sort axiomatised for the keys at hand: stable, keys '
         'compared as bytes); larger collections are covered by the cer-twin / der-twin stand-ins')
CER_SETOF.bounded = 'SET OF values of at most 3 members (every arrangement of their encodings, of any lengths)'
CONTRACTS = CONTRACTS + [CER_SETOF]


CER_SEQOF.bounded = 'collections of at most 2 elements'
DER_SORT_KEY.bounded = 'untagged CHOICEs nested at most 3 deep'


# ---- CER/DER SET (X.690 10.3 / 9.3): present members only, in ascending order of their tags ---------------------------------------
# Bounded: records of exactly 3 members (python's sorted() axiomatised for the keys at hand); labelled so.
NSETM = 3
_MCH = [z3.Const('memberEncoding%d' % i, z3.SeqSort(z3.IntSort())) for i in range(NSETM)]
_KCLS = [z3.Int('key.class.%d' % i) for i in range(NSETM)]
_KID = [z3.Int('key.number.%d' % i) for i in range(NSETM)]
_FL = lambda n, i: z3.Bool('%s.%d' % (n, i))


def _set_record(ex, env):
    comps, nts = [], []
    for i in range(NSETM):
        dflt = Obj('Default', {}, name='default%d' % i)
        eqd = _FL('equalsDefault', i)
        comps.append(Obj('Component', {'isValue': _FL('isValue', i), 'position': i},
                         {'__eq__': (lambda e: (lambda ex2, self, other: e))(eqd)}, name='component%d' % i))
        nts.append(Obj('NamedType', {'isOptional': _FL('isOptional', i), 'isDefaulted': _FL('isDefaulted', i), 'asn1Object': dflt,
                                     'openType': None}, name='namedType%d' % i))
    named = Obj('NamedTypes', {'__truthy__': True}, {'__getitem__': lambda ex2, self, i: nts[concrete(i)]}, name='namedTypes')
    return Obj('Set', {'isInconsistent': False, 'componentType': named}, {'values': lambda ex2, self: Tup(list(comps), 'list')},
               name='value')


def _member_sort_key(ex, self, pair):
    """callee contracts SetEncoder._componentSortKey / _tagSortKey (proved): (class, number) of the member's outermost tag"""
    comp = pair.items[0]
    i = comp.fields['position']
    return Tup([_KCLS[i], _KID[i]])


def _encode_member3(ex, component, asn1Spec=None, **options):
    from pyvc.core import inr
    i = component.fields['position']
    ex.assume(inr(_MCH[i]))
    return SeqV(_MCH[i], 'bytes')


def _set_expected(ex, result):
    """result = the encodings of the present members in an arrangement whose tag keys ascend (ties: declaration order)"""
    import itertools
    E = z3.Empty(z3.SeqSort(z3.IntSort()))

    def present(i):
        return And(Not(And(_FL('isOptional', i), Not(_FL('isValue', i)))), Not(And(_FL('isDefaulted', i), _FL('equalsDefault', i))))

    def key_le(i, j):
        return Or(_KCLS[i] < _KCLS[j], And(_KCLS[i] == _KCLS[j], _KID[i] <= _KID[j]))

    def key_lt(i, j):
        return Or(_KCLS[i] < _KCLS[j], And(_KCLS[i] == _KCLS[j], _KID[i] < _KID[j]))
    cases = []
    for subset in itertools.product([False, True], repeat=NSETM):
        members = [i for i in range(NSETM) if subset[i]]
        cond = And(*[present(i) if subset[i] else Not(present(i)) for i in range(NSETM)])
        arrangements = []
        for perm in itertools.permutations(members):
            order = [And(key_le(i, j), Or(key_lt(i, j), z3.BoolVal(i < j))) for i, j in zip(perm, perm[1:])]
            parts = [_MCH[i] for i in perm]
            cat = E if not parts else (parts[0] if len(parts) == 1 else z3.Concat(*parts))
            arrangements.append(And(result.z == cat, *order))
        cases.append(z3.Implies(cond, Or(*arrangements)))
    return And(*cases)


CER_SET = Contract(
    id='cer.encoder::SetEncoder.encodeValue[value-object,3-members]', file=F, qual='SetEncoder.encodeValue',
    properties=['C03', 'C04', 'C02'],
    params=dict(self=PObj('SetEncoder', methods={'_componentSortKey': _member_sort_key, '_memberSortKey': _member_sort_key}),
                value=PDerived(_set_record),
                asn1Spec=PConst(None), encodeFun=PConst(FnV(_encode_member3, 'encodeFun')), options=POptions()),
    globals={'set_expected': FnV(_set_expected, 'set_expected'), 'null': SeqV(z3.Empty(z3.SeqSort(z3.IntSort())), 'bytes')},
    loops={0: Loop(unroll=True), 2: Loop(unroll=True)},
    ensures=[('present-members-in-ascending-tag-order', 'set_expected(result[0])'),
             ('constructed', 'result[1] is True and result[2] is True')],
    note='BOUNDED to records of 3 members, every OPTIONAL/DEFAULT pattern and every tag order; the sort keys are the callee '
         'contracts _componentSortKey / _tagSortKey')
CER_SET.bounded = 'SET types of exactly 3 members, every OPTIONAL / DEFAULT / value pattern and every assignment of tag keys'
CONTRACTS = CONTRACTS + [CER_SET]


# ---- the key of one SET member: a tagged open type field sorts by its own tag (what is on the wire), not by its inner value's ----
def _msk_member(ex, env):
    open_ = ex.choose(z3.Bool('member.hasOpenType'), 'open-type-member')
    tagged = ex.choose(z3.Bool('field.isTagged'), 'field-tagged')
    field_tags = Obj('TagSet', {'__truthy__': tagged}, name='field.tagSet')
    declared = Obj('Asn1Type', {'tagSet': field_tags}, name='declaredType')
    if ex.choose(z3.Bool('member.declared'), 'declared-member'):
        nt = Obj('NamedType', {'openType': Obj('OpenType', {}, name='openType') if open_ else None, 'asn1Object': declared},
                 name='namedType')
    else:
        nt = None
    return Tup([Obj('Component', {}, name='component'), Obj('Asn1Type', {}, name='asn1Spec'), nt])


_MSK_FIELD_KEY = Tup([z3.Int('fieldKey.class'), z3.Int('fieldKey.number')])
_MSK_VALUE_KEY = Tup([z3.Int('valueKey.class'), z3.Int('valueKey.number')])
MEMBER_SORT_KEY = Contract(
    id='cer.encoder::SetEncoder._memberSortKey', file=F, qual='SetEncoder._memberSortKey', properties=['C03', 'C18', 'C04'],
    params=dict(self=PObj('SetEncoder', methods={
        '_tagSortKey': lambda ex, self, ts: _MSK_FIELD_KEY if ts.name == 'field.tagSet' else Tup([z3.Int('other.class'), z3.Int('other.number')]),
        '_componentSortKey': lambda ex, self, pair: _MSK_VALUE_KEY}), member=PDerived(_msk_member)),
    globals={'declared': z3.Bool('member.declared'), 'open_': z3.Bool('member.hasOpenType'), 'tagged': z3.Bool('field.isTagged'),
             'fieldKey': _MSK_FIELD_KEY, 'valueKey': _MSK_VALUE_KEY},
    ensures=[('tagged-open-type-field-by-its-own-tag', '(declared and open_ and tagged) ==> result == fieldKey'),
             ('every-other-member-by-what-it-is', '(not (declared and open_ and tagged)) ==> result == valueKey')],
    note='_tagSortKey and _componentSortKey are the callee contracts')
CONTRACTS = CONTRACTS + [MEMBER_SORT_KEY]
