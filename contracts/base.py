"""Contracts on pyasn1/type/base.py: the single funnel through which every simple value object gets its value.

C14 (every way of obtaining a value object checks the constraints of the result) rests on three facts proved here on
the real methods: (1) SimpleAsn1Type.__init__ stores exactly prettyIn(value) and only after subtypeSpec admitted it;
(2) clone() and subtype() either return self unchanged or construct the result through self.__class__(...), i.e. through
(1), with the value and the merged initializers; (3) neither of them writes to self (C12: the source object, in
particular its readOnly record, is unchanged).  That no other code assigns `_value` is the structural obligation
`frame::types#value-assigned-only-in-init` (group value-funnel)."""
import z3
from z3 import Bool, Int, Not

from pyvc.core import (Contract, PInt, PBool, PConst, PDerived, POptions, POneOf, Obj, Tup, FnV, ExcV, _Raise, DictV, ClassV,
                       NOVALUE, toint)

F = 'pyasn1/type/base.py'
admits = z3.Function('admits', z3.IntSort(), z3.BoolSort())       # denotation of self.subtypeSpec
pretty_in = z3.Function('prettyIn', z3.IntSort(), z3.IntSort())    # the type's normalisation of initialisers


def _subtype_spec(ex, value, idx=None):
    if not ex.choose(admits(toint(value)), 'admits'):
        raise _Raise(ExcV('ValueConstraintError', (OPAQUE,)))
    return None


OPAQUE = 'constraint violated'


def _value_param(ex, env):
    if ex.choose(Bool('value.isNoValue'), 'value-novalue'):
        return NOVALUE
    return Int('value')


def _mk_self_init(ex, env):
    # the class-level default: noValue unless a subclass declares one
    default = NOVALUE if ex.choose(Bool('default.isNoValue'), 'no-class-default') else Int('defaultValue')
    return Obj('SimpleAsn1Type', {'defaultValue': default, 'subtypeSpec': FnV(_subtype_spec, 'self.subtypeSpec'),
                                  '__class__': Obj('type', {'__name__': 'Integer'}, name='cls')},
               {'prettyIn': lambda ex2, self, v: pretty_in(toint(v))}, name='self')


SIMPLE_INIT = Contract(
    id='type.base::SimpleAsn1Type.__init__', file=F, qual='SimpleAsn1Type.__init__', properties=['C14', 'C10', 'C11'],
    params=dict(self=PDerived(_mk_self_init), value=PDerived(_value_param), kwargs=POptions()),
    globals={'Asn1Type': {'__init__': FnV(lambda ex, self, **kw: None, 'Asn1Type.__init__'), '__name__': 'Asn1Type'},
             'admits': lambda ex, v: admits(toint(v)), 'PI': lambda ex, v: pretty_in(Int('value') if v is NOVALUE else toint(v)),
             'noDefault': Bool('default.isNoValue'), 'PD': pretty_in(Int('defaultValue'))},
    ensures=[('stores-normalised-value', 'old(value) is not noValue ==> self._value == PI(old(value))'),
             ('stored-value-admitted', 'old(value) is not noValue ==> admits(self._value)'),
             ('schema-object-without-a-class-default', '(old(value) is noValue and noDefault) ==> self._value is noValue'),
             # C14: a class-level default is a value like any other -- normalised, and admitted by the type's constraints
             ('class-default-normalised-and-admitted', '(old(value) is noValue and not noDefault) ==> '
                                                       '(self._value == PD and admits(self._value))')],
    raises={'ValueConstraintError': '(value is not noValue and not admits(PI(value))) or '
                                    '(value is noValue and not noDefault and not admits(PD))'},
    note='no value object exists whose value its own subtypeSpec rejects: the constraint is evaluated on the '
         'normalised value before it is stored, and a violation leaves no object behind')


# ---- clone / subtype ----------------------------------------------------------------------------------------------
def _ctor(ex, value=NOVALUE, **kw):
    return Obj('SimpleAsn1Type', {'_value': value}, name='derived')


class _Sum(Obj):
    pass


def _addable(name):
    def add(ex, self, other):
        return Obj('Sum', {'left': self, 'right': other}, {'__add__': add}, name='(%s+..)' % name)
    return Obj('Attr', {}, {'__add__': add}, name=name)


TS, SS = _addable('self.tagSet'), _addable('self.subtypeSpec')
TS2, SS2 = _addable('kw.tagSet'), _addable('kw.subtypeSpec')
IMPL, EXPL = Obj('Tag', {}, name='implicitTag'), Obj('Tag', {}, name='explicitTag')


def _tagset(ex, env):
    return Obj('TagSet', {}, {'tagImplicitly': lambda ex2, self, t: Obj('TagSet', {'how': 'implicit', 'tag': t, 'of': self},
                                                                          name='tagImplicitly(..)'),
                              'tagExplicitly': lambda ex2, self, t: Obj('TagSet', {'how': 'explicit', 'tag': t, 'of': self},
                                                                          name='tagExplicitly(..)')}, name='self.tagSet')


def _mk_self(ex, env):
    val = NOVALUE if ex.choose(Bool('self.isSchema'), 'self-schema') else Int('self._value')
    ts = env['ts0']
    def refine(ex2, self, current, option):
        """callee contract type.base::Asn1Type._refine (proved below): current narrowed by option"""
        return Obj('Sum', {'left': current, 'right': option}, name='(current+option)')
    return Obj('SimpleAsn1Type', {'_value': val, 'readOnly': DictV({'tagSet': (True, ts), 'subtypeSpec': (True, SS)}),
                                  'tagSet': ts, 'subtypeSpec': SS, '__class__': FnV(_ctor, 'self.__class__')},
               {'_refine': refine}, name='self')


def _same(ex, a, b):
    if isinstance(a, Obj) or isinstance(b, Obj):
        return ex.identical(a, b)
    return toint(a) == toint(b)


FRAME = [('source-unchanged', '(self._value is old(self)._value if old(self)._value is noValue else self._value == old(self)._value) and self.readOnly.get("tagSet") is ts0 and '
                              'self.readOnly.get("subtypeSpec") is ss0 and len(self.readOnly.items()) == 2')]

SIMPLE_CLONE = Contract(
    id='type.base::SimpleAsn1Type.clone', file=F, qual='SimpleAsn1Type.clone', properties=['C14', 'C12', 'C04'],
    params=dict(ts0=PDerived(_tagset), self=PDerived(_mk_self), value=PDerived(_value_param),
                kwargs=POptions(tagSet=PConst(TS2), subtypeSpec=PConst(SS2))),
    globals={'ss0': SS, 'same': _same},
    ensures=[('nothing-to-change-returns-self', '(old(value) is noValue and not old(kwargs)) ==> result is self'),
             ('constructed-through-class', '(old(value) is not noValue or old(kwargs)) ==> '
              '(result is last_result("self.__class__") and '
              'same(last_args("self.__class__")[0], old(self)._value if old(value) is noValue else old(value)))'),
             ('initialisers-merged', '(old(value) is not noValue or old(kwargs)) ==> ('
              'last_kwargs("self.__class__").get("tagSet") is old(kwargs).get("tagSet", ts0) and '
              'last_kwargs("self.__class__").get("subtypeSpec") is old(kwargs).get("subtypeSpec", ss0))')] + FRAME,
    calls={'self.__class__': _ctor},
    note='the derived object is built by the class constructor (hence validated by __init__) from the given or the '
         'current value and the caller\'s initialisers over the source\'s read-only record, which is copied, not shared')

SIMPLE_SUBTYPE = Contract(
    id='type.base::SimpleAsn1Type.subtype', file=F, qual='SimpleAsn1Type.subtype', properties=['C14', 'C12', 'C13'],
    params=dict(ts0=PDerived(_tagset), self=PDerived(_mk_self), value=PDerived(_value_param),
                kwargs=POptions(implicitTag=PConst(IMPL), explicitTag=PConst(EXPL), subtypeSpec=PConst(SS2))),
    globals={'ss0': SS, 'same': _same},
    ensures=[('nothing-to-change-returns-self', '(old(value) is noValue and not old(kwargs)) ==> result is self'),
             ('constructed-through-class', '(old(value) is not noValue or old(kwargs)) ==> '
              '(result is last_result("self.__class__") and '
              'same(last_args("self.__class__")[0], old(self)._value if old(value) is noValue else old(value)))'),
             ('constraints-are-added-not-replaced', '("subtypeSpec" in old(kwargs)) ==> ('
              'last_kwargs("self.__class__").get("subtypeSpec").left is ss0 and '
              'last_kwargs("self.__class__").get("subtypeSpec").right is old(kwargs).get("subtypeSpec"))'),
             ('constraints-kept', '((old(value) is not noValue or old(kwargs)) and "subtypeSpec" not in old(kwargs)) ==> '
              'last_kwargs("self.__class__").get("subtypeSpec") is ss0'),
             ('tags-derived-from-own', '("explicitTag" in old(kwargs)) ==> ('
              'last_kwargs("self.__class__").get("tagSet").how == "explicit" and '
              'last_kwargs("self.__class__").get("tagSet").of is ts0)'),
             ('tags-kept', '((old(value) is not noValue or old(kwargs)) and "explicitTag" not in old(kwargs) and '
              '"implicitTag" not in old(kwargs)) ==> last_kwargs("self.__class__").get("tagSet") is ts0')] + FRAME,
    calls={'self.__class__': _ctor},
    note='subtype(): the new constraint is ADDED to the source\'s (ConstraintsIntersection.__add__, contracts '
         'AbstractConstraintSet.__add__/_derive), tags are derived from the source tag set, and the result goes '
         'through the constructor')

CONTRACTS = [SIMPLE_INIT, SIMPLE_CLONE, SIMPLE_SUBTYPE]


# ---- the subtype test used on every assignment into a constructed value (C14): two independent switches -------------------------
def _typed(name, tags_flag, cons_flag):
    def make(ex, env):
        ts = Obj('TagSet', {}, {'isSuperTagSetOf': lambda ex2, self, other: Bool(tags_flag),
                                '__eq__': lambda ex2, self, other: Bool(tags_flag)}, name=name + '.tagSet')
        ss = Obj('ConstraintsIntersection', {}, {'isSuperTypeOf': lambda ex2, self, other: Bool(cons_flag),
                                                 '__eq__': lambda ex2, self, other: Bool(cons_flag)}, name=name + '.subtypeSpec')
        return Obj('Asn1Type', {'tagSet': ts, 'subtypeSpec': ss}, name=name)
    return make


_REL = {'tagsOk': Bool('tags.related'), 'constraintsOk': Bool('constraints.related')}
IS_SUPERTYPE = Contract(
    id='type.base::Asn1Type.isSuperTypeOf', file=F, qual='Asn1Type.isSuperTypeOf', properties=['C14', 'C13'],
    params=dict(self=PDerived(_typed('self', 'tags.related', 'constraints.related')),
                other=PConst(Obj('Asn1Type', {'tagSet': Obj('TagSet', {}, name='other.tagSet'),
                                              'subtypeSpec': Obj('ConstraintsIntersection', {}, name='other.subtypeSpec')}, name='other')),
                matchTags=PBool(), matchConstraints=PBool()),
    globals=_REL,
    ensures=[('each-switch-skips-only-its-own-test',
              'result == ((not matchTags or tagsOk) and (not matchConstraints or constraintsOk))')],
    note='TagSet.isSuperTagSetOf and AbstractConstraint.isSuperTypeOf are under contract on their own')
IS_SAMETYPE = Contract(
    id='type.base::Asn1Type.isSameTypeWith', file=F, qual='Asn1Type.isSameTypeWith', properties=['C14', 'C13'],
    params=dict(IS_SUPERTYPE.params), globals=_REL,
    ensures=[('each-switch-skips-only-its-own-test',
              'result == (self is other or ((not matchTags or tagsOk) and (not matchConstraints or constraintsOk)))')])
CONTRACTS = CONTRACTS + [IS_SUPERTYPE, IS_SAMETYPE]


# ---- _refine: what subtype() does with an additional constraint (C14: subtyping only ever narrows) -----------------------------
def _constraint_param(ex, env):
    is_set = ex.choose(Bool('current.isSet'), 'constraint-set')

    def add(ex2, self, other):
        # ConstraintsIntersection.__add__ (contracts AbstractConstraintSet.__add__): one more member; the `+` of a bare
        # SingleValueConstraint is a union of value lists, the other bare constraints have none
        return Obj('Sum', {'left': self, 'right': other, 'narrows': is_set}, name='(current+option)')
    return Obj('Constraint', {}, {'__add__': add}, bases=('AbstractConstraint', 'AbstractConstraintSet') if is_set
               else ('AbstractConstraint',), name='current')


def _intersection_of(ex, *members):
    def add(ex2, self, other):
        return Obj('Sum', {'left': self, 'right': other, 'narrows': True}, name='(intersection+option)')
    return Obj('ConstraintsIntersection', {'members': Tup(list(members))}, {'__add__': add},
               bases=('AbstractConstraint', 'AbstractConstraintSet'), name='ConstraintsIntersection(current)')


OPTION = Obj('Constraint', {}, name='option')
REFINE = Contract(
    id='type.base::Asn1Type._refine', file=F, qual='Asn1Type._refine', properties=['C14'],
    params=dict(current=PDerived(_constraint_param), option=PConst(OPTION)),
    globals={'constraint': {'AbstractConstraint': ClassV('AbstractConstraint'), 'AbstractConstraintSet': ClassV('AbstractConstraintSet'),
                            'ConstraintsIntersection': FnV(_intersection_of, 'constraint.ConstraintsIntersection'),
                            '__name__': 'constraint'},
             'isSet': Bool('current.isSet'), 'theOption': OPTION},
    ensures=[('always-an-intersection-with-the-option', 'result.narrows is True and result.right is theOption'),
             ('a-set-is-extended', 'isSet ==> result.left is old(current)'),
             ('a-bare-constraint-becomes-a-member', '(not isSet) ==> (len(result.left.members) == 1 and '
                                                    'result.left.members[0] is old(current))')],
    note='documented usage declares bare constraints at class level (subtypeSpec = ValueRangeConstraint(13, 19))')
CONTRACTS = CONTRACTS + [REFINE]


# ---- comparison of scalars: a schema object has no value to compare, not even with itself (C19) ---------------------------------
def _eq_self(ex, env):
    v = NOVALUE if ex.choose(Bool('self.isSchema'), 'schema-object') else Int('self.value')
    return Obj('SimpleAsn1Type', {'_value': v}, name='self')


def _eq_other(ex, env):
    if ex.choose(Bool('other.isSelf'), 'compared-with-itself'):
        return env['self']
    return Int('other')


SIMPLE_EQ = Contract(
    id='type.base::SimpleAsn1Type.__eq__', file=F, qual='SimpleAsn1Type.__eq__', properties=['C19'],
    params=dict(self=PDerived(_eq_self), other=PDerived(_eq_other)),
    globals={'schema': Bool('self.isSchema'), 'same': Bool('other.isSelf'), 'v': Int('self.value'), 'o': Int('other')},
    ensures=[('a-value-equals-itself', 'same ==> result == True'),
             ('values-compare-by-payload', '(not same) ==> result == (v == o)')],
    raises={'PyAsn1Error': 'schema'},
    note='comparison of the payload with noValue is the sentinel\'s plug (type.base::NoValue): it raises the library error')
CONTRACTS = CONTRACTS + [SIMPLE_EQ]
