"""Contract on pyasn1/type/opentype.py OpenType.__init__: the caller's type map is kept by reference (C18: "caller-supplied
maps"; entries registered after the type was declared -- the usual way modules extend each other's maps -- are seen)."""
import z3

from pyvc.core import Contract, PConst, PDerived, PObj, Obj

F = 'pyasn1/type/opentype.py'


def _map(ex, env):
    if ex.choose(z3.Bool('typeMap.given'), 'map-given'):
        # any mapping object, empty (falsy) or not
        return Obj('dict', {'__truthy__': z3.Bool('typeMap.nonEmpty')}, name='typeMap')
    return None


OPENTYPE_INIT = Contract(
    id='type.opentype::OpenType.__init__', file=F, qual='OpenType.__init__', properties=['C18'],
    params=dict(self=PObj('OpenType'), name=PConst('id'), typeMap=PDerived(_map)),
    globals={'given': z3.Bool('typeMap.given')},
    ensures=[('callers-map-kept-by-reference', 'given ==> self.__typeMap is typeMap'),
             ('own-empty-map-otherwise', '(not given) ==> (self.__typeMap is not None)')],
    note='the map object is the link through which governing values registered later become resolvable')
CONTRACTS = [OPENTYPE_INIT]
