"""Contracts on pyasn1/type/univ.py BitString.fromOctetString: the bits of a (fragment of a) BIT STRING encoding (C09, C01).

A SizedInteger is an int with a declared bit length (leading zero bits count).  `a | b` of two bit patterns is kept as the
uninterpreted `bit_or` (the post-condition speaks of the same function): what is checked is which operands are shifted by
how much, which lengths are added, and that a bit string of zero bits only is still prepended."""
import z3
from z3 import Int, Bool, And, Or, Not, If, IntVal

from pyvc.core import (Contract, Loop, PInt, PBool, PConst, PBytes, PDerived, POneOf, Obj, FnV, Tup, ExcV, _Raise, ClassV, toint, concrete,
                       Unsupported, SeqV, Length, I)

U = 'pyasn1/type/univ.py'
BIT_OR = z3.Function('bit_or', I, I, I)


def sized(value, bit_length=None):
    def set_len(ex, self, n):
        self.fields['bitLength'] = toint(n)
        return self

    def length(ex, self):
        if self.fields['bitLength'] is None:
            raise Unsupported('len() of a SizedInteger without a declared length')
        return self.fields['bitLength']

    def lshift(ex, self, k):
        return self.fields['value'] * ex.X.pow2(k)

    def ror(ex, self, other):
        return BIT_OR(toint(other), self.fields['value'])

    def or_(ex, self, other):
        return BIT_OR(self.fields['value'], toint(other.fields['value'] if isinstance(other, Obj) else other))
    o = Obj('SizedInteger', {'value': value, 'bitLength': bit_length},
            {'setBitLength': set_len, '__len__': length, '__lshift__': lshift, '__ror__': ror, '__or__': or_}, name='SizedInteger')
    o.methods['__bool__'] = lambda ex, self: toint(self.fields['value']) != 0        # an int: zero is falsy, whatever its bit length
    return o


def _sized_ctor(ex, x):
    if isinstance(x, Obj):
        return sized(x.fields['value'])
    return sized(toint(x))


def _prepend(ex, env):
    if ex.choose(Bool('prepend.given'), 'prepend-given'):
        return sized(Int('prepend.value'), Int('prepend.bits'))
    return None


def _from_bytes(ex, octets, signed=False):
    """integer.from_bytes (contract compat.integer::from_bytes[unsigned], proved on its own): big-endian value"""
    return ex.X.val256(ex, octets)


FROM_OCTETS = Contract(
    id='type.univ::BitString.fromOctetString[internal]', file=U, qual='BitString.fromOctetString', properties=['C09', 'C01', 'C03'],
    params=dict(cls=PConst(None), value=PBytes(), internalFormat=PConst(True), prepend=PDerived(_prepend), padding=PInt()),
    globals={'SizedInteger': FnV(_sized_ctor, 'SizedInteger'), 'integer': {'from_bytes': FnV(_from_bytes, 'integer.from_bytes'), '__name__': 'integer'},
             'given': Bool('prepend.given'), 'pv': Int('prepend.value'), 'pb': Int('prepend.bits'),
             'bit_or': FnV(lambda ex, a, b: BIT_OR(toint(a), toint(b)), 'bit_or')},
    requires=['padding >= 0', 'padding <= 7', 'given ==> (pb >= 0 and pv >= 0)'],
    ensures=[
        # X.690 8.6.2: the bits of the contents octets without the `padding` unused ones at the end ...
        ('bits-of-this-fragment', '(not given) ==> (result.value == X.val256(old(value)) // X.pow2f(padding) and '
                                  'result.bitLength == 8 * len(old(value)) - padding)'),
        # ... 8.6.4: appended to the bits collected before -- also when those are all zero
        ('appended-to-the-bits-so-far', 'given ==> (result.bitLength == pb + 8 * len(old(value)) - padding and '
                                        'result.value == bit_or(pv * X.pow2f(8 * len(old(value)) - padding), '
                                        'X.val256(old(value)) // X.pow2f(padding)))')],
    note='`|` of bit patterns is uninterpreted here; integer.from_bytes is the callee contract')
CONTRACTS = [FROM_OCTETS]


# ---- BitString * n: n copies of the bits, leading zero bits included (C14 funnel, fix 3affd96) -----------------------------------
V0, L0_, N0 = Int('self.value'), Int('self.bits'), Int('times')
_rn = Int('n!rep')
REP = z3.RecFunction('bits_repeated', I, I, I, I)            # n copies of the L-bit pattern v, as a number
from spec.smt import pow2 as _POW2
z3.RecAddDefinition(REP, [V0, L0_, _rn], If(_rn <= 0, IntVal(0), REP(V0, L0_, _rn - 1) * _POW2(L0_) + V0))


def _mul_self(ex, env):
    me = sized(V0, L0_)

    def ror(ex2, self, other):
        # (x << L) | v with 0 <= v < 2**L: disjoint bits, so | is + (python ints; the width is the one just shifted by)
        w = getattr(ex2, 'lshift_width', {}).get(toint(other).get_id())
        if w is not None and not ex2.feasible(Not(toint(w) == L0_)):
            return toint(other) + V0
        return BIT_OR(toint(other), V0)
    me.methods['__ror__'] = ror

    def clone(ex2, self, value=None, **kw):
        return Obj('BitString', {'value': value.fields['value'], 'bitLength': value.fields['bitLength']}, name='product')
    return Obj('BitString', {'_value': me}, {'clone': clone}, name='self')


MUL = Contract(
    id='type.univ::BitString.__mul__', file=U, qual='BitString.__mul__', properties=['C14', 'C19'],
    params=dict(self=PDerived(_mul_self), value=PConst(N0)),
    globals={'SizedInteger': FnV(_sized_ctor, 'SizedInteger'), 'V': V0, 'L': L0_, 'N': N0,
             'rep': FnV(lambda ex, n: REP(V0, L0_, toint(n)), 'rep'),
             'unfold': FnV(lambda ex, n: z3.Implies(toint(n) >= 0, REP(V0, L0_, toint(n) + 1) ==
                                                    REP(V0, L0_, toint(n)) * ex.X.pow2(L0_) + V0), 'unfold'),
             'rep0': FnV(lambda ex: REP(V0, L0_, IntVal(0)) == 0, 'rep0')},
    # a SizedInteger of L bits: 0 <= value < 2**L
    requires=['L >= 0', 'V >= 0', 'V < X.pow2f(L)'],
    loops={0: Loop(invariant=['times >= 0', 'times <= N or times == 0', 'bitString == rep(times)', 'length == L'],
                   variant='N - times', hints=['unfold(iter_old(times))'])},
    hints=['rep0()'],
    ensures=[('n-copies-of-the-bits', 'result.value == rep(N if N > 0 else 0)'),
             ('n-times-the-length', 'result.bitLength == L * (N if N > 0 else 0)')],
    note='`(x << L) | v` is x * 2**L + v for 0 <= v < 2**L (python ints, A-BUILTIN); rep(n) is the number whose binary form is '
         'n copies of the L-bit pattern')
CONTRACTS = CONTRACTS + [MUL]


# ---- the other operators that build a new bit pattern: concatenation, shifts -----------------------------------------------------
W0, K0 = Int('other.value'), Int('other.bits')
CNT = Int('count')


def _op_sized(v, bits):
    me = sized(v, bits)

    def lshift(ex, self, k):
        r = self.fields['value'] * ex.X.pow2(k)
        if not hasattr(ex, 'lshift_width'):
            ex.lshift_width = {}
        ex.lshift_width[r.get_id()] = toint(k)
        return r

    def ror(ex, self, other):
        w = getattr(ex, 'lshift_width', {}).get(toint(other).get_id())
        if w is not None and not ex.feasible(Not(toint(w) == self.fields['bitLength'])):
            return toint(other) + self.fields['value']           # disjoint bits: | is + (requires 0 <= value < 2**bits)
        return BIT_OR(toint(other), self.fields['value'])

    def rshift(ex, self, k):
        return self.fields['value'] / ex.X.pow2(k)
    me.methods.update({'__lshift__': lshift, '__ror__': ror, '__rshift__': rshift})
    return me


def _op_self(ex, env):
    def clone(ex2, self, value=None, **kw):
        return Obj('BitString', {'value': value.fields['value'], 'bitLength': value.fields['bitLength']}, name='result')
    other = _op_sized(W0, K0)
    return Obj('BitString', {'_value': _op_sized(V0, L0_)}, {'clone': clone, 'prettyIn': lambda ex2, self, v: other}, name='self')


_OPG = {'SizedInteger': FnV(_sized_ctor, 'SizedInteger'), 'V': V0, 'L': L0_, 'W': W0, 'K': K0, 'max': FnV(
    lambda ex, a, b: If(toint(a) >= toint(b), toint(a), toint(b)), 'max')}
_OPR = ['L >= 0', 'V >= 0', 'V < X.pow2f(L)', 'K >= 0', 'W >= 0', 'W < X.pow2f(K)']
ADD = Contract(
    id='type.univ::BitString.__add__', file=U, qual='BitString.__add__', properties=['C14', 'C19'],
    params=dict(self=PDerived(_op_self), value=PConst(Obj('Operand', {}, name='value'))), globals=_OPG, requires=_OPR,
    ensures=[('own-bits-then-the-operands', 'result.value == V * X.pow2f(K) + W and result.bitLength == L + K')],
    note='prettyIn (the operand as a SizedInteger of K bits) is an assumed model; `(x << K) | w` is x * 2**K + w for 0 <= w < 2**K')
RADD = Contract(
    id='type.univ::BitString.__radd__', file=U, qual='BitString.__radd__', properties=['C14', 'C19'],
    params=dict(self=PDerived(_op_self), value=PConst(Obj('Operand', {}, name='value'))), globals=_OPG, requires=_OPR,
    ensures=[('the-operands-bits-then-own', 'result.value == W * X.pow2f(L) + V and result.bitLength == L + K')],
    note=ADD.note)
LSHIFT = Contract(
    id='type.univ::BitString.__lshift__', file=U, qual='BitString.__lshift__', properties=['C14', 'C19', 'C01'],
    params=dict(self=PDerived(_op_self), count=PConst(CNT)), globals=_OPG, requires=_OPR + ['count >= 0'],
    ensures=[('zero-bits-appended', 'result.value == V * X.pow2f(count) and result.bitLength == L + count')])
RSHIFT = Contract(
    id='type.univ::BitString.__rshift__', file=U, qual='BitString.__rshift__', properties=['C14', 'C19'],
    params=dict(self=PDerived(_op_self), count=PConst(CNT)), globals=_OPG, requires=_OPR + ['count >= 0'],
    ensures=[('low-bits-dropped', 'result.value == shr(V, count)'),
             ('length-shrinks-to-zero-at-most', 'result.bitLength == (L - count if L - count > 0 else 0)')])
RSHIFT.globals = dict(_OPG, shr=FnV(lambda ex, v, k: toint(v) / ex.X.pow2(k), 'shr'))
CONTRACTS = CONTRACTS + [ADD, RADD, LSHIFT, RSHIFT]
