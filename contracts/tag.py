"""Contracts on pyasn1/type/tag.py: the tag algebra of TagSet (C13)."""
import z3
from z3 import Concat, Unit, Length, Int

from pyvc.core import (Contract, PObj, PDerived, PRecSeq, Obj, RecSeqV, FnV, module_int_consts, toint, PInt, PConst,
                       Unsupported)

F = 'pyasn1/type/tag.py'
TAGC = module_int_consts(F)
NAMES = ('tagClass', 'tagFormat', 'tagId')


def mk_tag(ex, tagClass, tagFormat, tagId):
    return Obj('Tag', {'tagClass': toint(tagClass), 'tagFormat': toint(tagFormat), 'tagId': toint(tagId)}, name='Tag')


def tagset_obj(tags):
    """TagSet over a symbolic sequence of tag records; __add__ appends, [:-1] drops the last (outermost) tag"""
    def add(ex, self, superTag):
        cols = [Concat(c, Unit(toint(superTag.fields[n]))) for c, n in zip(self.fields['__superTags'].cols, NAMES)]
        return tagset_obj(RecSeqV(cols, names=NAMES))

    def getslice(ex, self, lo, hi):
        if lo is not None or hi != -1:
            raise Unsupported('TagSet slice other than [:-1]')
        n = Length(self.fields['__superTags'].cols[0])
        cols = [z3.Extract(c, z3.IntVal(0), z3.If(n > 0, n - 1, z3.IntVal(0))) for c in self.fields['__superTags'].cols]
        return tagset_obj(RecSeqV(cols, names=NAMES))
    # TagSet.__init__: the base tag of a tagged type is its innermost tag, superTags[0]
    base = Obj('Tag', {n: c[0] for n, c in zip(NAMES, tags.cols)}, name='baseTag')
    return Obj('TagSet', {'__superTags': tags, 'superTags': tags, '__baseTag': base, 'baseTag': base},
               {'__add__': add, '__getslice__': getslice}, name='TagSet')


PARAMS = dict(tags=PRecSeq(3, names=NAMES), self=PDerived(lambda ex, env: tagset_obj(env['tags'])),
              superTag=PObj('Tag', tagClass=PInt(), tagFormat=PInt(), tagId=PInt()))
G = dict(TAGC, Tag=FnV(mk_tag, 'Tag'))
N = 'len(tags)'
R = 'result.superTags'

IMPLICIT = Contract(
    id='type.tag::TagSet.tagImplicitly', file=F, qual='TagSet.tagImplicitly', properties=['C13'], params=PARAMS, globals=G,
    requires=['len(tags) >= 1'],
    ensures=[
        # implicit tagging replaces only the outermost (last) tag and keeps its primitive/constructed form
        ('same-depth', 'len(%s) == %s' % (R, N)),
        ('replaces-outermost', '%s[%s - 1].tagClass == superTag.tagClass and %s[%s - 1].tagId == superTag.tagId' % (R, N, R, N)),
        ('keeps-form-of-replaced-tag', '%s[%s - 1].tagFormat == tags[%s - 1].tagFormat' % (R, N, N)),
        ('inner-tags-untouched', '%s >= 2 ==> (%s[0].tagClass == tags[0].tagClass and %s[0].tagFormat == tags[0].tagFormat '
                                 'and %s[0].tagId == tags[0].tagId and %s[%s - 2].tagId == tags[%s - 2].tagId and '
                                 '%s[%s - 2].tagFormat == tags[%s - 2].tagFormat)' % (N, R, R, R, R, N, N, R, N, N))])

EXPLICIT = Contract(
    id='type.tag::TagSet.tagExplicitly', file=F, qual='TagSet.tagExplicitly', properties=['C13'], params=PARAMS, globals=G,
    ensures=[
        # explicit tagging adds one constructed tag on top and leaves the others alone
        ('one-more-tag', 'len(%s) == %s + 1' % (R, N)),
        ('added-tag', '%s[%s].tagClass == superTag.tagClass and %s[%s].tagId == superTag.tagId' % (R, N, R, N)),
        ('added-tag-is-constructed', '%s[%s].tagFormat == 32' % (R, N)),
        ('others-untouched', '%s >= 1 ==> (%s[0].tagClass == tags[0].tagClass and %s[%s - 1].tagFormat == '
                             'tags[%s - 1].tagFormat and %s[%s - 1].tagId == tags[%s - 1].tagId)' % (N, R, R, N, N, R, N, N))],
    # ... and refuses the UNIVERSAL class
    raises={'PyAsn1Error': 'superTag.tagClass == 0'})

CONTRACTS = [IMPLICIT, EXPLICIT]
