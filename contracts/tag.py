"""Contracts on pyasn1/type/tag.py: the tag algebra of TagSet (C13)."""
import z3
from z3 import Concat, Unit, Length, Int

from pyvc.core import (Contract, PObj, PDerived, PRecSeq, Obj, RecSeqV, FnV, module_int_consts, toint, PInt, PConst,
                       Unsupported)

TAGC = module_int_consts('pyasn1/type/tag.py')
F = 'pyasn1/type/tag.py'
NAMES = ('tagClass', 'tagFormat', 'tagId')
# Tag.__eq__ compares self.__tagClassId = (tagClass, tagId): the primitive/constructed bit is not part of a tag's
# identity.  Checked against the real class body on every import of this module.
import ast as _ast
from pyvc.core import parse_module as _pm
_tagcls = [n for n in _pm(F).body if isinstance(n, _ast.ClassDef) and n.name == 'Tag'][0]
_eq = [n for n in _tagcls.body if isinstance(n, _ast.FunctionDef) and n.name == '__eq__'][0]
_init = [n for n in _tagcls.body if isinstance(n, _ast.FunctionDef) and n.name == '__init__'][0]
assert _ast.unparse(_eq.body[-1]) == 'return self.__tagClassId == other', _ast.unparse(_eq)
assert 'self.__tagClassId = (tagClass, tagId)' in _ast.unparse(_init), _ast.unparse(_init)
TAG_EQ = (0, 2)


def mk_tag(ex, tagClass, tagFormat, tagId):
    return Obj('Tag', {'tagClass': toint(tagClass), 'tagFormat': toint(tagFormat), 'tagId': toint(tagId)}, name='Tag')


def tagset_obj(tags):
    """TagSet over a symbolic sequence of tag records; __add__ appends, [:-1] drops the last (outermost) tag"""
    def add(ex, self, superTag):
        cols = [Concat(c, Unit(toint(superTag.fields[n]))) for c, n in zip(self.fields['__superTags'].cols, NAMES)]
        return tagset_obj(RecSeqV(cols, names=NAMES, eq=TAG_EQ))

    def getslice(ex, self, lo, hi):
        if lo is not None or hi != -1:
            raise Unsupported('TagSet slice other than [:-1]')
        n = Length(self.fields['__superTags'].cols[0])
        cols = [z3.Extract(c, z3.IntVal(0), z3.If(n > 0, n - 1, z3.IntVal(0))) for c in self.fields['__superTags'].cols]
        return tagset_obj(RecSeqV(cols, names=NAMES, eq=TAG_EQ))
    # TagSet.__init__: the base tag of a tagged type is its innermost tag, superTags[0]
    base = Obj('Tag', {n: c[0] for n, c in zip(NAMES, tags.cols)}, name='baseTag')
    return Obj('TagSet', {'__superTags': tags, 'superTags': tags, '__baseTag': base, 'baseTag': base},
               {'__add__': add, '__getslice__': getslice}, name='TagSet')


PARAMS = dict(tags=PRecSeq(3, names=NAMES, eq=TAG_EQ), self=PDerived(lambda ex, env: tagset_obj(env['tags'])),
              superTag=PObj('Tag', tagClass=PInt(), tagFormat=PInt(), tagId=PInt()))
G = dict(TAGC, Tag=FnV(mk_tag, 'Tag'))
N = 'len(tags)'
R = 'result.superTags'

IMPLICIT = Contract(
    id='type.tag::TagSet.tagImplicitly', file=F, qual='TagSet.tagImplicitly', properties=['C13'], params=PARAMS, globals=G,
    requires=['len(tags) >= 1'],
    ensures=[
        # implicit tagging replaces only the outermost (last) tag and keeps its primitive/constructed form
        ('same-depth', 'len(%s) == %s' % (R, N)),
        ('replaces-outermost', '%s[%s - 1].tagClass == old(superTag).tagClass and %s[%s - 1].tagId == old(superTag).tagId' % (R, N, R, N)),
        ('keeps-form-of-replaced-tag', '%s[%s - 1].tagFormat == tags[%s - 1].tagFormat' % (R, N, N)),
        ('inner-tags-untouched', '%s >= 2 ==> (%s[0].tagClass == tags[0].tagClass and %s[0].tagFormat == tags[0].tagFormat '
                                 'and %s[0].tagId == tags[0].tagId and %s[%s - 2].tagId == tags[%s - 2].tagId and '
                                 '%s[%s - 2].tagFormat == tags[%s - 2].tagFormat)' % (N, R, R, R, R, N, N, R, N, N))])

EXPLICIT = Contract(
    id='type.tag::TagSet.tagExplicitly', file=F, qual='TagSet.tagExplicitly', properties=['C13'], params=PARAMS, globals=G,
    ensures=[
        # explicit tagging adds one constructed tag on top and leaves the others alone
        ('one-more-tag', 'len(%s) == %s + 1' % (R, N)),
        ('added-tag', '%s[%s].tagClass == old(superTag).tagClass and %s[%s].tagId == old(superTag).tagId' % (R, N, R, N)),
        ('added-tag-is-constructed', '%s[%s].tagFormat == 32' % (R, N)),
        ('others-untouched', '%s >= 1 ==> (%s[0].tagClass == tags[0].tagClass and %s[%s - 1].tagFormat == '
                             'tags[%s - 1].tagFormat and %s[%s - 1].tagId == tags[%s - 1].tagId)' % (N, R, R, N, N, R, N, N))],
    # ... and refuses the UNIVERSAL class
    raises={'PyAsn1Error': 'superTag.tagClass == 0'})

CONTRACTS = [IMPLICIT, EXPLICIT]


# ---- TagSet.isSuperTagSetOf: prefix relation on the tag sequences (C13: accept/reject by tags) -----------------------
def _other_tagset(ex, env):
    tags = env['otherTags']

    def getslice(ex2, self, lo, hi):
        if lo is not None:
            raise Unsupported('slice')
        n = Length(tags.cols[0])
        k = toint(hi)
        cols = [z3.Extract(c, z3.IntVal(0), z3.If(k < n, k, n)) for c in tags.cols]
        return RecSeqV(cols, names=NAMES, eq=TAG_EQ)
    return Obj('TagSet', {'__superTags': tags, 'superTags': tags}, {'__getslice__': getslice, '__len__': lambda ex2, self: Length(tags.cols[0])},
               name='tagSet')


def _self_tagset(ex, env):
    o = tagset_obj(env['tags'])
    o.fields['__lenOfSuperTags'] = Length(env['tags'].cols[0])
    return o


SUPER = Contract(
    id='type.tag::TagSet.isSuperTagSetOf', file=F, qual='TagSet.isSuperTagSetOf', properties=['C13', 'C15'],
    params=dict(tags=PRecSeq(3, names=NAMES, eq=TAG_EQ), otherTags=PRecSeq(3, names=NAMES, eq=TAG_EQ), self=PDerived(_self_tagset),
                tagSet=PDerived(_other_tagset)),
    globals=G,
    ensures=[('prefix-relation', 'result == (len(otherTags) >= len(tags) and '
                                 'X.sub(otherTags.tagClass, 0, len(tags)) == tags.tagClass and '
                                 'X.sub(otherTags.tagId, 0, len(tags)) == tags.tagId)')],
    note='a tag set is a super tag set of another iff its tags are a prefix (innermost first) of the other\'s; tags '
         'are compared by class and number, the primitive/constructed bit is not part of a tag (X.680 8.1)')

# ---- TagMap (pyasn1/type/tagmap.py): lookup with positive, negative and default entries ------------------------------
FM = 'pyasn1/type/tagmap.py'


def _dict_model(name, value=None):
    import z3 as _z
    has = _z.Bool(name + '.has')

    def contains(ex, self, key):
        return has

    def getitem(ex, self, key):
        if ex.choose(has, name + '-has'):
            return self.fields['value']
        from pyvc.core import _Raise, ExcV
        raise _Raise(ExcV('KeyError'))
    return Obj('dict', {'value': value}, {'__contains__': contains, '__getitem__': getitem}, name=name)


PRESENT_T = Obj('Asn1Type', {}, name='presentType')
DEFAULT_T = Obj('Asn1Type', {}, name='defaultType')


def _tagmap(ex, env):
    return Obj('TagMap', {'__presentTypes': _dict_model('present', PRESENT_T), '__skipTypes': _dict_model('skip'),
                          '__defaultType': DEFAULT_T if ex.choose(z3.Bool('hasDefault'), 'default') else None}, name='self')


GM = {'present': z3.Bool('present.has'), 'skip': z3.Bool('skip.has'), 'hasDefault': z3.Bool('hasDefault'),
      'presentType': PRESENT_T, 'defaultType': DEFAULT_T}
TAGMAP_GET = Contract(
    id='type.tagmap::TagMap.__getitem__', file=FM, qual='TagMap.__getitem__', properties=['C13', 'C15', 'C16'],
    params=dict(self=PDerived(_tagmap), tagSet=PConst(Obj('TagSet', {}, name='tagSet'))), globals=GM,
    ensures=[('positive-entry-wins', 'present ==> result is presentType'),
             ('default-for-the-rest', '(not present) ==> result is defaultType')],
    raises={'KeyError': 'not present and not hasDefault', 'PyAsn1Error': 'not present and hasDefault and skip'})
TAGMAP_IN = Contract(
    id='type.tagmap::TagMap.__contains__', file=FM, qual='TagMap.__contains__', properties=['C13', 'C15', 'C16'],
    params=dict(self=PDerived(_tagmap), tagSet=PConst(Obj('TagSet', {}, name='tagSet'))), globals=GM,
    ensures=[('exactly-when-lookup-succeeds', 'result == (present or (hasDefault and not skip))')],
    note='`key in map` holds exactly when map[key] returns (agrees with TagMap.__getitem__#raises)')

CONTRACTS = [IMPLICIT, EXPLICIT, SUPER, TAGMAP_GET, TAGMAP_IN]


# ---- Any.tagMap: only the untagged ANY stands for "whatever comes" ---------------------------------------------------------
def _tagmap_ctor(ex, presentTypes=None, skipTypes=None, defaultType=None):
    """constructor of tagmap.TagMap: stores its three arguments (TagMap.__getitem__/__contains__ are under contract)"""
    return Obj('TagMap', {'presentTypes': presentTypes, 'skipTypes': skipTypes, 'defaultType': defaultType}, name='TagMap(..)')


def _any_obj(ex, env):
    def getattr_(ex2, self, attr):
        if attr == '_tagMap':
            from pyvc.core import _Raise, ExcV
            raise _Raise(ExcV('AttributeError'))       # not computed yet
        raise Unsupported('attribute %s' % attr)
    ts = Obj('TagSet', {'__truthy__': z3.Bool('any.isTagged')}, name='self.tagSet')
    return Obj('Any', {'tagSet': ts}, {'__getattr__': getattr_}, name='self')


ANY_TAGMAP = Contract(
    id='type.univ::Any.tagMap', file='pyasn1/type/univ.py', qual='Any.tagMap', prop='getter', properties=['C13', 'C01', 'C18'],
    params=dict(self=PDerived(_any_obj)),
    globals={'tagmap': {'TagMap': FnV(_tagmap_ctor, 'tagmap.TagMap'), '__name__': 'tagmap'},
             'eoo': {'endOfOctets': Obj('EndOfOctets', {'tagSet': Obj('TagSet', {}, name='eoo.tagSet')}, name='endOfOctets'),
                     '__name__': 'eoo'},
             'isTagged': z3.Bool('any.isTagged')},
    ensures=[('tagged-any-is-found-by-its-tag-only', 'isTagged ==> result.defaultType is None'),
             ('untagged-any-is-the-default-type', '(not isTagged) ==> result.defaultType is self'),
             ('memoised', 'self._tagMap is result')],
    note='a tagged ANY as default type made records and CHOICEs attribute other members\' encodings to it (fix 3be0109)')
CONTRACTS = CONTRACTS + [ANY_TAGMAP]
