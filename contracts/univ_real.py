"""Contracts on pyasn1/type/univ.py Real: exact comparison of two finite REAL values (C01, C03, C04).

`Real.__factors` turns (mantissa, base, exponent), base 2 or 10, into (m, twos, fives) with
mantissa * base ** exponent == m * 2 ** twos * 5 ** fives and m divisible by neither 2 nor 5 -- a normal form that is
unique by the fundamental theorem of arithmetic (paper argument), so two REAL values are equal iff their normal forms are.
What is discharged here: the function computes such a form (value preserved through both loops, for every input), and
`__eq__` of two finite values compares exactly these forms and never goes through a float."""
import z3
from z3 import Int, Bool, And, Or, Not, If, IntVal, Implies

from pyvc.core import Contract, Loop, PInt, PConst, PDerived, Obj, FnV, Tup, ClassV, toint, I

U = 'pyasn1/type/univ.py'
_t = Int('t!pw')
POW2 = z3.RecFunction('pow2r', I, I)
z3.RecAddDefinition(POW2, [_t], If(_t <= 0, IntVal(1), 2 * POW2(_t - 1)))
POW5 = z3.RecFunction('pow5r', I, I)
z3.RecAddDefinition(POW5, [_t], If(_t <= 0, IntVal(1), 5 * POW5(_t - 1)))

M0, B0, E0 = Int('mantissa0'), Int('base0'), Int('exponent0')
A0 = E0                                   # power of two the exponent contributes
F0 = If(B0 == 10, E0, IntVal(0))          # power of five the exponent contributes (base 10 = 2 * 5)

G = {'M0': M0, 'B0': B0, 'E0': E0, 'A0': A0, 'F0': F0,
     'pow2': FnV(lambda ex, k: POW2(toint(k)), 'pow2'), 'pow5': FnV(lambda ex, k: POW5(toint(k)), 'pow5'),
     'step2': FnV(lambda ex, k: Implies(toint(k) >= 0, POW2(toint(k) + 1) == 2 * POW2(toint(k))), 'step2'),
     'step5': FnV(lambda ex, k: Implies(toint(k) >= 0, POW5(toint(k) + 1) == 5 * POW5(toint(k))), 'step5'),
     'base2': FnV(lambda ex: POW2(IntVal(0)) == 1, 'base2'), 'base5': FnV(lambda ex: POW5(IntVal(0)) == 1, 'base5')}

FACTORS = Contract(
    id='type.univ::Real.__factors', file=U, qual='Real.__factors', properties=['C01', 'C03', 'C04'],
    params=dict(value=PConst(Tup([M0, B0, E0]))), globals=G,
    requires=['B0 == 2 or B0 == 10'],
    loops={0: Loop(invariant=['mantissa != 0', 'twos >= A0', 'fives == F0', 'mantissa * pow2(twos - A0) == M0'],
                   variant='mantissa if mantissa > 0 else -mantissa',
                   hints=['step2(iter_old(twos) - A0)']),
           1: Loop(invariant=['mantissa != 0', 'mantissa % 2 != 0', 'twos >= A0', 'fives >= F0',
                              # (two linear-in-one-unknown facts instead of one product of three: 40 s -> ms)
                              'twos == loop_entry(twos)', 'loop_entry(mantissa) * pow2(twos - A0) == M0',
                              'mantissa * pow5(fives - F0) == loop_entry(mantissa)'],
                   variant='mantissa if mantissa > 0 else -mantissa',
                   hints=['step5(iter_old(fives) - F0)'])},
    hints=['base2()', 'base5()'],
    ensures=[
        ('zero-has-one-form', 'M0 == 0 ==> (result[0] == 0 and result[1] == 0 and result[2] == 0)'),
        # the number is preserved: mantissa0 * base ** exponent == m * 2 ** twos * 5 ** fives, stated without negative powers
        ('same-number', 'M0 != 0 ==> (result[1] >= A0 and result[2] >= F0 and '
                        'result[0] * pow5(result[2] - F0) * pow2(result[1] - A0) == M0)'),
        ('normal-form', 'M0 != 0 ==> (result[0] % 2 != 0 and result[0] % 5 != 0)')],
    note='uniqueness of the normal form (two triples denote the same number iff their normal forms coincide) is the '
         'fundamental theorem of arithmetic, not discharged here; integers are mathematical')


# ---- __eq__ of two finite REAL values: by normal form, never through float() -----------------------------------------------------
def _real(prefix):
    def mk(ex, env):
        inf = ex.choose(Bool(prefix + '.isInf'), prefix + '-infinite')
        v = Obj('float', {'isInf': True}, name=prefix + '.inf') if inf else Tup([Int(prefix + '.m'), Int(prefix + '.b'), Int(prefix + '.e')])

        def factors(ex2, value):
            # callee contract type.univ::Real.__factors: the normal form of the triple
            return Tup([NF_M(toint(value.items[0]), toint(value.items[1]), toint(value.items[2])),
                        NF_2(toint(value.items[0]), toint(value.items[1]), toint(value.items[2])),
                        NF_5(toint(value.items[0]), toint(value.items[1]), toint(value.items[2]))])

        def to_float(ex2, self):
            env['log'].fields['floated'] = True
            return Int(prefix + '.asFloat')
        infs = Obj('tuple', {}, {'__contains__': lambda ex2, self, x: isinstance(x, Obj) and x.fields.get('isInf') is True},
                   name='_inf')
        return Obj('Real', {'_value': v, 'isValue': True, '_inf': infs, '__factors': FnV(factors, '__factors')},
                   {'__float__': to_float}, ('Real',), name=prefix)
    return mk


NF_M = z3.Function('normalForm.m', I, I, I, I)
NF_2 = z3.Function('normalForm.twos', I, I, I, I)
NF_5 = z3.Function('normalForm.fives', I, I, I, I)


def _same_form(ex):
    a = (Int('self.m'), Int('self.b'), Int('self.e'))
    b = (Int('value.m'), Int('value.b'), Int('value.e'))
    return And(NF_M(*a) == NF_M(*b), NF_2(*a) == NF_2(*b), NF_5(*a) == NF_5(*b))


REAL_EQ = Contract(
    id='type.univ::Real.__eq__[real-vs-real]', file=U, qual='Real.__eq__', properties=['C01', 'C03', 'C04'],
    params=dict(log=PDerived(lambda ex, env: Obj('log', {'floated': False}, name='log')),
                self=PDerived(_real('self')), value=PDerived(_real('value'))),
    globals={'Real': ClassV('Real'), 'finite': And(Not(Bool('self.isInf')), Not(Bool('value.isInf'))),
             'same_form': FnV(_same_form, 'same_form'),
             'float': FnV(lambda ex, o: o.methods['__float__'](ex, o), 'float')},
    ensures=[('finite-values-compare-by-normal-form', 'finite ==> (result == same_form() and not log.floated)')],
    may_raise={'OverflowError': False},
    note='Real.__factors is the callee contract (uninterpreted normal form); float() is an assumed model that records its use')
# ---- the stored form of a base-10 value: trailing zeros of the mantissa moved into the exponent --------------------------------
# (what makes DER of equal decimal values identical, X.690 11.3.1: "mantissa ... shall not have trailing zeros")
POW10 = z3.RecFunction('pow10r', I, I)
z3.RecAddDefinition(POW10, [_t], If(_t <= 0, IntVal(1), 10 * POW10(_t - 1)))
G10 = {'M0': M0, 'B0': B0, 'E0': E0, 'pow10': FnV(lambda ex, k: POW10(toint(k)), 'pow10'),
       'step10': FnV(lambda ex, k: Implies(toint(k) >= 0, POW10(toint(k) + 1) == 10 * POW10(toint(k))), 'step10'),
       'base10': FnV(lambda ex: POW10(IntVal(0)) == 1, 'base10')}
NORMALIZE10 = Contract(
    id='type.univ::Real.__normalizeBase10[integral-mantissa]', file=U, qual='Real.__normalizeBase10',
    properties=['C03', 'C04', 'C01'],
    params=dict(value=PConst(Tup([M0, B0, E0]))), globals=G10,
    loops={0: Loop(invariant=['m == M0', 'e == E0'], variant='0'),        # a fractional mantissa (a float): not in this contract
           1: Loop(invariant=['e >= E0', 'm * pow10(e - E0) == M0', '(M0 == 0) == (m == 0)', 'm != 0 or e == E0'],
                   variant='m if m > 0 else -m', hints=['step10(iter_old(e) - E0)'])},
    hints=['base10()'],
    ensures=[
        ('same-number', 'result[2] >= E0 and result[0] * pow10(result[2] - E0) == M0'),
        ('no-trailing-zero-left', 'M0 != 0 ==> result[0] % 10 != 0'),
        ('zero-stays-as-given', 'M0 == 0 ==> (result[0] == 0 and result[2] == E0)'),
        ('base-kept', 'result[1] == B0')],
    note='integers are mathematical; a python float as mantissa (the loop that moves the decimal point) is outside: '
         'float arithmetic is not modelled')
CONTRACTS = [FACTORS, REAL_EQ, NORMALIZE10]
