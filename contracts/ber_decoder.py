"""Contracts on pyasn1/codec/ber/decoder.py: payload decoders and the single-item state machine."""
import z3
from z3 import And, Or, Not, If, IntVal, Length, Int, Bool

from pyvc.core import (Contract, Loop, PInt, PBool, PConst, PObj, POptions, PBytes, PIntTuple, PDerived, PSort, Obj,
                       SeqV, Tup, FnV, ExcV, _Raise, Unsupported, toint, truthy, BoolSort, S, I, Const, NOVALUE,
                       END_OF_OCTETS, module_int_consts, concrete, inr)
from pyvc.models import PStream
from contracts.streaming import _read_model
from contracts import integer as _integer
from pyvc.core import CallContract, PObjOneOf

F = 'pyasn1/codec/ber/decoder.py'
TAGC = module_int_consts('pyasn1/type/tag.py')


# ---- shared parameter models ---------------------------------------------------------------------
def create_component(ex, self, asn1Spec, tagSet, value, **options):
    """model of AbstractSimplePayloadDecoder._createComponent: an opaque value object that remembers the
    python value it was built from (so postconditions can talk about it)"""
    return Obj('Asn1Value', {'value': value, 'spec': asn1Spec, 'tagSet': tagSet}, name='component')


class PTagSet(PSort):
    """tagSet[0].tagFormat is what payload decoders look at: an object whose item 0 is a tag record"""

    def make(self, ex, name):
        fmt = Int(name + '[0].tagFormat')
        cls = Int(name + '[0].tagClass')
        ex.assume(Or(fmt == 0, fmt == 32))
        t0 = Obj('Tag', {'tagFormat': fmt, 'tagClass': cls, 'tagId': Int(name + '[0].tagId')}, name=name + '[0]')

        def getitem(ex2, self, k):
            if concrete(k) == 0:
                return t0
            raise Unsupported('tagSet[%r]' % (k,))
        return Obj('TagSet', {'first': t0}, {'__getitem__': getitem}, name=name)


def payload_params(cls, mode='complete', **extra_self):
    return dict(
        self=PObj(cls, methods={'_createComponent': create_component}, **extra_self),
        substrate=PStream(mode), asn1Spec=PConst(Obj('Asn1Spec', {}, name='asn1Spec')), tagSet=PTagSet(),
        length=PInt(), state=PConst(None), decodeFun=PConst(None), substrateFun=PConst(None),
        options=POptions())


SIMPLE = 'tagSet[0].tagFormat == 0'
CONTENT = 'X.sub(substrate.data, old(substrate.pos), old(substrate.pos) + length)'
CONSUMED = 'substrate.pos == old(substrate.pos) + length'


def payload(cls, mode, **kw):
    c = Contract(id='ber.decoder::%s.valueDecoder[%s]' % (cls, mode), file=F, qual='%s.valueDecoder' % cls,
                 params=payload_params(cls, mode, **kw.pop('self_fields', {})),
                 requires=['length >= 0'] + kw.pop('requires', []),
                 calls=dict({'readFromStream': _read_model(mode)}, **kw.pop('calls', {})),
                 is_generator=True, **kw)
    return c


INTEGER = [payload(
    'IntegerPayloadDecoder', mode, properties=['C01', 'C06', 'C07', 'C08', 'C09'],
    yield_ensures=[
        ('value', 'last_yield().value == (X.twos_val(%s) if length > 0 else 0)' % CONTENT),
        ('consumed', CONSUMED)],
    exit_ensures=[('one-result', 'nyields() == 1')],
    raises={'PyAsn1Error': 'tagSet[0].tagFormat != 0'},
    calls={'from_bytes': CallContract(_integer.FROM_BYTES_SIGNED, params=['octets'])},
    may_raise={'EndOfStreamError': True},        # forwarded from readFromStream: a SubstrateUnderrunError
    external=['value', 'consumed', 'one-result']) for mode in ('complete', 'partial')]

NULL = [payload(
    'NullPayloadDecoder', 'complete', properties=['C01', 'C08'],
    yield_ensures=[('consumed', CONSUMED)],
    exit_ensures=[('one-result', 'nyields() == 1')],
    raises={'PyAsn1Error': 'tagSet[0].tagFormat != 0 or length > 0'},
    may_raise={'EndOfStreamError': True}, external=['consumed', 'one-result'])]


def bool_create(ex, self, asn1Spec, tagSet, value, **options):
    return create_component(ex, self, asn1Spec, tagSet, value, **options)


BOOLEAN_CREATE = Contract(
    id='ber.decoder::BooleanPayloadDecoder._createComponent', file=F, qual='BooleanPayloadDecoder._createComponent',
    properties=['C01', 'C09'],
    params=dict(self=PObj('BooleanPayloadDecoder'), asn1Spec=PConst(Obj('Asn1Spec', {}, name='asn1Spec')),
                tagSet=PConst(None), value=PInt(), options=POptions()),
    globals={'IntegerPayloadDecoder': {'_createComponent': FnV(bool_create, 'IntegerPayloadDecoder._createComponent')}},
    # X.690 8.2.2: any non-zero octet is TRUE
    ensures=[('any-nonzero-is-true', 'result.value == (1 if value != 0 else 0)')],
    external=['any-nonzero-is-true'])



def decode_fun_model(ex, substrate, asn1Spec=None, tagSet=None, length=None, state=None, **kw):
    """assumed contract of the recursive decodeFun (= SingleItemDecoder.__call__, under its own contract):
    consumes one complete element (>= 2 octets) and returns its value object, or -- only when allowEoo is
    set -- consumes exactly the two octets 00 00 and returns eoo.endOfOctets; may raise PyAsn1Error."""
    opts = kw.get('**')
    allow = kw.get('allowEoo', False)
    if opts is not None and 'allowEoo' in opts.entries:
        p, v = opts.entries['allowEoo']
        allow = ex.ite(p, v, allow) if not isinstance(p, bool) else (v if p else allow)
    pos = substrate.fields['pos']
    data = substrate.fields['data'].z
    rest = Length(data) - pos
    if ex.choose(ex.fresh('decodeFun.raises', BoolSort()), 'decodeFun-raises'):
        raise _Raise(ExcV('PyAsn1Error'))
    if truthy(allow) is not False:
        is_eoo = And(rest >= 2, data[pos] == 0, data[pos + 1] == 0)
        if ex.choose(And(truthy(allow) if not isinstance(truthy(allow), bool) else True, is_eoo), 'decodeFun-eoo'):
            substrate.fields['pos'] = pos + 2
            return END_OF_OCTETS
    n = ex.fresh('decodeFun.n', I)
    ex.assume(And(n >= 2, n <= rest))
    substrate.fields['pos'] = pos + n
    return Obj('Asn1Value', {'value': ex.fresh('decodeFun.value', I), 'spec': asn1Spec}, name='component')


decode_fun_model.is_generator_model = True

RAW_INDEF = Contract(
    id='ber.decoder::RawPayloadDecoder.indefLenValueDecoder', file=F, qual='RawPayloadDecoder.indefLenValueDecoder',
    properties=['C05', 'C07', 'C13'], is_generator=True,
    params=dict(payload_params('RawPayloadDecoder'), decodeFun=PConst(FnV(decode_fun_model, 'decodeFun'))),
    calls={'decodeFun': decode_fun_model},
    loops={1: Loop(invariant=['substrate.pos >= old(substrate.pos)', 'not value_yielded()'],
                   havoc_fields=['substrate.pos'],
                   decl={'component': PObjOneOf([NOVALUE], ['Asn1Value'])})},
    exit_ensures=[('result-is-a-value', 'last_yield() is not eoo.endOfOctets')],
    may_raise={'PyAsn1Error': True},
    external=['result-is-a-value'])

CONTRACTS = INTEGER + NULL + [BOOLEAN_CREATE, RAW_INDEF]
