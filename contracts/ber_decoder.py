"""Contracts on pyasn1/codec/ber/decoder.py: payload decoders and the single-item state machine."""
import z3
from z3 import And, Or, Not, If, IntVal, Length, Int, Bool

from pyvc.core import (Contract, Loop, PInt, PBool, PConst, PObj, POptions, PBytes, PIntTuple, PDerived, PSort, Obj,
                       SeqV, Tup, FnV, ExcV, _Raise, Unsupported, toint, truthy, BoolSort, S, I, Const, NOVALUE,
                       END_OF_OCTETS, module_int_consts, concrete, inr)
from pyvc.models import PStream
from contracts.streaming import _read_model
from contracts import integer as _integer
from pyvc.core import CallContract, PObjOneOf

F = 'pyasn1/codec/ber/decoder.py'
TAGC = module_int_consts('pyasn1/type/tag.py')


# ---- shared parameter models ---------------------------------------------------------------------
def create_component(ex, self, asn1Spec, tagSet, value, **options):
    """model of AbstractSimplePayloadDecoder._createComponent: an opaque value object that remembers the
    python value it was built from (so postconditions can talk about it)"""
    return Obj('Asn1Value', {'value': value, 'spec': asn1Spec, 'tagSet': tagSet}, name='component')


class PTagSet(PSort):
    """tagSet[0].tagFormat is what payload decoders look at: an object whose item 0 is a tag record"""

    def make(self, ex, name):
        fmt = Int(name + '[0].tagFormat')
        cls = Int(name + '[0].tagClass')
        ex.assume(Or(fmt == 0, fmt == 32))
        t0 = Obj('Tag', {'tagFormat': fmt, 'tagClass': cls, 'tagId': Int(name + '[0].tagId')}, name=name + '[0]')

        def getitem(ex2, self, k):
            if concrete(k) == 0:
                return t0
            raise Unsupported('tagSet[%r]' % (k,))
        return Obj('TagSet', {'first': t0}, {'__getitem__': getitem}, name=name)


def payload_params(cls, mode='complete', **extra_self):
    return dict(
        self=PObj(cls, methods={'_createComponent': create_component}, **extra_self),
        substrate=PStream(mode), asn1Spec=PConst(Obj('Asn1Spec', {}, name='asn1Spec')), tagSet=PTagSet(),
        length=PInt(), state=PConst(None), decodeFun=PConst(None), substrateFun=PConst(None),
        options=POptions())


SIMPLE = 'tagSet[0].tagFormat == 0'
CONTENT = 'X.sub(substrate.data, old(substrate.pos), old(substrate.pos) + length)'
CONSUMED = 'substrate.pos == old(substrate.pos) + length'


def payload(cls, mode, **kw):
    c = Contract(id='ber.decoder::%s.valueDecoder[%s]' % (cls, mode), file=F, qual='%s.valueDecoder' % cls,
                 params=payload_params(cls, mode, **kw.pop('self_fields', {})),
                 requires=['length >= 0'] + kw.pop('requires', []),
                 calls=dict({'readFromStream': _read_model(mode)}, **kw.pop('calls', {})),
                 is_generator=True, **kw)
    return c


INTEGER = [payload(
    'IntegerPayloadDecoder', mode, properties=['C01', 'C06', 'C07', 'C08', 'C09'],
    yield_ensures=[
        ('value', 'last_yield().value == (X.twos_val(%s) if length > 0 else 0)' % CONTENT),
        ('consumed', CONSUMED)],
    exit_ensures=[('one-result', 'nyields() == 1')],
    raises={'PyAsn1Error': 'tagSet[0].tagFormat != 0'},
    calls={'from_bytes': CallContract(_integer.FROM_BYTES_SIGNED, params=['octets'])},
    may_raise={'EndOfStreamError': True},        # forwarded from readFromStream: a SubstrateUnderrunError
    external=['value', 'consumed', 'one-result']) for mode in ('complete', 'partial')]

NULL = [payload(
    'NullPayloadDecoder', 'complete', properties=['C01', 'C08'],
    yield_ensures=[('consumed', CONSUMED)],
    exit_ensures=[('one-result', 'nyields() == 1')],
    raises={'PyAsn1Error': 'tagSet[0].tagFormat != 0 or length > 0'},
    may_raise={'EndOfStreamError': True}, external=['consumed', 'one-result'])]


def bool_create(ex, self, asn1Spec, tagSet, value, **options):
    return create_component(ex, self, asn1Spec, tagSet, value, **options)


BOOLEAN_CREATE = Contract(
    id='ber.decoder::BooleanPayloadDecoder._createComponent', file=F, qual='BooleanPayloadDecoder._createComponent',
    properties=['C01', 'C09'],
    params=dict(self=PObj('BooleanPayloadDecoder'), asn1Spec=PConst(Obj('Asn1Spec', {}, name='asn1Spec')),
                tagSet=PConst(None), value=PInt(), options=POptions()),
    globals={'IntegerPayloadDecoder': {'_createComponent': FnV(bool_create, 'IntegerPayloadDecoder._createComponent')}},
    # X.690 8.2.2: any non-zero octet is TRUE
    ensures=[('any-nonzero-is-true', 'result.value == (1 if value != 0 else 0)')],
    external=['any-nonzero-is-true'])



def decode_fun_model(ex, substrate, asn1Spec=None, tagSet=None, length=None, state=None, **kw):
    """assumed contract of the recursive decodeFun (= SingleItemDecoder.__call__, under its own contract):
    consumes one complete element (>= 2 octets) and returns its value object, or -- only when allowEoo is
    set -- consumes exactly the two octets 00 00 and returns eoo.endOfOctets; may raise PyAsn1Error."""
    opts = kw.get('**')
    allow = kw.get('allowEoo', False)
    if opts is not None and 'allowEoo' in opts.entries:
        p, v = opts.entries['allowEoo']
        allow = ex.ite(p, v, allow) if not isinstance(p, bool) else (v if p else allow)
    pos = substrate.fields['pos']
    data = substrate.fields['data'].z
    rest = Length(data) - pos
    if ex.choose(ex.fresh('decodeFun.raises', BoolSort()), 'decodeFun-raises'):
        raise _Raise(ExcV('PyAsn1Error'))
    if truthy(allow) is not False:
        is_eoo = And(rest >= 2, data[pos] == 0, data[pos + 1] == 0)
        if ex.choose(And(truthy(allow) if not isinstance(truthy(allow), bool) else True, is_eoo), 'decodeFun-eoo'):
            substrate.fields['pos'] = pos + 2
            return END_OF_OCTETS
    n = ex.fresh('decodeFun.n', I)
    ex.assume(And(n >= 2, n <= rest))
    substrate.fields['pos'] = pos + n
    return Obj('Asn1Value', {'value': ex.fresh('decodeFun.value', I), 'spec': asn1Spec}, name='component')


decode_fun_model.is_generator_model = True

RAW_INDEF = Contract(
    id='ber.decoder::RawPayloadDecoder.indefLenValueDecoder', file=F, qual='RawPayloadDecoder.indefLenValueDecoder',
    properties=['C05', 'C07', 'C13'], is_generator=True,
    params=dict(payload_params('RawPayloadDecoder'), decodeFun=PConst(FnV(decode_fun_model, 'decodeFun'))),
    calls={'decodeFun': decode_fun_model},
    loops={1: Loop(invariant=['substrate.pos >= old(substrate.pos)', 'not value_yielded()'],
                   havoc_fields=['substrate.pos'],
                   decl={'component': PObjOneOf([NOVALUE], ['Asn1Value'])})},
    exit_ensures=[('result-is-a-value', 'last_yield() is not eoo.endOfOctets')],
    may_raise={'PyAsn1Error': True},
    external=['result-is-a-value'])



# ---- SingleItemDecoder.__call__, verified region by region (DESIGN 2.2) ------------------------------------
def decoder_states():
    """(stDecodeTag, ..., stStop) = [x for x in range(10)]: names read from the real module's AST"""
    import ast
    from pyvc.core import parse_module
    for n in parse_module(F).body:
        if isinstance(n, ast.Assign) and isinstance(n.targets[0], ast.Tuple) and \
                any(isinstance(e, ast.Name) and e.id == 'stDecodeTag' for e in n.targets[0].elts):
            return {e.id: i for i, e in enumerate(n.targets[0].elts)}
    raise RuntimeError('decoder states not found')


STATES = decoder_states()
P0 = 'old(substrate.pos)'
D0 = 'substrate.data[old(substrate.pos)]'


def region(name, test, mode, params, **kw):
    if test.startswith('state is st') and '@loop' not in test and '#else' not in test:
        test += ' @loop'        # the states of the machine: `if state is ...:` inside the `while state is not stStop` loop
    return Contract(id='ber.decoder::SingleItemDecoder.__call__@%s[%s]' % (name, mode), file=F,
                    qual='SingleItemDecoder.__call__', region=test, is_generator=True,
                    params=dict(dict(self=PObj('SingleItemDecoder', supportIndefLength=PBool()), substrate=PStream(mode),
                                     options=POptions()), **params),
                    globals=dict(STATES), calls={'readFromStream': _read_model(mode)}, **kw)


def length_region(mode):
    return region(
        'stDecodeLength', 'state is stDecodeLength', mode,
        dict(tagSet=PConst(None), state=PConst(STATES['stDecodeLength']), length=PConst(None)),
        properties=['C01', 'C07', 'C09', 'C15'],
        requires=['substrate.pos < len(substrate.data)'],
        exit_ensures=[
            ('short-form', '%s < 128 ==> (length == %s and substrate.pos == %s + 1)' % (D0, D0, P0)),
            # C09: *every* long form is accepted, leading zero octets included: the value of the octets counts
            # (the count of length octets is written `first & 0x7F`, as the code does: the same term, so that the solver
            # need not rediscover first - 128 == first & 0x7F inside sequence terms -- that made this obligation take
            # 5-20 s and flip to `unknown` under load)
            ('long-form-any', '%s > 128 ==> (length == X.be_val(X.sub(substrate.data, %s + 1, %s + 1 + (%s & 0x7F)), 0, '
                              '%s & 0x7F) and substrate.pos == %s + 1 + (%s - 128))' % (D0, P0, P0, D0, D0, P0, D0)),
            ('indefinite', '%s == 128 ==> (length == -1 and substrate.pos == %s + 1)' % (D0, P0)),
            ('next-state', 'state == stGetValueDecoder')],
        # C15: the indefinite form is refused exactly when the codec says so (DER)
        raises={'PyAsn1Error': 'substrate.data[substrate.pos] == 128 and not self.supportIndefLength'},
        may_raise={'EndOfStreamError': True, 'SubstrateUnderrunError': True},
        loops={2: Loop(index='i', invariant=['length == X.be_val(encodedLength, 0, i)', 'length >= 0'])},
        external=['short-form', 'long-form-any', 'indefinite', 'next-state'])


LENGTH_REGION = [length_region('complete'), length_region('partial')]


# -- tag decoding region ---------------------------------------------------------------------------
def mk_tag(ex, tagClass=None, tagFormat=None, tagId=None):
    return Obj('Tag', {'tagClass': tagClass, 'tagFormat': tagFormat, 'tagId': tagId}, name='Tag')


def mk_tagset(ex, base, *tags):
    return Obj('TagSet', {'tags': Tup(list(tags))}, {'__radd__': tagset_radd}, name='TagSet')


def tagset_radd(ex, self, superTag):
    # TagSet.__radd__: the tag decoded later (inner) goes first
    return Obj('TagSet', {'tags': Tup([superTag] + self.fields['tags'].items)}, {'__radd__': tagset_radd}, name='TagSet')


def tag_of_octet(k):
    from pyvc.core import mask_and
    return Obj('Tag', {'tagClass': mask_and(k, 0xC0), 'tagFormat': mask_and(k, 0x20), 'tagId': mask_and(k, 0x1F)},
               name='cachedTag')


def cache_get(ex, self, k):
    """class invariant of SingleItemDecoder._tagCache: an entry exists only for short tags and equals
    Tag(k & 0xC0, k & 0x20, k & 0x1F)  (established by the stores below: obligation `cache-invariant`)"""
    k = toint(k)
    if ex.choose(And(ex.fresh('tagCache.hit', BoolSort()), k % 32 != 31), 'cache-hit'):
        return tag_of_octet(k)
    raise _Raise(ExcV('KeyError'))


def cache_set(ex, self, k, v):
    k = toint(k)
    want = tag_of_octet(k)
    ex.vc('%s#cache-invariant.tag' % ex.c.id,
          And(k % 32 != 31, *[toint(v.fields[f]) == toint(want.fields[f]) for f in ('tagClass', 'tagFormat', 'tagId')]),
          kind='external', note='a cached Tag equals the tag denoted by its first (only) identifier octet')


def setcache_get(ex, self, k):
    k = toint(k)
    if ex.choose(And(ex.fresh('tagSetCache.hit', BoolSort()), k % 32 != 31), 'setcache-hit'):
        return mk_tagset(ex, (), tag_of_octet(k))
    raise _Raise(ExcV('KeyError'))


def setcache_set(ex, self, k, v):
    k = toint(k)
    want = tag_of_octet(k)
    tags = v.fields['tags'].items
    ok = len(tags) == 1
    ex.vc('%s#cache-invariant.tagset' % ex.c.id,
          And(k % 32 != 31, *[toint(tags[0].fields[f]) == toint(want.fields[f])
                              for f in ('tagClass', 'tagFormat', 'tagId')]) if ok else z3.BoolVal(False),
          kind='external', note='a cached TagSet is the single tag denoted by its identifier octet')


def tag_region(mode, outer):
    tag_ns = dict(TAGC, __name__='tag', Tag=FnV(mk_tag, 'tag.Tag'), TagSet=FnV(mk_tagset, 'tag.TagSet'))
    outer_tagset = PConst(None) if not outer else PDerived(
        lambda ex, env: mk_tagset(ex, (), Obj('Tag', {'tagClass': Int('outer.cls'), 'tagFormat': Int('outer.fmt'),
                                                       'tagId': Int('outer.id')}, name='outerTag')))
    c = region(
        'stDecodeTag', 'state is stDecodeTag', mode,
        dict(tagSet=outer_tagset, state=PConst(STATES['stDecodeTag']),
             tagCache=PConst(Obj('dict', {}, {'__getitem__': cache_get, '__setitem__': cache_set}, name='tagCache')),
             tagSetCache=PConst(Obj('dict', {}, {'__getitem__': setcache_get, '__setitem__': setcache_set},
                                    name='tagSetCache'))),
        properties=['C01', 'C09', 'C13'],
        requires=['substrate.pos < len(substrate.data)'],
        exit_ensures=[
            # X.690 8.1.2: class = bits 8-7, P/C = bit 6, number = bits 5-1 or, for 11111, the following base-128 octets
            ('class-and-form', 'lastTag.tagClass == %s - %s %% 64 and lastTag.tagFormat == (%s %% 64) - (%s %% 32)'
             % (D0, D0, D0, D0)),
            ('low-tag-number', '%s %% 32 != 31 ==> (lastTag.tagId == %s %% 32 and substrate.pos == %s + 1)' % (D0, D0, P0)),
            ('high-tag-number', '%s %% 32 == 31 ==> (substrate.pos > %s + 1 and lastTag.tagId == '
                                'X.b128_val(substrate.data, %s + 1, substrate.pos - %s - 1) and '
                                'substrate.data[substrate.pos - 1] < 128)' % (D0, P0, P0, P0)),
            ('tagset-grows-inward', 'tagSet.tags[0].tagClass == lastTag.tagClass and tagSet.tags[0].tagFormat == '
                                    'lastTag.tagFormat and tagSet.tags[0].tagId == lastTag.tagId'),
            ('next-state', 'state == stDecodeLength')],
        may_raise={'EndOfStreamError': True, 'SubstrateUnderrunError': True},
        loops={1: Loop(invariant=['tagId == X.b128_val(substrate.data, %s + 1, lengthOctetIdx)' % P0,
                                  'substrate.pos == %s + 1 + lengthOctetIdx' % P0, 'lengthOctetIdx >= 0', 'tagId >= 0',
                                  'substrate.pos <= len(substrate.data)', 'not value_yielded()'],
                       havoc_fields=['substrate.pos'], variant='len(substrate.data) - substrate.pos')},
        external=['class-and-form', 'low-tag-number', 'high-tag-number', 'tagset-grows-inward', 'next-state'])
    c.id = c.id.replace('[', '[%s,' % ('inner' if outer else 'outermost'))
    c.globals['tag'] = tag_ns
    return c


TAG_REGION = [tag_region('complete', False), tag_region('complete', True), tag_region('partial', False)]


# -- value decoding region: a definite-length element consumes exactly `length` content octets ------------------
def payload_decoder_model(ex, substrate, asn1Spec, tagSet, length, state, decodeFun, substrateFun, **options):
    """assumed contract of any payload decoder (AbstractPayloadDecoder: 'allowed to consume as many bytes as
    necessary'): consumes some octets, returns a value object or raises PyAsn1Error"""
    if ex.choose(ex.fresh('payload.raises', BoolSort()), 'payload-raises'):
        raise _Raise(ExcV('PyAsn1Error'))
    pos = substrate.fields['pos']
    n = ex.fresh('payload.consumed', I)
    ex.assume(And(n >= 0, n <= Length(substrate.fields['data'].z) - pos))
    substrate.fields['pos'] = pos + n
    return Obj('Asn1Value', {'value': ex.fresh('payload.value', I)}, name='decodedValue')


payload_decoder_model.is_generator_model = True


def value_region(mode):
    concrete = Obj('PayloadDecoder', {}, {}, name='concreteDecoder')
    c = region(
        'stDecodeValue', 'state is stDecodeValue', mode,
        dict(tagSet=PConst(None), state=PConst(STATES['stDecodeValue']), length=PInt(), asn1Spec=PConst(None),
             substrateFun=PConst(None), concreteDecoder=PConst(concrete), value=PConst(NOVALUE)),
        properties=['C07', 'C01', 'C08'],
        requires=['length >= -1'],
        exit_ensures=[
            # C07: exact consumption of a definite-length element (the bytesRead != length check)
            ('definite-exact', 'length != -1 ==> substrate.pos == old(substrate.pos) + length'),
            ('value-is-result', 'value is not noValue'),
            ('stops', 'state == stStop')],
        may_raise={'PyAsn1Error': True},
        external=['definite-exact', 'value-is-result', 'stops'])
    c.calls['concreteDecoder.valueDecoder'] = payload_decoder_model
    c.calls['concreteDecoder.indefLenValueDecoder'] = payload_decoder_model
    return c


VALUE_REGION = [value_region('complete')]


def eoo_region(mode):
    from pyvc.core import lit_seq
    c = region(
        'allowEoo', 'allowEoo and self.supportIndefLength', mode,
        dict(allowEoo=PConst(True)),
        properties=['C07', 'C05'],
        requires=['self.supportIndefLength', 'len(substrate.data) - substrate.pos >= 2'],
        exit_ensures=[
            # C07: looking for the end-of-octets marker consumes it if present and nothing otherwise
            ('marker-consumed', '(%s == 0 and substrate.data[%s + 1] == 0) ==> (last_yield() is eoo.endOfOctets and '
                                'substrate.pos == %s + 2)' % (D0, P0, P0)),
            ('otherwise-position-restored', 'not (%s == 0 and substrate.data[%s + 1] == 0) ==> (substrate.pos == %s and '
                                            'nyields() == 0)' % (D0, P0, P0))],
        may_raise={'EndOfStreamError': True},
        external=['marker-consumed', 'otherwise-position-restored'])
    c.globals['EOO_SENTINEL'] = lit_seq([0, 0], 'bytes')
    return c


EOO_REGION = [eoo_region('complete'), eoo_region('partial')]

OID_DEC = [payload(
    'ObjectIdentifierPayloadDecoder', mode, properties=['C08', 'C01', 'C07', 'C10'],
    yield_ensures=[('consumed', CONSUMED),
                   ('first-arc-split', 'last_yield().value[0] == 0 or last_yield().value[0] == 1 or last_yield().value[0] == 2'),
                   # X.690 8.19.4: the first subidentifier is 40 * X + Y with Y <= 39 under X = 0 and X = 1 (C10: an OID
                   # 1.40.x has no encoding -- the library's own encoder refuses it)
                   ('second-arc-below-40-under-0-and-1', 'last_yield().value[0] <= 1 ==> '
                                                          '(last_yield().value[1] >= 0 and last_yield().value[1] <= 39)')],
    exit_ensures=[('one-result', 'nyields() == 1')],
    # kind B (C08): nothing but library errors escapes -- in particular no IndexError from chunk[index] / oid[0]
    may_raise={'PyAsn1Error': True},
    loops={1: Loop(invariant=['index >= 0', 'index <= substrateLen', 'substrateLen == len(chunk)',
                              'index > 0 ==> len(oid) > 0', 'isinstance(oid, tuple)'],
                   variant='substrateLen - index'),
           2: Loop(invariant=['index >= loop_entry(index)', 'index >= 1', 'index <= substrateLen',
                              'substrateLen == len(chunk)', 'subId >= 0', 'nextSubId >= 0', 'nextSubId <= 255',
                              'len(oid) == len(loop_entry(oid))'],
                   variant='substrateLen - index + (1 if nextSubId >= 128 else 0)')},
    external=['consumed', 'one-result']) for mode in ('complete',)]


def fragment_model(ex, substrate, asn1Spec=None, tagSet=None, length=None, state=None, **kw):
    """decodeFun called with the raw fragment collector: consumes one complete fragment TLV (>= 2 octets) and returns
    its contents octets; may raise PyAsn1Error"""
    if ex.choose(ex.fresh('fragment.raises', BoolSort()), 'fragment-raises'):
        raise _Raise(ExcV('PyAsn1Error'))
    pos = substrate.fields['pos']
    rest = Length(substrate.fields['data'].z) - pos
    n = ex.fresh('fragment.n', I)
    ex.assume(And(n >= 2, n <= rest))
    substrate.fields['pos'] = pos + n
    z = ex.fresh('fragment.content', S)
    ex.assume(inr(z))
    # ghosts: the fragment contents seen so far, in wire order; every fragment was asked for as a plain OCTET STRING
    # through the raw collector
    if 'frags' in substrate.fields:
        substrate.fields['frags'] = SeqV(z3.Concat(substrate.fields['frags'].z, z), 'bytes')
        ok = isinstance(asn1Spec, Obj) and asn1Spec.name == 'fragmentSpec' and \
            isinstance(kw.get('substrateFun'), FnV) and kw['substrateFun'].name == 'substrateCollector'
        substrate.fields['fragsOk'] = And(substrate.fields['fragsOk'], z3.BoolVal(bool(ok)))
    return SeqV(z, 'bytes')


fragment_model.is_generator_model = True


class PFragStream(PStream):
    def make(self, ex, name):
        o = PStream.make(self, ex, name)
        o.fields['frags'] = SeqV(z3.Empty(S), 'bytes')
        o.fields['fragsOk'] = z3.BoolVal(True)
        return o

OCTETS_DEC = [payload(
    'OctetStringPayloadDecoder', 'complete', properties=['C15', 'C09', 'C07', 'C08'],
    self_fields=dict(supportConstructedForm=PBool(), fragmentSpec=PConst(Obj('OctetString', {}, name='fragmentSpec')),
                     substrateCollector=PConst(FnV(lambda ex, *a, **k: None, 'substrateCollector'))),
    calls={'decodeFun': fragment_model},
    yield_ensures=[
        ('primitive-content', 'tagSet[0].tagFormat == 0 ==> (last_yield().value == %s and %s)' % (CONTENT, CONSUMED)),
        # X.690 8.7.3 / 8.23.6: the value of a constructed string is the concatenation of its fragments' contents in
        # wire order, each fragment decoded as a plain OCTET STRING
        ('constructed-is-the-fragments-in-order', 'tagSet[0].tagFormat != 0 ==> (last_yield().value == substrate.frags '
                                                  'and substrate.fragsOk)')],
    exit_ensures=[
        # C15: a codec that does not support the constructed form (DER) never returns a value for it
        ('constructed-only-if-supported', 'tagSet[0].tagFormat == 0 or self.supportConstructedForm'),
        ('one-result', 'nyields() == 1'),
        ('constructed-covers-length', 'tagSet[0].tagFormat != 0 ==> substrate.pos - old(substrate.pos) >= length')],
    may_raise={'PyAsn1Error': True},
    loops={2: Loop(invariant=['substrate.pos >= original_position', 'isinstance(header, bytes)', 'X.inr(header)',
                              'not value_yielded()', 'original_position == old(substrate.pos)', 'header == substrate.frags',
                              'substrate.fragsOk'],
                   havoc_fields=['substrate.pos', 'substrate.frags', 'substrate.fragsOk'],
                   variant='length - (substrate.pos - original_position)')},
    external=['primitive-content', 'constructed-only-if-supported', 'one-result', 'constructed-is-the-fragments-in-order'])]
OCTETS_DEC[0].params['substrate'] = PFragStream('complete')


def from_octet_string(ex, self, value, internalFormat=False, prepend=None, padding=0):
    return Obj('SizedInteger', {'octets': value, 'padding': padding, 'prepend': prepend}, name='bits')


BITS_DEC = [payload(
    'BitStringPayloadDecoder', 'complete', properties=['C08', 'C10', 'C01'],
    self_fields=dict(supportConstructedForm=PBool(),
                     protoComponent=PConst(Obj('BitString', {}, {'fromOctetString': from_octet_string}, name='protoComponent')),
                     substrateCollector=PConst(FnV(lambda ex, *a, **k: None, 'substrateCollector'))),
    requires=['tagSet[0].tagFormat == 0'],
    yield_ensures=[
        # X.690 8.6.2: first contents octet = number of unused bits (0..7), zero if there are no further octets
        ('unused-bits', 'last_yield().value.padding == %s and last_yield().value.padding <= 7' % D0),
        ('bits', 'last_yield().value.octets == X.sub(substrate.data, %s + 1, %s + length)' % (P0, P0)),
        ('no-unused-bits-without-bits', 'length == 1 ==> last_yield().value.padding == 0'),
        ('consumed', CONSUMED)],
    exit_ensures=[('one-result', 'nyields() == 1')],
    may_raise={'PyAsn1Error': True},
    external=['unused-bits', 'bits', 'no-unused-bits-without-bits', 'consumed', 'one-result'])]

CONTRACTS = INTEGER + NULL + OID_DEC + OCTETS_DEC + BITS_DEC + [BOOLEAN_CREATE, RAW_INDEF] + LENGTH_REGION + TAG_REGION + VALUE_REGION + EOO_REGION


# ---- REAL (X.690 8.5): safety of every branch (C08) and the value of the binary form (C09) -------------------------
P0 = 'old(substrate.pos)'
FO = 'substrate.data[%s]' % P0
# exponent field: 1..3 octets given by bits 2-1 of the first octet, or (bits = 11) a count octet followed by that many
EXPLEN = '((%s %% 4) + 1 if %s %% 4 != 3 else substrate.data[%s + 1])' % (FO, FO, P0)
EXPLO = '(%s + 1 if %s %% 4 != 3 else %s + 2)' % (P0, FO, P0)
EXPO = 'X.sub(substrate.data, %s, %s + %s)' % (EXPLO, EXPLO, EXPLEN)
MANT = 'X.sub(substrate.data, %s + %s, %s + length)' % (EXPLO, EXPLEN, P0)
BINARY = '(length >= 1 and %s >= 128)' % FO
REAL_DEC = [payload(
    'RealPayloadDecoder', 'complete', properties=['C08', 'C09', 'C01'],
    yield_ensures=[
        ('consumed', CONSUMED),
        # X.690 8.5.7: M = S x N x 2^F, value = M x B^E; the decoder normalises base 8/16 to base 2 by scaling E
        ('binary-base-is-2', BINARY + ' ==> last_yield().value[1] == 2'),
        ('binary-exponent', BINARY + ' ==> last_yield().value[2] == '
         'X.fold256(-1 if %s[0] >= 128 else 0, %s) * (1 if (%s // 16) %% 4 == 0 else (3 if (%s // 16) %% 4 == 1 else 4))'
         % (EXPO, EXPO, FO, FO)),
        ('binary-mantissa', BINARY + ' ==> last_yield().value[0] == '
         '(-1 if (%s // 64) %% 2 == 1 else 1) * X.fold256(0, %s) * X.pow2f((%s // 4) %% 4)' % (FO, MANT, FO)),
        ('infinity', '(length >= 1 and %s < 128 and %s >= 64) ==> last_yield().value == ("-inf" if %s %% 2 == 1 else "inf")'
         % (FO, FO, FO)),
    ],
    exit_ensures=[('one-result', 'nyields() == 1')],
    # kind B (C08): no IndexError from chunk[0] / eo[0], no ValueError from int()/float(): library errors only
    may_raise={'PyAsn1Error': True},
    loops={1: Loop(invariant=['isinstance(eo, bytes)',
                              'X.fold256(e, eo) == X.fold256(loop_entry(e), loop_entry(eo))'], variant='len(eo)',
                   hints=['X.lemma_fold256_step(iter_old(e), iter_old(eo))']),
           2: Loop(invariant=['isinstance(chunk, bytes)',
                              'X.fold256(p, chunk) == X.fold256(0, loop_entry(chunk))'], variant='len(chunk)',
                   hints=['X.lemma_fold256_step(iter_old(p), iter_old(chunk))'])},
    external=['consumed', 'one-result', 'binary-base-is-2', 'binary-exponent', 'binary-mantissa', 'infinity'])]
import os as _os
# the two value clauses relate the accumulators to slices of slices of the stream data; z3/cvc5 do not decide the
# nested-extract equalities within any budget tried (DESIGN 11.6), so they are kept for experiments only
# (REAL_FULL=1) and are not part of the registered contract: the value of binary REALs stays with the bounded
# stand-ins (ber-forms, rt-ber)
def _parse_decimal_model(ex, self, chunk):
    """assumed contract of RealPayloadDecoder._parseDecimal (decimal text: outside the modelled subset): an exact
    (mantissa, 10, exponent) triple, or the library's error for text that is not a decimal number"""
    if ex.choose(ex.fresh('decimal.bad', BoolSort()), 'bad-decimal-text'):
        raise _Raise(ExcV('SubstrateUnderrunError'))
    return Tup([ex.fresh('decimal.mantissa', I), 10, ex.fresh('decimal.exponent', I)])


REAL_DEC[0].params['self'].methods['_parseDecimal'] = _parse_decimal_model
if not _os.environ.get('REAL_FULL'):
    REAL_DEC[0].yield_ensures = [c for c in REAL_DEC[0].yield_ensures if c[0] not in ('binary-exponent', 'binary-mantissa')]
CONTRACTS = CONTRACTS + REAL_DEC


# ---- CER/DER BOOLEAN (X.690 11.1): exactly one contents octet, 00 or FF; anything else is refused ---------------------
CER_BOOLEAN_DEC = [Contract(
    id='cer.decoder::BooleanPayloadDecoder.valueDecoder[%s]' % mode, file='pyasn1/codec/cer/decoder.py',
    qual='BooleanPayloadDecoder.valueDecoder', properties=['C15', 'C09', 'C08'],
    params=payload_params('BooleanPayloadDecoder', mode), requires=['length >= 0'],
    calls={'readFromStream': _read_model(mode)}, is_generator=True,
    yield_ensures=[('consumed', CONSUMED),
                   ('true-is-ff', 'last_yield().value == (1 if substrate.data[old(substrate.pos)] == 255 else 0)'),
                   ('only-canonical-octets', 'substrate.data[old(substrate.pos)] == 255 or substrate.data[old(substrate.pos)] == 0')],
    exit_ensures=[('one-result', 'nyields() == 1'), ('single-octet', 'length == 1')],
    raises={'PyAsn1Error': 'length != 1 or (substrate.data[substrate.pos] != 255 and substrate.data[substrate.pos] != 0)'}
    if mode == 'complete' else {},
    may_raise={'EndOfStreamError': True} if mode == 'complete' else {'EndOfStreamError': True, 'PyAsn1Error': True},
    external=['consumed', 'true-is-ff', 'only-canonical-octets', 'one-result', 'single-octet']) for mode in ('complete',)]
CONTRACTS = CONTRACTS + CER_BOOLEAN_DEC


# ---- Decoder.__call__ (the one-shot decode()): first item of the streaming decoder + everything that follows --------
def _streaming_decoder(ex, substrate, asn1Spec=None, **options):
    """assumed contract of StreamingDecoder(...) seen through iteration (its parts are under contract: the single item
    decoder regions, isEndOfStream): the first thing it yields is an underrun marker or a decoded object, produced
    after consuming some k >= 0 octets of the stream"""
    pos = substrate.fields['pos']
    rest = Length(substrate.fields['data'].z) - pos
    k = ex.fresh('item.octets', I)
    ex.assume(And(k >= 0, k <= rest))
    substrate.fields['pos'] = pos + k
    ex.ghost['consumed'] = k
    if ex.choose(ex.fresh('item.underrun', BoolSort()), 'first-item-underrun'):
        return Tup([ExcV('SubstrateUnderrunError')], 'list')
    return Tup([Obj('Asn1Object', {}, name='decoded')], 'list')


DECODE_CALL = Contract(
    id='ber.decoder::Decoder.__call__', file=F, qual='Decoder.__call__', properties=['C07', 'C06', 'C01'],
    params=dict(cls=PObj('Decoder', STREAMING_DECODER=PConst(FnV(_streaming_decoder, 'STREAMING_DECODER'))),
                substrate=PStream('complete'), asn1Spec=PConst(None), options=POptions()),
    globals={'asSeekableStream': FnV(lambda ex, s: s, 'asSeekableStream'), 'null': SeqV(z3.Empty(S), 'bytes')},
    calls={'readFromStream': _read_model('complete'), 'next': lambda ex, x: x,
           'cls.STREAMING_DECODER': _streaming_decoder},
    ghost={'consumed': 0},
    ensures=[('returns-first-object', 'result[0] is last_result("cls.STREAMING_DECODER")[0]'),
             # C07: the remainder is exactly what follows the octets the decoder consumed -- nothing dropped, nothing kept
             ('remainder-is-everything-after-the-item',
              'result[1] == X.sub(substrate.data, old(substrate.pos) + consumed, len(substrate.data))'),
             ('remainder-is-bytes', 'isinstance(result[1], bytes)'),
             ('never-hands-out-a-marker', 'not isinstance(result[0], SubstrateUnderrunError)')],
    may_raise={'SubstrateUnderrunError': True},
    raise_ensures={'SubstrateUnderrunError': ['isinstance(last_result("cls.STREAMING_DECODER")[0], SubstrateUnderrunError)']},
    external=['remainder-is-everything-after-the-item'],
    note='decode() = first item of the streaming decoder; an underrun marker becomes SubstrateUnderrunError (C06), the '
         'rest of the input is handed back untouched (C07)')
CONTRACTS = CONTRACTS + [DECODE_CALL]


# ---- open types (ANY DEFINED BY): resolution by governing value, caller's map first (C18) --------------------------------
def _ot_map(name, resolved):
    """a mapping governing value -> type: finds `resolved` or raises KeyError"""
    has = z3.Bool(name + '.has')

    def getitem(ex, self, key):
        if ex.choose(has, name + '-has'):
            return resolved
        raise _Raise(ExcV('KeyError'))
    # (an OpenType object defines neither __len__ nor __bool__: it is truthy also when its map is empty; the caller's
    # plain dict reaches the region only through `openTypes or decodeOpenTypes`, i.e. outside it)
    return Obj('dict', {'__truthy__': True, 'name': 'governor'}, {'__getitem__': getitem}, name=name)


CALLER_T = Obj('Asn1Type', {}, name='callerType')
DEFAULT_T = Obj('Asn1Type', {}, name='defaultType')
GOV_VALUE = Obj('Value', {'isValue': z3.Bool('governor.isValue')}, name='governingValue')
RAW_BLOB = Obj('Any', {'typeId': 'any-type-id', 'isValue': True},
               {'asOctets': lambda ex, self: SeqV(z3.Const('blob', S), 'bytes')}, name='rawBlob')


def _ot_decode(ex, stream, asn1Spec=None, **options):
    """assumed contract of decodeFun on the captured octets: returns a value of the guiding type (or raises)"""
    if ex.choose(ex.fresh('inner.raises', BoolSort()), 'inner-raises'):
        raise _Raise(ExcV('PyAsn1Error'))
    return Obj('Decoded', {'of': asn1Spec}, name='decodedInner')


_ot_decode.is_generator_model = True


def _ot_record(ex, env):
    slots = {'blob': RAW_BLOB}

    def by_pos(ex2, self, idx, *a, **k):
        return {0: GOV_VALUE, 1: slots['blob']}[concrete(idx)]

    def by_name(ex2, self, name, *a, **k):
        return GOV_VALUE

    def set_pos(ex2, self, idx, value, *a, **k):
        assert concrete(idx) == 1
        slots['blob'] = value
        self.fields['blob'] = value
    return Obj('Sequence', {'blob': RAW_BLOB}, {'getComponentByPosition': by_pos, 'getComponentByName': by_name,
                                               'setComponentByPosition': set_pos}, name='asn1Object')


def _ot_named_types(ex, env):
    gov = Obj('NamedType', {'openType': None, 'isOptional': False, 'name': 'governor'}, name='namedType0')
    blob = Obj('NamedType', {'openType': _ot_map('defaultMap', DEFAULT_T), 'isOptional': False, 'name': 'blob'},
               name='namedType1')
    return Obj('NamedTypes', {'namedTypes': Tup([gov, blob]), 'hasOpenTypes': True}, name='namedTypes')


OPEN_TYPES = Contract(
    id='ber.decoder::ConstructedPayloadDecoderBase.valueDecoder@open-types', file=F,
    qual='ConstructedPayloadDecoderBase.valueDecoder', region="openTypes or options.get('decodeOpenTypes', False)",
    is_generator=True, properties=['C18'],
    params=dict(self=PObj('ConstructedPayloadDecoderBase'), namedTypes=PDerived(_ot_named_types),
                asn1Object=PDerived(_ot_record),
                openTypes=PConst(_ot_map('callerMap', CALLER_T)), options=POptions(decodeOpenTypes=PBool())),
    globals={'univ': {'SetOf': {'typeId': 'setof-type-id'}, 'SequenceOf': {'typeId': 'seqof-type-id'}, '__name__': 'univ'},
             'asSeekableStream': FnV(lambda ex, octets: Obj('Stream', {'octets': octets}, name='innerStream'), 'asSeekableStream'),
             'callerHas': z3.Bool('callerMap.has'), 'defaultHas': z3.Bool('defaultMap.has'), 'govSet': z3.Bool('governor.isValue'),
             'callerType': CALLER_T, 'defaultType': DEFAULT_T, 'rawBlob': RAW_BLOB},
    calls={'decodeFun': _ot_decode},
    loops={0: Loop(unroll=True), 1: Loop(unroll=True)},
    exit_ensures=[
        ('caller-map-wins', '(govSet and callerHas) ==> asn1Object.blob.of is callerType'),
        ('default-map-otherwise', '(govSet and not callerHas and defaultHas) ==> asn1Object.blob.of is defaultType'),
        ('unresolved-stays-raw', '(not govSet or (not callerHas and not defaultHas)) ==> asn1Object.blob is rawBlob')],
    may_raise={'PyAsn1Error': True},
    note='the governing value is looked up in the caller\'s openTypes map first, then in the map declared with the '
         'type; an unresolved value leaves the captured octets in place')
import copy as _copy
OPEN_TYPES_INDEF = _copy.copy(OPEN_TYPES)
OPEN_TYPES_INDEF.id = 'ber.decoder::ConstructedPayloadDecoderBase.indefLenValueDecoder@open-types'
OPEN_TYPES_INDEF.qual = 'ConstructedPayloadDecoderBase.indefLenValueDecoder'
CONTRACTS = CONTRACTS + [OPEN_TYPES, OPEN_TYPES_INDEF]


# ---- choosing the value decoder: by the recovered tag set (schemaless) or by the guiding type -----------------------------
FULL_DEC = Obj('PayloadDecoder', {'__truthy__': True}, name='decoderForFullTagSet')
BASE_DEC = Obj('PayloadDecoder', {'__truthy__': True}, name='decoderForBaseTag')
TYPE_DEC = Obj('PayloadDecoder', {'__truthy__': True}, name='decoderForTypeId')


def _sel_tagset(ex, env):
    base = Obj('TagSet', {}, name='tagSet[:1]')

    def getslice(ex2, self, lo, hi):
        if lo is None and concrete(hi) == 1:
            return base
        raise Unsupported('slice of tagSet other than [:1]')

    def eq(ex2, self, other):
        if isinstance(other, Obj) and other.name == 'asn1Spec.tagSet':
            return z3.Bool('tags.equal')
        return ex2.identical(self, other)
    o = Obj('TagSet', {'base': base}, {'__getslice__': getslice, '__eq__': eq}, name='tagSet')
    return o


def _by_identity_map(name, table):
    """mapping looked up by the identity of the key: table = [(key name, has-flag name, value)]"""
    def getitem(ex, self, key):
        for kname, flag, value in table:
            if isinstance(key, Obj) and key.name == kname:
                if ex.choose(z3.Bool(flag), flag):
                    return value
                raise _Raise(ExcV('KeyError'))
        raise _Raise(ExcV('KeyError'))

    def contains(ex, self, key):
        for kname, flag, value in table:
            if isinstance(key, Obj) and key.name == kname:
                return z3.Bool(flag)
        return False
    return Obj('dict', {}, {'__getitem__': getitem, '__contains__': contains}, name=name)


BY_TAG = region(
    'stGetValueDecoderByTag', 'state is stGetValueDecoderByTag', 'complete',
    dict(tagSet=PDerived(_sel_tagset), state=PConst(STATES['stGetValueDecoderByTag']),
         tagMap=PConst(_by_identity_map('tagMap', [('tagSet', 'tagMap.hasFull', FULL_DEC),
                                                   ('tagSet[:1]', 'tagMap.hasBase', BASE_DEC)])),
         concreteDecoder=PConst(None)),
    properties=['C16', 'C13', 'C15'],
    exit_ensures=[
        ('codec-of-the-full-tag-set-first', 'hasFull ==> (concreteDecoder is fullDec and state == stDecodeValue)'),
        ('base-tag-fallback', '(not hasFull and hasBase) ==> (concreteDecoder is baseDec and state == stDecodeValue)'),
        ('otherwise-try-as-explicit-tag', '(not hasFull and not hasBase) ==> (concreteDecoder is None and '
                                          'state == stTryAsExplicitTag)')],
    note='schemaless decoding: the codec registered for the whole recovered tag set, else the one for its innermost '
         '(base) tag, else the element is unwrapped as an explicit tag')
BY_TAG.globals.update({'hasFull': z3.Bool('tagMap.hasFull'), 'hasBase': z3.Bool('tagMap.hasBase'), 'fullDec': FULL_DEC,
                       'baseDec': BASE_DEC})
BY_TAG.is_generator = True


ASN1TYPE_CLS = Obj('type', {}, name='Asn1Type-class')
TAGMAP_CLS = Obj('type', {}, name='TagMap-class')


def _guiding_type(ex, env):
    ts = Obj('TagSet', {'baseTag': Obj('Tag', {}, name='asn1Spec.baseTag')}, {'__getslice__': _spec_tagset_slice},
             name='asn1Spec.tagSet')
    tm = _by_identity_map('asn1Spec.tagMap', [('tagSet', 'spec.tagMap.has', True)])
    return Obj('Asn1Type', {'tagSet': ts, 'tagMap': tm, 'typeId': 'spec-type-id', '__class__': ASN1TYPE_CLS},
               name='asn1Spec')


def _sel_tagset_ctor(ex, base=None, *tags):
    # the key under which a codec serves a whole family of types: TagSet(baseTag, baseTag) of the guiding type -- anything
    # else (other tags, more tags, a slice of the type's tag set, which starts at the *innermost* tag) is another key
    if isinstance(base, Obj) and base.name in ('asn1Spec.baseTag', 'chosen.baseTag') and len(tags) == 1 and tags[0] is base:
        return Obj('TagSet', {}, name='baseTagSetOfSpec')
    return Obj('TagSet', {}, name='someOtherTagSet')


def _spec_tagset_slice(ex, self, lo, hi):
    return Obj('TagSet', {}, name='sliceOfTheTypesTagSet')


BY_SPEC = region(
    'stGetValueDecoderByAsn1Spec', 'state is stGetValueDecoderByAsn1Spec', 'complete',
    dict(tagSet=PDerived(_sel_tagset), state=PConst(STATES['stGetValueDecoderByAsn1Spec']),
         asn1Spec=PDerived(_guiding_type),
         typeMap=PConst(_by_identity_map('typeMap', [])), tagMap=PConst(_by_identity_map('tagMap', [
             ('baseTagSetOfSpec', 'tagMap.hasBase', BASE_DEC)])),
         concreteDecoder=PConst(None)),
    properties=['C13', 'C15', 'C10'],
    exit_ensures=[
        # C13: a value is decoded under the guiding type only if the tags on the wire are the type's own tag set or one
        # its tag map lists (CHOICE alternatives, ANY); otherwise the element is tried as an explicit tag, never decoded
        ('no-codec-unless-the-tags-match', '(not tagsEqual and not inTagMap) ==> (concreteDecoder is None and '
                                           'state == stTryAsExplicitTag)'),
        ('codec-by-type-id-else-by-base-tag', '(tagsEqual or inTagMap) ==> ('
         '(byType and concreteDecoder is typeDec and state == stDecodeValue) or '
         '(not byType and hasBase and concreteDecoder is baseDec and state == stDecodeValue) or '
         '(not byType and not hasBase and concreteDecoder is None and state == stTryAsExplicitTag))')],
    note='guided decoding with a type object as asn1Spec (the TagMap case of nested CHOICE/SET lookups is contract '
         'type.tagmap::TagMap.__getitem__)')


def _type_map(ex, env):
    def getitem(ex2, self, key):
        if ex2.choose(z3.Bool('typeMap.has'), 'typeMap-has'):
            return TYPE_DEC
        raise _Raise(ExcV('KeyError'))
    return Obj('dict', {}, {'__getitem__': getitem}, name='typeMap')


BY_SPEC.params['typeMap'] = PDerived(_type_map)
BY_SPEC.globals.update({'tagsEqual': z3.Bool('tags.equal'), 'inTagMap': z3.Bool('spec.tagMap.has'),
                        'byType': z3.Bool('typeMap.has'), 'hasBase': z3.Bool('tagMap.hasBase'), 'typeDec': TYPE_DEC,
                        'baseDec': BASE_DEC,
                        'tagmap': {'TagMap': TAGMAP_CLS, '__name__': 'tagmap'},
                        'tag': dict(TAGC, __name__='tag', TagSet=FnV(_sel_tagset_ctor, 'tag.TagSet'))})
CONTRACTS = CONTRACTS + [BY_TAG, BY_SPEC]


# the same state when the guide is a TagMap (members of a SET / alternatives of an untagged CHOICE member)
CHOSEN_T = Obj('Asn1Type', {'tagSet': Obj('TagSet', {'baseTag': Obj('Tag', {}, name='chosen.baseTag')},
                                          {'__getslice__': lambda ex, self, lo, hi: _spec_tagset_slice(ex, self, lo, hi)},
                                          name='chosen.tagSet'),
                            'typeId': 'chosen-type-id'}, name='chosenType')


def _guiding_map(ex, env):
    def getitem(ex2, self, key):
        if not (isinstance(key, Obj) and key.name == 'tagSet'):
            raise Unsupported('TagMap looked up by something other than the recovered tag set')
        if ex2.choose(z3.Bool('spec.map.has'), 'map-has'):
            return CHOSEN_T
        raise _Raise(ExcV('KeyError'))
    return Obj('TagMap', {'__class__': TAGMAP_CLS}, {'__getitem__': getitem}, name='asn1Spec')


BY_SPEC_MAP = region(
    'stGetValueDecoderByAsn1Spec', 'state is stGetValueDecoderByAsn1Spec', 'complete',
    dict(tagSet=PDerived(_sel_tagset), state=PConst(STATES['stGetValueDecoderByAsn1Spec']),
         asn1Spec=PDerived(_guiding_map), typeMap=PDerived(_type_map),
         tagMap=PConst(_by_identity_map('tagMap', [('baseTagSetOfSpec', 'tagMap.hasBase', BASE_DEC)])),
         concreteDecoder=PConst(None)),
    properties=['C13', 'C15', 'C10'],
    exit_ensures=[
        ('no-codec-unless-the-map-has-the-tags', '(not inMap) ==> (concreteDecoder is None and state == stTryAsExplicitTag)'),
        ('the-mapped-type-guides-the-value', 'state == stDecodeValue ==> (inMap and asn1Spec is chosenType)'),
        ('codec-by-type-id-else-by-base-tag', 'inMap ==> ('
         '(byType and concreteDecoder is typeDec and state == stDecodeValue) or '
         '(not byType and hasBase and concreteDecoder is baseDec and state == stDecodeValue) or '
         '(not byType and not hasBase and concreteDecoder is None and state == stTryAsExplicitTag))')],
    note='the lookup itself is contract type.tagmap::TagMap.__getitem__')
BY_SPEC_MAP.id += '+tagmap'
BY_SPEC_MAP.globals.update(BY_SPEC.globals)
BY_SPEC_MAP.globals.update({'inMap': z3.Bool('spec.map.has'), 'chosenType': CHOSEN_T})
BY_SPEC.exit_ensures = list(BY_SPEC.exit_ensures) + [
    ('the-guide-stays', 'state == stDecodeValue ==> asn1Spec is old(asn1Spec)')]
CONTRACTS = CONTRACTS + [BY_SPEC_MAP]


# ---- last resort: an element whose tags select no codec is unwrapped only if it can be an EXPLICIT tag ----------------------
RAW_DEC = Obj('RawPayloadDecoder', {'__truthy__': True}, name='rawPayloadDecoder')
ERR_STATE = Obj('state', {}, name='defaultErrorState')


def _outer_tagset(ex, env):
    first = Obj('Tag', {'tagFormat': z3.Int('outer.tagFormat'), 'tagClass': z3.Int('outer.tagClass')}, name='tagSet[0]')

    def getitem(ex2, self, i):
        if concrete(i) == 0:
            return first
        raise Unsupported('tagSet[%r]' % (i,))
    return Obj('TagSet', {'__truthy__': z3.Bool('tagSet.nonEmpty')}, {'__getitem__': getitem}, name='tagSet')


AS_EXPLICIT = region(
    'stTryAsExplicitTag', 'state is stTryAsExplicitTag', 'complete',
    dict(tagSet=PDerived(_outer_tagset), state=PConst(STATES['stTryAsExplicitTag']), concreteDecoder=PConst(None)),
    properties=['C13', 'C15', 'C16'],
    requires=['0 <= fmt', '0 <= cls'],
    exit_ensures=[
        ('constructed-non-universal-is-unwrapped', '(nonEmpty and fmt == 32 and cls != 0) ==> '
                                                   '(concreteDecoder is rawDecoder and state == stDecodeValue)'),
        ('anything-else-is-the-error-state', '(not nonEmpty or fmt != 32 or cls == 0) ==> '
                                             '(concreteDecoder is None and state is errorState)')],
    note='X.690 8.14: an explicit tag is a constructed, non-UNIVERSAL element around the tagged value; a primitive or '
         'UNIVERSAL element that matched nothing is never unwrapped (C13: wrong tags are rejected, not skipped over)')
AS_EXPLICIT.params['self'] = PObj('SingleItemDecoder', supportIndefLength=PBool(), defaultErrorState=PConst(ERR_STATE))
AS_EXPLICIT.globals.update({'nonEmpty': z3.Bool('tagSet.nonEmpty'), 'fmt': z3.Int('outer.tagFormat'),
                            'cls': z3.Int('outer.tagClass'), 'rawDecoder': RAW_DEC, 'errorState': ERR_STATE,
                            'rawPayloadDecoder': RAW_DEC, 'tag': dict(TAGC, __name__='tag')})
CONTRACTS = CONTRACTS + [AS_EXPLICIT]


# ---- SEQUENCE / SET with a guiding type: which component an element goes to, and that none that must be there is missing -----
# schema seen through NamedTypes: N components, optional(i) / defaulted(i) for 0 <= i < N
NT_N = z3.Int('schema.N')
NT_OPT = z3.Function('schema.optional', I, BoolSort())
NT_DEF = z3.Function('schema.defaulted', I, BoolSort())
NT_HAS_OD = z3.Bool('schema.hasOptionalOrDefault')
_qi = z3.Int('i!q')
IntSet = z3.ArraySort(I, BoolSort())


def nt_required(i):
    return And(i >= 0, i < NT_N, Not(NT_OPT(i)), Not(NT_DEF(i)))


# invariant of a NamedTypes object, established by NamedTypes.__init__ (assumed here): the cached summary flag
NT_INVARIANT = And(NT_N >= 0, NT_HAS_OD == z3.Exists([_qi], And(_qi >= 0, _qi < NT_N, Or(NT_OPT(_qi), NT_DEF(_qi)))))


def _nt_note_lookup(self, j, tagSet):
    # ghosts: how many position-by-tags lookups were made, the last answer and the tags it was made for
    self.fields['lookups'] = self.fields['lookups'] + 1
    self.fields['lastLookup'] = j
    self.fields['lastLookupTags'] = IntVal(tagSet.uid if isinstance(tagSet, Obj) else -2)


def _nt_named_types(ex, env):
    def getitem(ex2, self, idx):
        idx = toint(idx)
        if not ex2.choose(And(idx >= 0, idx < NT_N), 'component-exists'):
            if ex2.choose(idx < 0, 'negative-index'):
                raise Unsupported('negative component index')
            raise _Raise(ExcV('IndexError'))
        return Obj('NamedType', {'isOptional': NT_OPT(idx), 'isDefaulted': NT_DEF(idx), 'openType': None,
                                 'asn1Object': Obj('Asn1Type', {'kind': 'exact', 'position': idx}, name='componentType')},
                   name='namedType')

    def near_map(ex2, self, idx):
        """NamedTypes.getTagMapNearPosition (call reduction of contract type.namedtype::NamedTypes.getTagMapNearPosition): the
        types allowed at or past idx, up to the next mandatory one"""
        idx = toint(idx)
        if not ex2.choose(And(idx >= 0, idx < NT_N), 'position-in-range'):
            raise _Raise(ExcV('PyAsn1Error'))
        return Obj('TagMap', {'kind': 'near', 'position': idx}, name='tagMapNearPosition')

    def near_type(ex2, self, tagSet, idx):
        """NamedTypes.getPositionNearType (call reduction of contract type.namedtype::NamedTypes.getPositionNearType over the
        runs built by __computeAmbiguousTypes, itself checked for declarations of up to 4 components): idx + position of the
        tags within the components from idx up to and including the next mandatory one; PyAsn1Error if none has these tags"""
        idx = toint(idx)
        if ex2.choose(ex2.fresh('near.unknown', BoolSort()), 'tags-not-allowed-here'):
            raise _Raise(ExcV('PyAsn1Error'))
        j = ex2.fresh('near.position', I)
        ex2.assume(And(j >= idx, j < NT_N, z3.ForAll([_qi], z3.Implies(And(_qi >= idx, _qi < j), Not(nt_required(_qi))))))
        _nt_note_lookup(self, j, tagSet)
        return j

    def by_type(ex2, self, tagSet):
        """NamedTypes.getPositionByType (call reduction of contract type.namedtype::NamedTypes.getPositionByType): the position
        of the component with these tags, or PyAsn1Error"""
        if ex2.choose(ex2.fresh('bytype.unknown', BoolSort()), 'tags-unknown'):
            raise _Raise(ExcV('PyAsn1Error'))
        j = ex2.fresh('bytype.position', I)
        ex2.assume(And(j >= 0, j < NT_N))
        _nt_note_lookup(self, j, tagSet)
        return j

    def issubset(ex2, self, other):
        arr = other.fields['arr']
        return z3.ForAll([_qi], z3.Implies(nt_required(_qi), z3.Select(arr, _qi)))
    required = Obj('frozenset', {}, {'issubset': issubset}, name='requiredComponents')
    return Obj('NamedTypes', {'__truthy__': NT_N > 0, 'hasOptionalOrDefault': NT_HAS_OD, 'hasOpenTypes': False,
                              'lookups': IntVal(0), 'lastLookup': IntVal(-1), 'lastLookupTags': IntVal(-1),
                              'tagMapUnique': Obj('TagMap', {'kind': 'unique', 'position': -1}, name='tagMapUnique'),
                              'requiredComponents': required},
               {'__getitem__': getitem, 'getTagMapNearPosition': near_map, 'getPositionNearType': near_type,
                'getPositionByType': by_type, '__len__': lambda ex2, self: NT_N}, name='namedTypes')


def _nt_set_ctor(ex, *a):
    if a:
        raise Unsupported('set(iterable)')

    def add(ex2, self, item):
        self.fields['arr'] = z3.Store(self.fields['arr'], toint(item), True)
    return Obj('set', {'arr': z3.K(I, False)}, {'add': add}, name='seenIndices')


def _nt_record(ex, env):
    def set_pos(ex2, self, idx, value, *a, **k):
        """univ.SequenceAndSetBase.setComponentByPosition (assumed): stores the value at the position or raises"""
        if ex2.choose(ex2.fresh('set.refused', BoolSort()), 'assignment-refused'):
            raise _Raise(ExcV('PyAsn1Error'))
        self.fields['assigned'] = z3.Store(self.fields['assigned'], toint(idx), True)
        self.fields['lastPosition'] = toint(idx)
        self.fields['lastValueUid'] = IntVal(value.uid if isinstance(value, Obj) else -2)
    return Obj('Sequence', {'assigned': z3.K(I, False), 'lastPosition': IntVal(-1), 'lastValueUid': IntVal(-1),
                            'isInconsistent': False}, {'setComponentByPosition': set_pos}, name='asn1Object')


def _nt_decode(ex, substrate, asn1Spec=None, **options):
    """assumed contract of decodeFun on the content octets: consumes at least one octet and returns a value decoded under
    the guide it was given, or raises"""
    if ex.choose(ex.fresh('element.raises', BoolSort()), 'element-raises'):
        raise _Raise(ExcV('PyAsn1Error'))
    k = ex.fresh('element.octets', I)
    ex.assume(k >= 1)
    substrate.fields['pos'] = substrate.fields['pos'] + k
    return Obj('Decoded', {'decodedWith': asn1Spec, 'effectiveTagSet': Obj('TagSet', {}, name='component.effectiveTagSet')},
               name='component')


_nt_decode.is_generator_model = True
IS_SET = z3.Bool('spec.isSet')


def _nt_spec(ex, env):
    return Obj('Asn1Type', {'typeId': 'set-type-id' if ex.choose(IS_SET, 'set-or-sequence') else 'sequence-type-id',
                            'componentType': env['namedTypes0']}, name='asn1Spec')


def _below(ex, arr, bound):
    return z3.ForAll([_qi], z3.Implies(z3.Select(arr, _qi), _qi < toint(bound)))


def _required_in(ex, arr):
    return z3.ForAll([_qi], z3.Implies(nt_required(_qi), z3.Select(arr, _qi)))


RECORD_LOOP = Contract(
    id='ber.decoder::ConstructedPayloadDecoderBase.valueDecoder@record-components', file=F,
    qual='ConstructedPayloadDecoderBase.valueDecoder', region='asn1Spec.typeId in (univ.Sequence.typeId, univ.Set.typeId)',
    is_generator=True, properties=['C10', 'C09', 'C04'],
    params=dict(self=PObj('ConstructedPayloadDecoderBase'), namedTypes0=PDerived(_nt_named_types), asn1Spec=PDerived(_nt_spec),
                asn1Object=PDerived(_nt_record),
                substrate=PDerived(lambda ex, env: Obj('Stream', {'pos': z3.Int('substrate.pos0')},
                                                       {'tell': lambda ex2, self: self.fields['pos']}, name='substrate')),
                original_position=PDerived(lambda ex, env: env['substrate'].fields['pos']),
                length=PInt(), options=POptions()),
    globals={'univ': {'Sequence': {'typeId': 'sequence-type-id'}, 'Set': {'typeId': 'set-type-id'}, '__name__': 'univ'},
             'set': FnV(_nt_set_ctor, 'set'), 'schemaInvariant': NT_INVARIANT, 'isSet': IS_SET, 'hasOD': NT_HAS_OD,
             'uid_of': FnV(lambda ex, o: IntVal(o.uid), 'uid_of'), 'N': NT_N, 'all_below': FnV(_below, 'all_below'), 'required_in': FnV(_required_in, 'required_in')},
    requires=['schemaInvariant', 'length >= 0'],
    calls={'decodeFun': _nt_decode},
    loops={0: Loop(invariant=['idx >= 0', 'seenIndices.arr == asn1Object.assigned',
                              '(not isSet) ==> all_below(seenIndices.arr, idx)',
                              'substrate.pos >= original_position', 'not value_yielded()'],
                   havoc_fields=['substrate.pos', 'seenIndices.arr', 'asn1Object.assigned', 'asn1Object.lastPosition',
                                 'asn1Object.lastValueUid', 'namedTypes0.lookups', 'namedTypes0.lastLookup',
                                 'namedTypes0.lastLookupTags'],
                   variant='length - (substrate.pos - original_position)',
                   iter_ensures=[
                       # the element just decoded is what gets stored ...
                       'asn1Object.lastValueUid == uid_of(component)',
                       # ... in a SEQUENCE never before the position reached so far: wire order is schema order and no
                       # component is assigned twice
                       '(not isSet) ==> (asn1Object.lastPosition >= iter_old(idx) and idx == asn1Object.lastPosition + 1)',
                       # without OPTIONAL/DEFAULT members the k-th element is decoded under exactly the k-th component type
                       '(not isSet and not hasOD and N > 0) ==> (component.decodedWith.kind == "exact" and '
                       'component.decodedWith.position == iter_old(idx) and asn1Object.lastPosition == iter_old(idx))',
                       # members of a SET are found by their tags among all members
                       '(isSet and N > 0) ==> component.decodedWith.kind == "unique"',
                       # C10 "every component has its declared type": an element decoded under one component's type goes to
                       # that component; one decoded under a map of several candidates goes where a lookup by *its* tags says
                       '(N > 0 and component.decodedWith.kind == "exact") ==> '
                       'asn1Object.lastPosition == component.decodedWith.position',
                       '(N > 0 and component.decodedWith.kind != "exact") ==> '
                       '(namedTypes0.lookups == iter_old(namedTypes0.lookups) + 1 and '
                       'asn1Object.lastPosition == namedTypes0.lastLookup and '
                       'namedTypes0.lastLookupTags == uid_of(component.effectiveTagSet))'])},
    exit_ensures=[
        # C10: whatever is accepted has every mandatory component
        ('every-mandatory-component-assigned', 'required_in(asn1Object.assigned)'),
        ('all-content-octets-consumed', 'substrate.pos - original_position >= length')],
    may_raise={'PyAsn1Error': True},
    note='NamedTypes lookups, setComponentByPosition and decodeFun are assumed models (stated with each); the schema is '
         'any number of components with any OPTIONAL/DEFAULT pattern')
CONTRACTS = CONTRACTS + [RECORD_LOOP]


def _nt_decode_indef(ex, substrate, asn1Spec=None, **options):
    """as _nt_decode, with allowEoo=True: the end-of-octets marker may come instead of an element"""
    if ex.choose(ex.fresh('element.eoo', BoolSort()), 'end-of-octets'):
        return END_OF_OCTETS
    return _nt_decode(ex, substrate, asn1Spec, **options)


_nt_decode_indef.is_generator_model = True


def _nt_record_indef(ex, env):
    o = _nt_record(ex, env)
    o.fields['componentType'] = env['namedTypes0']
    o.fields['typeId'] = env['asn1Spec'].fields['typeId']
    return o


RECORD_LOOP_INDEF = Contract(
    id='ber.decoder::ConstructedPayloadDecoderBase.indefLenValueDecoder@record-components', file=F,
    qual='ConstructedPayloadDecoderBase.indefLenValueDecoder', region=RECORD_LOOP.region,
    is_generator=True, properties=['C10', 'C09', 'C04'],
    params=dict(RECORD_LOOP.params, asn1Object=PDerived(_nt_record_indef)),
    globals=dict(RECORD_LOOP.globals, eoo={'endOfOctets': END_OF_OCTETS, '__name__': 'eoo'}),
    requires=['schemaInvariant'],
    calls={'decodeFun': _nt_decode_indef},
    loops={0: Loop(invariant=[i for i in RECORD_LOOP.loops[0].invariant],
                   havoc_fields=list(RECORD_LOOP.loops[0].havoc_fields),
                   # asn1Spec is re-assigned at the top of every iteration before it is read: whatever the previous
                   # iteration left is a value without attributes (any use of it would stop the analysis)
                   decl={'asn1Spec': Obj('Stale', {}, name='guide-of-the-previous-iteration')},
                   iter_ensures=list(RECORD_LOOP.loops[0].iter_ensures) + [
                       # an element beyond the last component of a SEQUENCE is refused, not stored
                       '(not isSet and N > 0) ==> asn1Object.lastPosition < N'])},
    exit_ensures=[('every-mandatory-component-assigned', 'required_in(asn1Object.assigned)'),
                  ('ends-at-the-end-of-octets-marker', 'component is eoo.endOfOctets')],
    may_raise={'PyAsn1Error': True},
    note=RECORD_LOOP.note)
CONTRACTS = CONTRACTS + [RECORD_LOOP_INDEF]


# ---- SEQUENCE OF / SET OF with a guiding type: every element, in wire order, under the one component type -------------------
ELEMENT_T = Obj('Asn1Type', {'kind': 'element-type'}, name='componentType')


def _of_record(ex, env):
    def set_pos(ex2, self, idx, value, *a, **k):
        """univ.SequenceOfAndSetOfBase.setComponentByPosition (assumed): stores the value at the position or raises"""
        if ex2.choose(ex2.fresh('set.refused', BoolSort()), 'assignment-refused'):
            raise _Raise(ExcV('PyAsn1Error'))
        self.fields['count'] = self.fields['count'] + 1
        self.fields['lastPosition'] = toint(idx)
        self.fields['lastValueUid'] = IntVal(value.uid if isinstance(value, Obj) else -2)
    return Obj('SequenceOf', {'count': IntVal(0), 'lastPosition': IntVal(-1), 'lastValueUid': IntVal(-1)},
               {'setComponentByPosition': set_pos}, name='asn1Object')


_OF_PARAMS = dict(self=PObj('ConstructedPayloadDecoderBase'),
                  asn1Spec=PConst(Obj('Asn1Type', {'typeId': 'sequence-of-type-id', 'componentType': ELEMENT_T}, name='asn1Spec')),
                  asn1Object=PDerived(_of_record), substrate=RECORD_LOOP.params['substrate'],
                  original_position=RECORD_LOOP.params['original_position'], length=PInt(), options=POptions())
_OF_ITER = ['asn1Object.lastValueUid == uid_of(component)',
            # the k-th element on the wire becomes the k-th member: nothing dropped, duplicated or reordered
            'asn1Object.lastPosition == iter_old(idx) and idx == iter_old(idx) + 1',
            'asn1Object.count == iter_old(asn1Object.count) + 1',
            'component.decodedWith is elementType']
_OF_INV = ['idx >= 0', 'asn1Object.count == idx', 'substrate.pos >= original_position', 'not value_yielded()']
_OF_HAVOC = ['substrate.pos', 'asn1Object.count', 'asn1Object.lastPosition', 'asn1Object.lastValueUid']
_OF_GLOBALS = dict(RECORD_LOOP.globals, elementType=ELEMENT_T)
OF_LOOP = Contract(
    id='ber.decoder::ConstructedPayloadDecoderBase.valueDecoder@collection-components', file=F,
    qual='ConstructedPayloadDecoderBase.valueDecoder', region=RECORD_LOOP.region + ' #else',
    is_generator=True, properties=['C10', 'C09', 'C01'], params=_OF_PARAMS, globals=_OF_GLOBALS,
    requires=['length >= 0'], calls={'decodeFun': _nt_decode},
    loops={0: Loop(invariant=_OF_INV, havoc_fields=_OF_HAVOC, variant='length - (substrate.pos - original_position)',
                   iter_ensures=_OF_ITER)},
    exit_ensures=[('as-many-members-as-elements', 'asn1Object.count == idx'),
                  ('all-content-octets-consumed', 'substrate.pos - original_position >= length')],
    may_raise={'PyAsn1Error': True}, note='setComponentByPosition and decodeFun are assumed models')


def _of_loop_indef():
    c = Contract(
        id='ber.decoder::ConstructedPayloadDecoderBase.indefLenValueDecoder@collection-components', file=F,
        qual='ConstructedPayloadDecoderBase.indefLenValueDecoder', region=RECORD_LOOP.region + ' #else',
        is_generator=True, properties=['C10', 'C09', 'C01'], params=_OF_PARAMS,
        globals=dict(_OF_GLOBALS, eoo={'endOfOctets': END_OF_OCTETS, '__name__': 'eoo'}),
        calls={'decodeFun': _nt_decode_indef},
        loops={0: Loop(invariant=_OF_INV, havoc_fields=_OF_HAVOC, iter_ensures=_OF_ITER)},
        exit_ensures=[('as-many-members-as-elements', 'asn1Object.count == idx'),
                      ('ends-at-the-end-of-octets-marker', 'component is eoo.endOfOctets')],
        may_raise={'PyAsn1Error': True}, note='setComponentByPosition and decodeFun are assumed models')
    return c


OF_LOOP_INDEF = _of_loop_indef()

# ---- ... and the constraints of the constructed type itself are enforced before the value is handed out (C10) ---------------
INCONSISTENCY = ExcV('ValueConstraintError')


def _tail_object(ex, env):
    return Obj('Asn1Value', {'isInconsistent': INCONSISTENCY if ex.choose(z3.Bool('value.inconsistent'), 'inconsistent')
                             else False}, name='asn1Object')


def _tail(qual):
    return Contract(
        id='ber.decoder::ConstructedPayloadDecoderBase.%s@result' % qual, file=F,
        qual='ConstructedPayloadDecoderBase.%s' % qual, region='tail:inconsistency = asn1Object.isInconsistent',
        is_generator=True, properties=['C10', 'C14'],
        params=dict(self=PObj('ConstructedPayloadDecoderBase'), asn1Object=PDerived(_tail_object), length=PInt(),
                    options=POptions(), substrateFun=PConst(None)),
        globals={'inconsistent': z3.Bool('value.inconsistent')},
        yield_ensures=[('only-consistent-values-are-handed-out', 'not inconsistent and y is asn1Object')],
        exit_ensures=[('one-result', 'nyields() == 1')],
        raises={'ValueConstraintError': 'inconsistent'},
        note='isInconsistent evaluates the size / inner-type constraints of SEQUENCE OF, SET OF, SEQUENCE and SET '
             '(type.univ); here: the decoder consults it and refuses the value')


CONTRACTS = CONTRACTS + [OF_LOOP, OF_LOOP_INDEF, _tail('valueDecoder'), _tail('indefLenValueDecoder')]


# ---- StreamingDecoder.__iter__: one object per encoding, in order, until the stream says it is over (C05, C07) ---------------
def _single_item(ex, substrate, asn1Spec=None, **options):
    """call reduction of SingleItemDecoder.__call__ (its states are under contract region by region): the last thing
    it yields is the decoded object, after consuming k >= 1 octets; underrun markers before that are relayed"""
    if ex.choose(ex.fresh('item.raises', BoolSort()), 'item-raises'):
        raise _Raise(ExcV('PyAsn1Error'))
    k = ex.fresh('item.octets', I)
    ex.assume(k >= 1)
    substrate.fields['pos'] = substrate.fields['pos'] + k
    substrate.fields['items'] = substrate.fields['items'] + 1
    return Obj('Asn1Object', {'ordinal': substrate.fields['items']}, name='decoded')


_single_item.is_generator_model = True


def _is_eos(ex, substrate):
    """isEndOfStream seen through iteration (contracts codec.streaming::isEndOfStream[*]): a bare None for every poll on which
    the source has no data yet, then one boolean"""
    answer = z3.Bool('eos.answer')
    if ex.choose(ex.fresh('eos.nodata', BoolSort()), 'eos-no-data-yet'):
        if ex.choose(ex.fresh('eos.nodata.again', BoolSort()), 'eos-no-data-again'):
            return Tup([None, None, answer], 'list')
        return Tup([None, answer], 'list')
    return Tup([answer], 'list')


def _iter_self(ex, env):
    stream = Obj('Stream', {'pos': z3.Int('stream.pos0'), 'items': IntVal(0)}, name='substrate')
    return Obj('StreamingDecoder', {'_singleItemDecoder': FnV(_single_item, '_singleItemDecoder'), '_substrate': stream,
                                    '_asn1Spec': None, '_options': env['options']}, name='self')


STREAM_ITER = Contract(
    id='ber.decoder::StreamingDecoder.__iter__', file=F, qual='StreamingDecoder.__iter__', is_generator=True,
    properties=['C05', 'C07'],
    params=dict(options=POptions(), self=PDerived(_iter_self)),
    calls={'self._singleItemDecoder': _single_item, 'isEndOfStream': _is_eos},
    globals={'eosAnswer': z3.Bool('eos.answer')},
    loops={0: Loop(invariant=['self._substrate.items >= 0'],
                   havoc_fields=['self._substrate.pos', 'self._substrate.items'],
                   iter_ensures=['self._substrate.items == iter_old(self._substrate.items) + 1',
                                 # exactly one object per decoded item: none lost, none handed out twice
                                 'iter_values() == 1',
                                 # the next item is started only on a definite "not at the end": an open question
                                 # (None: no data yet) is asked again, not read as "no" (C05: a stream closed after
                                 # its last object ends the iteration, it does not raise from a half-started item)
                                 'chunk is not None and chunk == False and not eosAnswer'])},
    yield_ensures=[
        # every object handed out is the one the single-item decoder just finished, in order; an underrun of the
        # end-of-stream test is reported as None
        # what is handed out is an underrun marker (also while the end-of-stream question is open) or the object the
        # single-item decoder just finished, in order; never None
        ('objects-in-order-or-underrun', '(not isinstance(y, SubstrateUnderrunError)) ==> '
                                         '(y is not None and y.ordinal == self._substrate.items)')],
    # the iteration ends only on a definite "end of stream" answer: "no data yet" keeps it going (the next item reports
    # the underrun)
    exit_ensures=[('stops-only-at-end-of-stream', 'chunk is not None and chunk == True and eosAnswer')],
    # (no data yet: underrun markers until the source answers; C05: end of stream signalled after the last octet stops the
    # iteration, it does not raise)
    may_raise={'PyAsn1Error': True},
    note='SingleItemDecoder.__call__ and isEndOfStream are call reductions of their own contracts')
STREAM_ITER.multi_value = True
CONTRACTS = CONTRACTS + [STREAM_ITER]


# ---- CHOICE (definite length): explicit tag => decode what is inside; untagged => re-dispatch the same element ---------------
CH_MAP = Obj('TagMap', {}, name='componentTagMap')
CH_STATE = Obj('state', {}, name='callerState')


def _ch_decode(ex, substrate, asn1Spec=None, tagSet=None, length=None, state=None, **options):
    """assumed contract of decodeFun: a value of one of the types the guide allows, or PyAsn1Error"""
    if ex.choose(ex.fresh('inner.raises', BoolSort()), 'inner-raises'):
        raise _Raise(ExcV('PyAsn1Error'))
    return Obj('Decoded', {'guide': asn1Spec, 'tagSetArg': tagSet, 'lengthArg': length, 'stateArg': state,
                           'effectiveTagSet': Obj('TagSet', {}, name='component.effectiveTagSet')}, name='component')


_ch_decode.is_generator_model = True


def _ch_spec(ex, env):
    def clone(ex2, self, *a, **kw):
        def eq(ex3, me, other):
            if isinstance(other, Obj) and other.name == 'tagSet':
                return z3.Bool('choice.isTagged')
            return ex3.identical(me, other)

        def by_type(ex3, me, tagSet, value, *a2, **kw2):
            if ex3.choose(ex3.fresh('choice.refused', BoolSort()), 'alternative-refused'):
                raise _Raise(ExcV('PyAsn1Error'))
            me.fields['chosenBy'] = tagSet
            me.fields['chosen'] = value
        return Obj('Choice', {'tagSet': Obj('TagSet', {}, {'__eq__': eq}, name='choice.tagSet'), 'componentTagMap': CH_MAP,
                              'chosen': None, 'chosenBy': None, 'cloneOf': self,
                              # the constraints of the CHOICE type itself (WITH COMPONENTS), evaluated by type.univ
                              'isInconsistent': INCONSISTENCY if ex2.choose(z3.Bool('value.inconsistent'), 'inconsistent')
                              else False}, {'setComponentByType': by_type},
                   name='asn1Object')
    return Obj('Choice', {}, {'clone': clone}, name='asn1Spec')


CHOICE_DEC = Contract(
    id='ber.decoder::ChoicePayloadDecoder.valueDecoder', file=F, qual='ChoicePayloadDecoder.valueDecoder',
    is_generator=True, properties=['C09', 'C10', 'C12', 'C13'],
    params=dict(self=PObj('ChoicePayloadDecoder'), substrate=PConst(Obj('Stream', {}, name='substrate')),
                asn1Spec=PDerived(_ch_spec), tagSet=PConst(Obj('TagSet', {}, name='tagSet')), length=PInt(),
                state=PConst(CH_STATE), decodeFun=PConst(FnV(_ch_decode, 'decodeFun')), substrateFun=PConst(None),
                options=POptions()),
    globals={'isTagged': z3.Bool('choice.isTagged'), 'componentTagMap': CH_MAP, 'callerState': CH_STATE,
             'inconsistent': z3.Bool('value.inconsistent')},
    calls={'decodeFun': _ch_decode, 'self._passAsn1Object': lambda ex, o, options: options},
    yield_ensures=[
        ('fresh-object-not-the-guide', 'y is not asn1Spec and y.cloneOf is asn1Spec'),
        ('alternative-chosen-by-the-tags-of-what-was-decoded', 'y.chosenBy is y.chosen.effectiveTagSet'),
        ('decoded-under-the-alternatives-map', 'y.chosen.guide is componentTagMap'),
        # X.690 8.13: an explicitly tagged CHOICE wraps the alternative's own encoding ...
        ('tagged-choice-decodes-the-inner-element', 'isTagged ==> (y.chosen.tagSetArg is None and y.chosen.lengthArg is None '
                                                    'and y.chosen.stateArg is None)'),
        # ... an untagged one *is* the alternative's encoding: same tags, same length, same dispatcher state
        ('untagged-choice-re-dispatches-this-element', '(not isTagged) ==> (y.chosen.tagSetArg is tagSet and '
                                                       'y.chosen.lengthArg == length and y.chosen.stateArg is callerState)'),
        # C10: a value that the constraints of the CHOICE type itself refuse is not handed out
        ('only-consistent-values-are-handed-out', 'not inconsistent')],
    exit_ensures=[('one-result', 'nyields() == 1')],
    may_raise={'PyAsn1Error': True},
    note='decodeFun, asn1Spec.clone and setComponentByType are assumed models; _passAsn1Object only adds an option')
CONTRACTS = CONTRACTS + [CHOICE_DEC]


# ---- constructed strings of indefinite length: fragments up to the end-of-octets marker ---------------------------------------
def fragment_or_eoo(ex, substrate, asn1Spec=None, tagSet=None, length=None, state=None, **kw):
    if ex.choose(ex.fresh('fragment.eoo', BoolSort()), 'end-of-octets'):
        substrate.fields['sawAllowEoo'] = z3.BoolVal(kw.get('allowEoo') is True)
        return END_OF_OCTETS
    return fragment_model(ex, substrate, asn1Spec, tagSet, length, state, **kw)


fragment_or_eoo.is_generator_model = True


class PFragStream2(PFragStream):
    def make(self, ex, name):
        o = PFragStream.make(self, ex, name)
        o.fields['sawAllowEoo'] = z3.BoolVal(False)
        return o


OCTETS_DEC_INDEF = Contract(
    id='ber.decoder::OctetStringPayloadDecoder.indefLenValueDecoder[complete]', file=F,
    qual='OctetStringPayloadDecoder.indefLenValueDecoder', is_generator=True, properties=['C09', 'C01', 'C08'],
    params=dict(payload_params('OctetStringPayloadDecoder', 'complete', supportConstructedForm=PBool(),
                               fragmentSpec=PConst(Obj('OctetString', {}, name='fragmentSpec')),
                               substrateCollector=PConst(FnV(lambda ex, *a, **k: None, 'substrateCollector'))),
                substrate=PFragStream2('complete')),
    globals={'eoo': {'endOfOctets': END_OF_OCTETS, '__name__': 'eoo'}},
    calls={'decodeFun': fragment_or_eoo, 'readFromStream': _read_model('complete')},
    loops={1: Loop(invariant=['isinstance(header, bytes)', 'X.inr(header)', 'not value_yielded()', 'header == substrate.frags',
                              'substrate.fragsOk', 'substrate.pos >= old(substrate.pos)'],
                   havoc_fields=['substrate.pos', 'substrate.frags', 'substrate.fragsOk'])},
    yield_ensures=[('the-fragments-in-order', 'last_yield().value == substrate.frags and substrate.fragsOk'),
                   ('ended-by-the-marker', 'component is eoo.endOfOctets and substrate.sawAllowEoo')],
    exit_ensures=[('one-result', 'nyields() == 1')],
    may_raise={'PyAsn1Error': True},
    external=['the-fragments-in-order', 'ended-by-the-marker', 'one-result'])
CONTRACTS = CONTRACTS + [OCTETS_DEC_INDEF]


# ---- schemaless constructed values: every decoded element kept, in order, in a container that is a value (C16) -------------------
from contracts.univ_containers import sym_list, ElemSeq, _list_as_seq, idof, NOV as _NOV
from pyvc.core import RecSeqV as _RecSeqV


class _ComponentSeq(_RecSeqV):
    """iteration over the python list of decoded components (identity tokens)"""

    def elem(self, i):
        return Obj('Asn1Item', {'__id__': self.cols[0][i]}, name='component')


def _sl_list(ex):
    """the python list of decoded components: a sequence of identity tokens"""
    def append(ex2, self, v):
        self.fields['items'] = SeqV(z3.Concat(self.fields['items'].z, z3.Unit(idof(v))), 'any')
    return Obj('list', {'items': SeqV(z3.Empty(S), 'any')},
               {'append': append, '__iter__': lambda ex2, self: _ComponentSeq([self.fields['items'].z], names=('__id__',)),
                '__len__': lambda ex2, self: Length(self.fields['items'].z)}, name='components')


def _sl_set(ex, *a):
    """set() of the element tag sets: only its size matters to the guess (1 kind of element -> SEQUENCE OF, more -> SEQUENCE)"""
    def add(ex2, self, item):
        grows = ex2.fresh('set.grows', BoolSort())
        self.fields['size'] = self.fields['size'] + If(grows, 1, 0)
        self.fields['adds'] = self.fields['adds'] + 1          # (ghost) how many elements' tags it has been shown
    return Obj('set', {'size': IntVal(0), 'adds': IntVal(0)}, {'add': add, '__len__': lambda ex2, self: self.fields['size']},
               name='componentTypes')


def _sl_decode(ex, substrate, asn1Spec=None, **options):
    """assumed contract of decodeFun without a guide: consumes at least one octet and returns a value object with a tag
    set, or the end-of-octets marker (allowEoo), or raises"""
    if ex.choose(ex.fresh('element.raises', BoolSort()), 'element-raises'):
        raise _Raise(ExcV('PyAsn1Error'))
    k = ex.fresh('element.octets', I)
    ex.assume(k >= 1)
    substrate.fields['pos'] = substrate.fields['pos'] + k
    if options.get('allowEoo') is True and ex.choose(ex.fresh('element.eoo', BoolSort()), 'end-of-octets'):
        return END_OF_OCTETS          # the marker is handed out only to a caller that allows it
    ident = ex.fresh('element.id', I)
    ex.assume(ident < 0)              # a fresh value object: not one of the modelled singletons (their tokens are positive)
    substrate.fields['decoded'] = SeqV(z3.Concat(substrate.fields['decoded'].z, z3.Unit(ident)), 'any')
    return Obj('Asn1Item', {'__id__': ident, 'tagSet': Obj('TagSet', {}, name='component.tagSet')}, name='component')


_sl_decode.is_generator_model = True


def _sl_proto(kind):
    def clone(ex, self, *a, **kw):
        def set_pos(ex2, me, idx, value, *a2, **kw2):
            me.fields['stored'] = SeqV(z3.Concat(me.fields['stored'].z, z3.Unit(idof(value))), 'any')
            me.fields['positionsInOrder'] = And(me.fields['positionsInOrder'], toint(idx) == Length(me.fields['stored'].z) - 1)
            return me

        def clear(ex2, me):
            me.fields['cleared'] = True
            return me
        # (ghost) what the guess had seen when this container was made: the number of elements recorded and of tags shown
        seen = ex.env.get('components') if ex is not None and hasattr(ex, 'env') else None
        types = ex.env.get('componentTypes') if ex is not None and hasattr(ex, 'env') else None
        return Obj('Asn1Value', {'kind': kind, 'stored': SeqV(z3.Empty(S), 'any'), 'positionsInOrder': z3.BoolVal(True),
                                 'cleared': False, 'tagSetArg': kw.get('tagSet'),
                                 'guessedAfter': Length(seen.fields['items'].z) if isinstance(seen, Obj) and 'items' in seen.fields else IntVal(-1),
                                 'tagsSeen': types.fields['adds'] if isinstance(types, Obj) and 'adds' in types.fields else IntVal(-1)},
                   {'setComponentByPosition': set_pos, 'clear': clear}, name='asn1Object')
    return Obj('Asn1Type', {'tagSet': Obj('TagSet', {'baseTag': Obj('Tag', {}, name='baseTag')}, name='proto.tagSet')}, {'clone': clone},
               name='proto' + kind)


class PGuess(PObjOneOf):
    """the container guessed so far: None before the first element, afterwards a fresh clone of one of the two prototypes
    (nothing stored in it yet: the elements are stored after the loop)"""

    def __init__(self):
        PObjOneOf.__init__(self, singletons=[None], classes=['Asn1Value'])

    def make(self, ex, name):
        if ex.choose(z3.Bool(name + '.none-yet'), 'no-guess-yet'):
            return None
        kind = 'record' if ex.choose(z3.Bool(name + '.record'), 'guessed-record') else 'collection'
        return _sl_proto(kind).methods['clone'](ex, None)

    def admits(self, v):
        if v is None:
            return True
        return isinstance(v, Obj) and v.cls == 'Asn1Value' and v.fields.get('cleared') is False and \
            z3.is_app(v.fields['stored'].z) and v.fields['stored'].z.decl().kind() == z3.Z3_OP_SEQ_EMPTY


SCHEMALESS = Contract(
    id='ber.decoder::ConstructedPayloadDecoderBase._decodeComponentsSchemaless', file=F,
    qual='ConstructedPayloadDecoderBase._decodeComponentsSchemaless', is_generator=True, properties=['C16', 'C08', 'C10'],
    params=dict(self=PObj('ConstructedPayloadDecoderBase', protoRecordComponent=PConst(_sl_proto('record')),
                          protoSequenceComponent=PConst(_sl_proto('collection'))),
                substrate=PDerived(lambda ex, env: Obj('Stream', {'pos': z3.Int('substrate.pos0'), 'decoded': SeqV(z3.Empty(S), 'any')},
                                                       {'tell': lambda ex2, self: self.fields['pos']}, name='substrate')),
                tagSet=PConst(Obj('TagSet', {'superTags': Tup([])}, name='tagSet')), decodeFun=PConst(None),
                length=PInt(), options=POptions()),
    globals={'set': FnV(_sl_set, 'set'), 'eoo': {'endOfOctets': END_OF_OCTETS, '__name__': 'eoo'},
             'tag': {'TagSet': FnV(lambda ex, base=None, *tags: Obj('TagSet', {'base': base}, name='guessedTagSet'), 'tag.TagSet'),
                     '__name__': 'tag'},
             'as_seq': FnV(lambda ex, lst: SeqV(_list_as_seq(ex, lst), 'any'), 'as_seq')},
    requires=['length >= -1'],
    calls={'decodeFun': _sl_decode},
    loops={0: Loop(invariant=['not value_yielded()', 'substrate.pos >= original_position',
                              'components.items == substrate.decoded', 'componentTypes.size >= 0',
                              '(asn1Object is None) == (len(substrate.decoded) == 0)',
                              'componentTypes.adds == len(substrate.decoded)',
                              '(asn1Object is not None) ==> (asn1Object.guessedAfter == len(substrate.decoded) and '
                              'asn1Object.tagsSeen == len(substrate.decoded))'],
                   havoc_fields=['substrate.pos', 'substrate.decoded', 'components.items', 'componentTypes.size', 'componentTypes.adds'],
                   decl={'asn1Object': PGuess(),
                         'protoComponent': Obj('Stale', {}, name='prototype-of-the-previous-iteration')}),
           2: Loop(index='k', invariant=['asn1Object.stored == X.sub(substrate.decoded, 0, k)', 'asn1Object.positionsInOrder'],
                   havoc_fields=['asn1Object.stored', 'asn1Object.positionsInOrder'])},
    yield_ensures=[
        # C16: never None, never a valueless placeholder: a container holding every decoded element, in wire order
        ('a-container-with-every-element-in-order', 'y is not None and y.stored == substrate.decoded and y.positionsInOrder'),
        ('an-empty-container-is-a-value-too', 'len(substrate.decoded) == 0 ==> y.cleared'),
        # SEQUENCE or SEQUENCE OF is guessed from the tags of *all* the elements: the container handed out was made after the
        # last element had been recorded and its tag shown to the set the guess counts
        ('guessed-from-every-element', 'y.guessedAfter == len(substrate.decoded) and y.tagsSeen == len(substrate.decoded)')],
    exit_ensures=[('one-result', 'nyields() == 1')],
    may_raise={'PyAsn1Error': True},
    note='decodeFun and the prototypes\' clone/setComponentByPosition are assumed models; which prototype is guessed (one kind '
         'of element -> SEQUENCE OF, several -> SEQUENCE) is covered by the schemaless stand-in')
SCHEMALESS.empty_list = _sl_list
CONTRACTS = CONTRACTS + [SCHEMALESS]


# ---- constructed BIT STRING: the fragments' bits appended in wire order, each with its own unused-bits count (X.690 8.6.4) ---------
BITS_APPEND = z3.Function('append_bits', I, S, I, I)     # (bits so far, octets of the fragment, unused bits in its last octet)
NO_BITS = IntVal(0)


BITS_NONZERO = z3.Function('some_bit_set', I, BoolSort())


def _bits_obj(acc):
    o = Obj('SizedInteger', {'acc': acc}, name='bits')
    # a SizedInteger is an int: bits that are all zero make it falsy, however many they are
    o.methods['__bool__'] = lambda ex, self: BITS_NONZERO(toint(self.fields['acc']))
    return o


def _bits_from_octets(ex, self, value, internalFormat=False, prepend=None, padding=0):
    """univ.BitString.fromOctetString (assumed): the bits of `value` minus `padding` unused ones, appended to `prepend`"""
    acc = NO_BITS if prepend is None else prepend.fields['acc']
    z = value.z if isinstance(value, SeqV) else mk_seq(list(value))
    if z3.is_app(z) and z.decl().kind() == z3.Z3_OP_SEQ_EMPTY and prepend is None:
        return _bits_obj(NO_BITS)
    return _bits_obj(BITS_APPEND(acc, z, toint(padding)))


def bit_fragment_model(ex, substrate, asn1Spec=None, tagSet=None, length=None, state=None, **kw):
    """decodeFun called with the raw fragment collector: one complete fragment TLV consumed, its contents octets returned
    (the first of them is the unused-bits count); the marker instead when allowEoo"""
    if kw.get('allowEoo') is True and ex.choose(ex.fresh('fragment.eoo', BoolSort()), 'end-of-octets'):
        return END_OF_OCTETS
    if ex.choose(ex.fresh('fragment.raises', BoolSort()), 'fragment-raises'):
        raise _Raise(ExcV('PyAsn1Error'))
    n = ex.fresh('fragment.n', I)
    ex.assume(n >= 2)
    substrate.fields['pos'] = substrate.fields['pos'] + n
    z = ex.fresh('fragment.content', S)
    ex.assume(inr(z))
    # ghost: what X.690 8.6.4 says the value is after this fragment
    ok = isinstance(asn1Spec, Obj) and asn1Spec.name == 'protoComponent' and isinstance(kw.get('substrateFun'), FnV) and \
        kw['substrateFun'].name == 'substrateCollector'
    substrate.fields['fragsOk'] = And(substrate.fields['fragsOk'], z3.BoolVal(bool(ok)))
    substrate.fields['bitsAcc'] = If(Length(z) >= 1, BITS_APPEND(substrate.fields['bitsAcc'], z3.Extract(z, IntVal(1), Length(z) - 1), z[0]),
                                     substrate.fields['bitsAcc'])
    substrate.fields['lastFragment'] = SeqV(z, 'bytes')
    return SeqV(z, 'bytes')


bit_fragment_model.is_generator_model = True


class PBitFragStream(PStream):
    def make(self, ex, name):
        o = PStream.make(self, ex, name)
        o.fields['bitsAcc'] = NO_BITS
        o.fields['fragsOk'] = z3.BoolVal(True)
        o.fields['lastFragment'] = SeqV(z3.Empty(S), 'bytes')
        return o


def _bits_params(**extra):
    p = payload_params('BitStringPayloadDecoder', 'complete', supportConstructedForm=PBool(),
                       protoComponent=PConst(Obj('BitString', {}, {'fromOctetString': _bits_from_octets}, name='protoComponent')),
                       substrateCollector=PConst(FnV(lambda ex, *a, **k: None, 'substrateCollector')))
    p['substrate'] = PBitFragStream('complete')
    p.update(extra)
    return p


class PBits(PObjOneOf):
    """the bits collected so far: some SizedInteger"""

    def __init__(self):
        PObjOneOf.__init__(self, classes=['SizedInteger'])

    def make(self, ex, name):
        return _bits_obj(z3.Int(name + '.acc'))

    def admits(self, v):
        return isinstance(v, Obj) and v.cls == 'SizedInteger'


_BITS_INV = ['not value_yielded()', 'bitString.acc == substrate.bitsAcc', 'substrate.fragsOk']
_BITS_HAVOC = ['substrate.pos', 'substrate.bitsAcc', 'substrate.fragsOk', 'substrate.lastFragment']
_BITS_ITER = [  # a fragment without its unused-bits octet, or with a count of 8 or more, or with unused bits but no bits, is refused
    'len(substrate.lastFragment) >= 1 and substrate.lastFragment[0] <= 7 and '
    '(substrate.lastFragment[0] == 0 or len(substrate.lastFragment) >= 2)']
BITS_DEC_CONSTRUCTED = Contract(
    id='ber.decoder::BitStringPayloadDecoder.valueDecoder[constructed]', file=F, qual='BitStringPayloadDecoder.valueDecoder',
    is_generator=True, properties=['C09', 'C01', 'C08', 'C15'],
    params=_bits_params(), requires=['length >= 0', 'tagSet[0].tagFormat != 0'],
    calls={'decodeFun': bit_fragment_model, 'readFromStream': _read_model('complete')},
    loops={3: Loop(invariant=_BITS_INV + ['substrate.pos >= current_position'], havoc_fields=_BITS_HAVOC,
                   decl={'bitString': PBits()},
                   variant='length - (substrate.pos - current_position)', iter_ensures=_BITS_ITER)},
    yield_ensures=[('the-fragments-bits-in-order', 'last_yield().value.acc == substrate.bitsAcc and substrate.fragsOk')],
    exit_ensures=[('one-result', 'nyields() == 1'), ('only-if-supported', 'self.supportConstructedForm')],
    may_raise={'PyAsn1Error': True},
    note='BitString.fromOctetString is an assumed model (bits of the octets minus the unused ones, appended)')
BITS_DEC_INDEF = Contract(
    id='ber.decoder::BitStringPayloadDecoder.indefLenValueDecoder[complete]', file=F,
    qual='BitStringPayloadDecoder.indefLenValueDecoder', is_generator=True, properties=['C09', 'C01', 'C08'],
    params=_bits_params(), globals={'eoo': {'endOfOctets': END_OF_OCTETS, '__name__': 'eoo'}},
    calls={'decodeFun': bit_fragment_model, 'readFromStream': _read_model('complete')},
    loops={1: Loop(invariant=_BITS_INV, havoc_fields=_BITS_HAVOC, decl={'bitString': PBits()}, iter_ensures=_BITS_ITER)},
    yield_ensures=[('the-fragments-bits-in-order', 'last_yield().value.acc == substrate.bitsAcc and substrate.fragsOk'),
                   ('ended-by-the-marker', 'component is eoo.endOfOctets')],
    exit_ensures=[('one-result', 'nyields() == 1')],
    may_raise={'PyAsn1Error': True}, note=BITS_DEC_CONSTRUCTED.note)
CONTRACTS = CONTRACTS + [BITS_DEC_CONSTRUCTED, BITS_DEC_INDEF]


# ---- bounded instances, labelled so ---------------------------------------------------------------------------------------------
OPEN_TYPES.bounded = OPEN_TYPES_INDEF.bounded = 'a record of one governing member and one open-type member'


# ---- open types for records of ANY size: every resolvable open-type member is replaced by its decoded value, nothing else -------
from z3 import Select
O_HASOT = z3.Function('member.hasOpenType', I, BoolSort())
O_OPT = z3.Function('member.isOptional', I, BoolSort())
O_ISVAL = z3.Function('isValueOf', I, BoolSort())
O_GOV = z3.Function('governing.value.of.member', I, I)
O_GOVISVAL = z3.Function('governing.isValue', I, BoolSort())
O_CALLER_HAS = z3.Function('callerMap.has', I, BoolSort())
O_CALLER_TYPE = z3.Function('callerMap.type', I, I)
O_DEFAULT_HAS = z3.Function('declaredMap.has', I, I, BoolSort())
O_DEFAULT_TYPE = z3.Function('declaredMap.type', I, I, I)
O_OCTETS = z3.Function('octets.of', I, I)
O_DEC = z3.Function('decoded.as', I, I, I)
O_SLOTS0 = z3.Const('slots0', z3.ArraySort(I, I))
O_N = z3.Int('members.N')
_oj = z3.Int('j!q')


O_INNER_EOO = z3.Function('captured.octets.are.the.end-of-octets.marker', I, BoolSort())
O_EOO_ALLOWED = z3.Bool('decoder.allows.eoo.inside')      # the indefinite-length variant decodes the inner value with allowEoo


def o_resolves(j):
    g = O_GOV(j)
    s0 = Select(O_SLOTS0, j)
    return And(O_HASOT(j), Not(And(O_OPT(j), Not(O_ISVAL(s0)))), O_GOVISVAL(j),
               Or(O_CALLER_HAS(g), O_DEFAULT_HAS(j, g)), Not(And(O_EOO_ALLOWED, O_INNER_EOO(O_OCTETS(s0)))))


def o_expected(j):
    g = O_GOV(j)
    rtype = If(O_CALLER_HAS(g), O_CALLER_TYPE(g), O_DEFAULT_TYPE(j, g))
    s0 = Select(O_SLOTS0, j)
    return If(o_resolves(j), O_DEC(O_OCTETS(s0), rtype), s0)


class _OpenMembers(_RecSeqV):
    """namedTypes.namedTypes of a record of any size: per-position flags are uninterpreted functions of the position"""

    @property
    def length(self):
        return O_N

    def elem(self, i):
        def declared_getitem(ex, self_, gov):
            g = toint(gov.fields['__id__'])
            if ex.choose(O_DEFAULT_HAS(i, g), 'declared-map-has'):
                return Obj('Asn1Type', {'__id__': O_DEFAULT_TYPE(i, g)}, name='declaredType')
            raise _Raise(ExcV('KeyError'))
        ot = Obj('OpenType', {'__truthy__': O_HASOT(i), 'name': i}, {'__getitem__': declared_getitem}, name='openType')
        return Obj('NamedType', {'openType': ot, 'isOptional': O_OPT(i), 'name': i}, name='namedType')


def _o_record(ex, env):
    def member(ident):
        return Obj('Any', {'__id__': ident, 'isValue': O_ISVAL(ident), 'typeId': 'any-type-id'},
                   {'asOctets': lambda ex2, self: Obj('bytes', {'__id__': O_OCTETS(ident)}, name='octets')}, name='member')

    def by_pos(ex2, self, idx, *a, **k):
        return member(Select(self.fields['slots'], toint(idx)))

    def by_name(ex2, self, name, *a, **k):
        # the governing member of open-type member `name` (positions stand for names); it is not itself an open type.
        # It has to be read with instantiation (the default way): a governing member left at its DEFAULT has a value too
        plain = not a and not k
        self.fields['governorReadWithInstantiation'] = And(self.fields['governorReadWithInstantiation'], z3.BoolVal(plain))
        i = toint(name)
        return Obj('Value', {'__id__': O_GOV(i), 'isValue': O_GOVISVAL(i)}, name='governingValue')

    def set_pos(ex2, self, idx, value, *a, **k):
        self.fields['slots'] = z3.Store(self.fields['slots'], toint(idx), toint(value.fields['__id__']))
        return self
    return Obj('Sequence', {'slots': O_SLOTS0, 'governorReadWithInstantiation': z3.BoolVal(True)},
               {'getComponentByPosition': by_pos, 'getComponentByName': by_name,
                                                 'setComponentByPosition': set_pos}, name='asn1Object')


def _o_caller_map(ex, env):
    def getitem(ex2, self, gov):
        g = toint(gov.fields['__id__'])
        if ex2.choose(O_CALLER_HAS(g), 'caller-map-has'):
            return Obj('Asn1Type', {'__id__': O_CALLER_TYPE(g)}, name='callerType')
        raise _Raise(ExcV('KeyError'))

    def setitem(ex2, self, k, v):
        self.fields['written'] = True       # (ghost) the caller's object was stored into
    return Obj('dict', {'__truthy__': True, 'written': False}, {'__getitem__': getitem, '__setitem__': setitem}, name='openTypes')


def _o_decode(ex, stream, asn1Spec=None, **options):
    """assumed contract of decodeFun on the captured octets: a value of the guiding type, or PyAsn1Error"""
    if ex.choose(ex.fresh('inner.raises', BoolSort()), 'inner-raises'):
        raise _Raise(ExcV('PyAsn1Error'))
    octets = toint(stream.fields['octets'].fields['__id__'])
    allowed = options.get('allowEoo') is True
    if '**' in options and 'allowEoo' in options['**'].entries:
        present, val = options['**'].entries['allowEoo']
        allowed = present is True and val is True
    # the captured octets are one complete element: the inner decode is not told to expect an end-of-octets marker (C10: with
    # allowEoo an element `00 00` came back as the end-of-octets object inside the decoded collection)
    ex.vc('%s#inner-decode-as-the-contract-declares-allowEoo' % ex.c.id, z3.BoolVal(allowed == ex.c.eoo_allowed), kind='external')
    if allowed and ex.choose(O_INNER_EOO(octets), 'captured-octets-are-00-00'):
        return END_OF_OCTETS          # 00 00 inside an ANY: handed out as the marker, the member then stays as captured
    ident = O_DEC(octets, toint(asn1Spec.fields['__id__']))
    ex.assume(ident < 0)              # a fresh value object, none of the modelled singletons
    return Obj('Decoded', {'__id__': ident}, name='decodedInner')


_o_decode.is_generator_model = True


def _o_inv(ex, rec, upto):
    sl = rec.fields['slots']
    return And(z3.ForAll([_oj], z3.Implies(And(_oj >= 0, _oj < toint(upto)), Select(sl, _oj) == o_expected(_oj))),
               z3.ForAll([_oj], z3.Implies(Or(_oj < 0, _oj >= toint(upto)), Select(sl, _oj) == Select(O_SLOTS0, _oj))))


OPEN_TYPES_N = Contract(
    id='ber.decoder::ConstructedPayloadDecoderBase.valueDecoder@open-types[any-size]', file=F,
    qual='ConstructedPayloadDecoderBase.valueDecoder', region="openTypes or options.get('decodeOpenTypes', False)",
    is_generator=True, properties=['C18', 'C12'],
    params=dict(self=PObj('ConstructedPayloadDecoderBase'),
                namedTypes=PConst(Obj('NamedTypes', {'namedTypes': _OpenMembers([], names=None), 'hasOpenTypes': True}, name='namedTypes')),
                asn1Object=PDerived(_o_record), openTypes=PDerived(_o_caller_map), options=POptions(decodeOpenTypes=PBool())),
    globals={'univ': {'SetOf': {'typeId': 'setof-type-id'}, 'SequenceOf': {'typeId': 'seqof-type-id'}, '__name__': 'univ'},
             'asSeekableStream': FnV(lambda ex, octets: Obj('Stream', {'octets': octets}, name='innerStream'), 'asSeekableStream'),
             'resolved_upto': FnV(_o_inv, 'resolved_upto'), 'N': O_N, 'eooAllowedInside': O_EOO_ALLOWED},
    requires=['N >= 0', 'not eooAllowedInside'],
    calls={'decodeFun': _o_decode},
    loops={0: Loop(index='k', invariant=['resolved_upto(asn1Object, k)', 'not value_yielded()',
                                         'asn1Object.governorReadWithInstantiation', 'not openTypes.written'],
                   havoc_fields=['asn1Object.slots', 'asn1Object.governorReadWithInstantiation', 'openTypes.written'])},
    exit_ensures=[
        # C18 for a record of any size: a member whose governing value resolves (caller's map first, declared map second)
        # holds the inner value decoded as the mapped type; every other member -- no open type, absent OPTIONAL, valueless or
        # unmapped governing value -- is exactly what it was
        ('resolvable-members-decoded-all-others-untouched', 'resolved_upto(asn1Object, N)'),
        # C12: the map the caller passed in is read, never written (a decode that remembers a resolution in it changes what
        # the next call with the same map returns)
        ('callers-map-only-read', 'not openTypes.written')],
    may_raise={'PyAsn1Error': True},
    note='open-type members that are not SET OF / SEQUENCE OF (those: bounded contract); governing members are not themselves '
         'open-type members')
OPEN_TYPES_N.eoo_allowed = False
CONTRACTS = CONTRACTS + [OPEN_TYPES_N]
OPEN_TYPES_N_INDEF = _copy.copy(OPEN_TYPES_N)
OPEN_TYPES_N_INDEF.id = 'ber.decoder::ConstructedPayloadDecoderBase.indefLenValueDecoder@open-types[any-size]'
OPEN_TYPES_N_INDEF.qual = 'ConstructedPayloadDecoderBase.indefLenValueDecoder'
# (until the repair that dropped allowEoo from the inner decode, the indefinite-length variant took captured octets `00 00` for
# "no inner value": the member stayed as captured, an element of a collection became the end-of-octets object itself)
OPEN_TYPES_N_INDEF.requires = ['N >= 0', 'not eooAllowedInside']
OPEN_TYPES_N_INDEF.eoo_allowed = False
CONTRACTS = CONTRACTS + [OPEN_TYPES_N_INDEF]


# ---- _createComponent: what every simple payload decoder hands out (the model `create_component` above, discharged) -----------
# tags are integers here (class, format and number packed), tag sequences are int tuples of any length
def _cc_tags(name):
    from pyvc.core import SeqV
    return SeqV(z3.Const(name, z3.SeqSort(z3.IntSort())), 'tuple')


def _cc_tagset(ex, base, **kw):
    """tag.TagSet(baseTag, *superTags)"""
    from pyvc.core import SeqV
    sup = kw.get('*')
    if sup is None:
        raise Unsupported('tag.TagSet() without a tag sequence')
    return Obj('TagSet', {'baseTag': base, 'superTags': sup, '__truthy__': z3.Length(sup.z) > 0}, name='builtTagSet')


def _cc_item(ex, self, k):
    # tagSet[k]: the k-th tag, innermost first (an integer here; equal integers = equal tags, which is how Tag.__eq__
    # behaves on (class, number) -- the format bit does not take part)
    return self.fields['superTags'].z[toint(k)]


def _cc_self(ex, env):
    def clone(ex2, self, value=NOVALUE, **kw):
        return Obj('Asn1Value', {'value': value, 'spec': None, 'tagSet': kw.get('tagSet'), 'cloneOf': self}, name='component')
    sup = _cc_tags('proto.superTags')
    proto_ts = Obj('TagSet', {'baseTag': z3.Int('proto.baseTag'), 'superTags': sup, '__truthy__': z3.Length(sup.z) > 0},
                   {'__getitem__': _cc_item}, name='protoComponent.tagSet')
    return Obj('AbstractSimplePayloadDecoder', {'protoComponent': Obj('Asn1Type', {'tagSet': proto_ts}, {'clone': clone},
                                                                      name='protoComponent')}, name='self')


def _cc_wire(ex, env):
    sup = _cc_tags('wire.superTags')
    return Obj('TagSet', {'baseTag': z3.Int('wire.baseTag'), 'superTags': sup, '__truthy__': z3.Length(sup.z) > 0},
               {'__getitem__': _cc_item}, name='tagSet')


def _cc_spec(ex, env):
    if ex.choose(z3.Bool('spec.given'), 'guided'):
        def clone(ex2, self, value=NOVALUE, **kw):
            return Obj('Asn1Value', {'value': value, 'spec': self, 'tagSet': None, 'cloneOf': self}, name='component')
        return Obj('Asn1Type', {}, {'clone': clone}, name='asn1Spec')
    return None


_CC_PROTO = z3.Const('proto.superTags', z3.SeqSort(z3.IntSort()))
_CC_WIRE = z3.Const('wire.superTags', z3.SeqSort(z3.IntSort()))
CREATE_COMPONENT = Contract(
    id='ber.decoder::AbstractSimplePayloadDecoder._createComponent', file=F, qual='AbstractSimplePayloadDecoder._createComponent',
    properties=['C10', 'C16', 'C12', 'C01', 'C04'],
    params=dict(self=PDerived(_cc_self), asn1Spec=PDerived(_cc_spec), tagSet=PDerived(_cc_wire),
                value=PDerived(lambda ex, env: NOVALUE if ex.choose(z3.Bool('value.isNoValue'), 'no-value') else z3.Int('value')),
                options=POptions(native=PBool())),
    globals={'given': z3.Bool('spec.given'), 'noValue': NOVALUE, 'isNoValue': z3.Bool('value.isNoValue'),
             'tag': {'TagSet': FnV(_cc_tagset, 'tag.TagSet'), '__name__': 'tag'},
             'protoTags': SeqV(_CC_PROTO, 'any'), 'wireTags': SeqV(_CC_WIRE, 'any'),
             'protoBase': z3.Int('proto.baseTag'),
             'nProto': z3.Length(_CC_PROTO), 'nWire': z3.Length(_CC_WIRE)},
    ensures=[
        # with a guide: a *new* object of the guide's type holding the value (the guide itself only when there is no value:
        # substrate collectors get the schema) -- C12: decoding never hands out the guide loaded with a value
        ('guided-value-is-a-clone-of-the-guide', '(given and not isNoValue and not options.get("native", False)) ==> '
                                                 '(result.cloneOf is asn1Spec and result.value == value and result is not asn1Spec)'),
        # without a guide: the codec's prototype; its own tag(s) the way the type declares them -- not the innermost tag as
        # it was found on the wire, whose format bit says "constructed" for a segmented string (C04/C16: the re-encoding
        # would carry that bit over primitive contents) --, then the outer (explicit) tags found on the wire
        ('schemaless-value-is-the-prototype-retagged', '((not given) and not options.get("native", False)) ==> '
                                                       '(result.cloneOf is self.protoComponent)'),
        # (when the codec serves another type as well -- ENUMERATED is read by the INTEGER codec -- the wire tag is not
        # the prototype's and stays)
        ('schemaless-value-own-tag-as-declared', '((not given) and not options.get("native", False) and nProto > 0 and nWire > 0 '
                                                 'and wireTags[0] == protoTags[0]) ==> '
                                                 '(result.tagSet.baseTag == protoBase and '
                                                 'result.tagSet.superTags == protoTags + wireTags[1:])'),
        ('schemaless-foreign-or-untagged-prototype-carries-the-wire-tags',
         '((not given) and not options.get("native", False) and '
         '(nProto == 0 or nWire == 0 or wireTags[0] != protoTags[0])) ==> result.tagSet is old(tagSet)'),
        ('native-mode-hands-out-the-python-value', 'options.get("native", False) ==> result is value')],
    note='the model `create_component` used by the payload decoder contracts is this function; tags are packed integers, tag '
         'sequences have any length')
CONTRACTS = CONTRACTS + [CREATE_COMPONENT]


# ---- CHOICE, indefinite length: tagged => alternatives up to the end-of-octets marker; untagged => re-dispatch this element -------
def _chi_decode(ex, substrate, asn1Spec=None, tagSet=None, length=None, state=None, **options):
    """decodeFun seen as the iterator the loop walks: underrun markers, then a value of one of the guide's types -- or the
    end-of-octets marker when the caller allows it"""
    allow = options.get('allowEoo') is True
    if '**' in options and 'allowEoo' in options['**'].entries:
        present, val = options['**'].entries['allowEoo']
        allow = present is True and val is True
    if ex.choose(ex.fresh('inner.raises', BoolSort()), 'inner-raises'):
        raise _Raise(ExcV('PyAsn1Error'))
    pre = [ExcV('SubstrateUnderrunError')] if ex.choose(ex.fresh('inner.underrun', BoolSort()), 'underrun-first') else []
    if allow and ex.choose(ex.fresh('inner.eoo', BoolSort()), 'end-of-octets'):
        return Tup(pre + [END_OF_OCTETS], 'list')
    comp = Obj('Decoded', {'guide': asn1Spec, 'tagSetArg': tagSet, 'lengthArg': length, 'stateArg': state, 'allowEoo': allow,
                           'effectiveTagSet': Obj('TagSet', {}, name='component.effectiveTagSet')}, name='component')
    return Tup(pre + [comp], 'list')


UNIQUE_MAP = Obj('TagMap', {}, name='tagMapUnique')


def _chi_spec(ex, env):
    def clone(ex2, self, *a, **kw):
        def eq(ex3, me, other):
            if isinstance(other, Obj) and other.name == 'tagSet':
                return z3.Bool('choice.isTagged')
            return ex3.identical(me, other)

        def by_type(ex3, me, tagSet, value, *a2, **kw2):
            if ex3.choose(ex3.fresh('choice.refused', BoolSort()), 'alternative-refused'):
                raise _Raise(ExcV('PyAsn1Error'))
            tagged = z3.Bool('choice.isTagged')
            ok = isinstance(value, Obj) and isinstance(tagSet, Obj) and tagSet.uid == value.fields['effectiveTagSet'].uid and \
                isinstance(value.fields.get('guide'), Obj) and value.fields['guide'].uid == UNIQUE_MAP.uid
            inner = value.fields.get('tagSetArg') is None and value.fields.get('allowEoo') is True
            same = isinstance(value.fields.get('tagSetArg'), Obj) and value.fields['tagSetArg'].name == 'tagSet' and \
                isinstance(value.fields.get('stateArg'), Obj) and value.fields['stateArg'].uid == CH_STATE.uid
            me.fields['allOk'] = And(me.fields['allOk'], z3.BoolVal(bool(ok)), If(tagged, z3.BoolVal(bool(inner)), z3.BoolVal(bool(same))))
            me.fields['isValue'] = z3.BoolVal(True)
            me.fields['assignments'] = me.fields['assignments'] + 1
        return Obj('Choice', {'tagSet': Obj('TagSet', {}, {'__eq__': eq}, name='choice.tagSet'),
                              'componentType': Obj('NamedTypes', {'tagMapUnique': UNIQUE_MAP}, name='componentType'),
                              'allOk': z3.BoolVal(True), 'isValue': z3.BoolVal(False), 'assignments': IntVal(0), 'cloneOf': self,
                              'isInconsistent': INCONSISTENCY if ex2.choose(z3.Bool('value.inconsistent'), 'inconsistent')
                              else False},
                   {'setComponentByType': by_type}, name='asn1Object')
    return Obj('Choice', {}, {'clone': clone}, name='asn1Spec')


class PChoiceState(PObjOneOf):
    """nothing in the loop re-binds asn1Object; `component` is whatever the previous round decoded"""

    def __init__(self):
        PObjOneOf.__init__(self, classes=['Decoded'])

    def make(self, ex, name):
        return Obj('Decoded', {}, name='component-of-the-previous-round')

    def admits(self, v):
        return True


CHOICE_DEC_INDEF = Contract(
    id='ber.decoder::ChoicePayloadDecoder.indefLenValueDecoder', file=F, qual='ChoicePayloadDecoder.indefLenValueDecoder',
    is_generator=True, properties=['C09', 'C10', 'C13'],
    params=dict(self=PObj('ChoicePayloadDecoder'), substrate=PConst(Obj('Stream', {}, name='substrate')),
                asn1Spec=PDerived(_chi_spec), tagSet=PConst(Obj('TagSet', {}, name='tagSet')), length=PInt(),
                state=PConst(CH_STATE), decodeFun=PConst(FnV(_chi_decode, 'decodeFun')), substrateFun=PConst(None),
                options=POptions()),
    globals={'isTagged': z3.Bool('choice.isTagged'), 'tagMapUnique': UNIQUE_MAP, 'callerState': CH_STATE,
             'eoo': {'endOfOctets': END_OF_OCTETS, '__name__': 'eoo'}, 'inconsistent': z3.Bool('value.inconsistent')},
    calls={'decodeFun': _chi_decode, 'self._passAsn1Object': lambda ex, o, options: options},
    loops={1: Loop(invariant=['not value_yielded()', 'asn1Object.assignments >= 0',
                              'asn1Object.isValue == (asn1Object.assignments > 0)',
                              # every alternative stored: selected by its own tags, decoded under the alternatives' map; tagged
                              # CHOICE: the inner element (allowEoo), untagged: this very element (same tags, dispatcher state)
                              'asn1Object.allOk'],
                   havoc_fields=['asn1Object.assignments', 'asn1Object.isValue', 'asn1Object.allOk'],
                   decl={'component': PChoiceState(), 'iterator': Obj('Stale', {}, name='iterator-of-the-previous-round'),
                         'effectiveTagSet': Obj('Stale', {}, name='tags-of-the-previous-round')}),
           2: Loop(unroll=True)},
    yield_ensures=[
        ('underruns-relayed-then-the-choice', '(not isinstance(y, SubstrateUnderrunError)) ==> (y.cloneOf is asn1Spec and y.isValue and y.allOk)'),
        ('only-consistent-values-are-handed-out', '(not isinstance(y, SubstrateUnderrunError)) ==> (not inconsistent)')],
    exit_ensures=[
        # an explicit tag with nothing inside is refused, never a valueless CHOICE
        ('a-value-or-an-error', 'last_yield().assignments >= 1')],
    may_raise={'PyAsn1Error': True},
    note='decodeFun, clone and setComponentByType are assumed models')
CHOICE_DEC_INDEF.multi_value = True
CONTRACTS = CONTRACTS + [CHOICE_DEC_INDEF]


# ---- explicit tag, definite length: the value inside, decoded under the same guide with the tags collected so far --------------
def _raw_inner(ex, substrate, asn1Spec=None, tagSet=None, length=None, **options):
    """assumed contract of decodeFun: the value of the element that starts here (or PyAsn1Error)"""
    if ex.choose(ex.fresh('inner.raises', BoolSort()), 'inner-raises'):
        raise _Raise(ExcV('PyAsn1Error'))
    return Obj('Decoded', {'guide': asn1Spec, 'tagSetArg': tagSet, 'lengthArg': length}, name='innerValue')


_raw_inner.is_generator_model = True
RAW_GUIDE = Obj('Asn1Type', {}, name='asn1Spec')
RAW_DEF = Contract(
    id='ber.decoder::RawPayloadDecoder.valueDecoder', file=F, qual='RawPayloadDecoder.valueDecoder', is_generator=True,
    properties=['C13', 'C09', 'C07'],
    params=dict(self=PObj('RawPayloadDecoder'), substrate=PConst(Obj('Stream', {}, name='substrate')), asn1Spec=PConst(RAW_GUIDE),
                tagSet=PConst(Obj('TagSet', {}, name='tagSet')), length=PInt(), state=PConst(None),
                decodeFun=PConst(None), substrateFun=PConst(None), options=POptions()),
    globals={'guide': RAW_GUIDE}, calls={'decodeFun': _raw_inner},
    yield_ensures=[('the-inner-value-under-the-same-guide', 'y.guide is guide and y.tagSetArg is tagSet and y.lengthArg == length')],
    exit_ensures=[('one-result', 'nyields() == 1')],
    may_raise={'PyAsn1Error': True},
    note='the tag set passed on is the one accumulated so far (outer explicit tags included): the inner element is matched '
         'against the guide as a whole')
CONTRACTS = CONTRACTS + [RAW_DEF]


# ---- a caller-supplied collector (substrateFun) is offered a fresh object of the guiding type, never the guide itself (C12) -----
def _uc_guide(ex, env):
    if ex.choose(z3.Bool('guide.given'), 'guided'):
        def clone(ex2, self_, *a, **kw):
            return Obj('Asn1Value', {'cloneOf': self_}, name='freshObject')
        return Obj('Asn1Type', {}, {'clone': clone}, name='asn1Spec')
    return None


def _uc_self(ex, env):
    def pclone(ex2, self_, *a, **kw):
        return Obj('Asn1Value', {'cloneOf': self_}, name='freshPrototype')
    proto = Obj('Asn1Type', {}, {'clone': pclone}, name='protoComponent') if ex.choose(z3.Bool('proto.given'), 'has-prototype') else None
    return Obj('ConstructedPayloadDecoderBase', {'protoComponent': proto,
                                                 'protoRecordComponent': Obj('Asn1Type', {}, name='protoRecordComponent'),
                                                 'protoSequenceComponent': Obj('Asn1Type', {}, name='protoSequenceComponent')},
               name='self')


def _uc_collector(ex, asn1Object, substrate, length, options):
    ex.ghost['offered'] = asn1Object
    return Tup([Obj('Asn1Value', {}, name='collected')], 'list')


def _user_collector(qual, short, test='substrateFun'):
    return Contract(
        id='ber.decoder::%s@user-collector' % qual, file=F, qual=qual, region=test, is_generator=True,
        properties=['C12'],
        params=dict(self=PDerived(_uc_self), asn1Spec=PDerived(_uc_guide), substrate=PConst(Obj('Stream', {}, name='substrate')),
                    tagSet=PConst(Obj('TagSet', {}, name='tagSet')), length=PInt(), options=POptions(),
                    substrateFun=PConst(FnV(_uc_collector, 'substrateFun'))),
        ghost={'offered': None}, globals={'given': z3.Bool('guide.given')},
        exit_ensures=[('the-collector-is-offered-a-fresh-object-not-the-guide',
                       'given ==> (offered is not asn1Spec and offered.cloneOf is asn1Spec)')],
        note='%s: whatever the collector does with the object it is offered (fill it in, hand it back) cannot reach the '
             'guiding type; the collector is a model that records what it was offered' % short)


USER_COLLECTOR_DEF = _user_collector('ConstructedPayloadDecoderBase.valueDecoder', 'definite length')
USER_COLLECTOR_INDEF = _user_collector('ConstructedPayloadDecoderBase.indefLenValueDecoder', 'indefinite length',
                                       test='substrateFun is not None')
CONTRACTS = CONTRACTS + [USER_COLLECTOR_DEF, USER_COLLECTOR_INDEF]
