"""The shared bounded universe U2 of (type, value) pairs for the bounded stand-ins.
Deterministic from a seed.  Independent of pyasn1."""
import itertools
import random

CTX, APP, PRIV = 128, 64, 192

TAG_STACKS = [
    [], [('I', CTX, 1)], [('E', APP, 31)], [('I', PRIV, 128), ('E', CTX, 0)], [('E', CTX, 2), ('E', APP, 16384)],
    [('I', CTX, 30)],
]


def leaf_values(k):
    if k == 'BOOLEAN':
        return [True, False]
    if k in ('INTEGER', 'ENUMERATED'):
        vs = [0, 1, -1, 127, 128, -128, -129, 255, 256, 32767, 32768, -32768, -32769, 8388607, 8388608, -8388608,
              -8388609, 2 ** 31, -2 ** 31, 2 ** 63, -2 ** 63, 2 ** 64 + 1]
        return vs
    if k == 'BITSTRING':
        return ['', '1', '0', '10', '1010101', '10101010', '101010101', '1' * 16, '0' * 17, '1' + '0' * 23,
                '01' * 45]
    if k == 'OCTETSTRING':
        return [b'', b'a', b'ab', b'\x00', b'\xff\x00', b'x' * 127, b'y' * 128, b'abcdefg']
    if k == 'NULL':
        return [None]
    if k == 'OID':
        return [(0, 0), (1, 39), (2, 40), (2, 999, 3), (1, 3, 6, 1, 127), (1, 3, 128), (1, 3, 16383, 16384),
                (2, 47, 2 ** 32, 0), (0, 39, 1),
                # first octets 79 | 80 | 81: the last OID under 1, the first two under 2
                (1, 39, 5), (2, 0, 5), (2, 0), (2, 1)]
    if k == 'REAL':
        return ['inf', '-inf', (0, 2, 0), (1, 2, 0), (1, 2, 1), (-1, 2, -1), (3, 2, 10), (5, 2, -130), (7, 2, 200),
                (-3, 2, 40000), (1, 2, -70000), (12, 2, 0), (255, 2, 3), (65537, 2, -1), (2 ** 60 + 1, 2, -1),
                (1, 2, -4), (-3, 2, -7), (2 ** 70 + 3, 2, -2),
                # decimal form beyond the double range / the double mantissa; the smallest doubles
                (1, 10, 400), (1, 10, -400), (12345678901234567890123, 10, 0), (15, 10, -1), (1, 2, -1074),
                (9999999999999962, 10, -326),
                # a mantissa beyond the float range, the value well inside it
                (10 ** 400 + 1, 10, -200), (2 ** 2000 + 1, 2, -1995),
                # large doubles: binary exponents between the decimal (308) and the binary (1023) limit of a double
                (1, 2, 400), (5, 2, 1000), (-3, 2, 900), (2 ** 53 - 1, 2, 971),
                # a fractional mantissa (a python float): the same number as with the point moved into the exponent
                (1.5, 10, 0), (0.25, 10, 3), (-2.5, 10, -1), (1.5, 2, 0), (0.1, 2, 0), (-0.375, 2, 5), (3.0, 10, 2)]
    if k in ('UTF8String',):
        return ['', 'a', 'héllo', '日本', 'x' * 130]
    if k in ('BMPString',):
        return ['', 'a', 'hé', '日本語']
    if k in ('UniversalString',):
        return ['', 'a', '\U0001f600b']
    if k in ('NumericString',):
        return ['', '0', '123 456']
    if k in ('PrintableString', 'IA5String', 'VisibleString', 'ObjectDescriptor', 'TeletexString', 'VideotexString',
             'GraphicString', 'GeneralString'):
        return ['', 'A', 'Hello World']
    if k == 'GeneralizedTime':
        return ['20170801120112Z', '20170801120112.5Z', '20170801120112.123Z', '201708011201Z']
    if k == 'UTCTime':
        return ['170801120112Z', '1708011201Z']
    raise ValueError(k)


LEAF_KINDS = ['BOOLEAN', 'INTEGER', 'ENUMERATED', 'BITSTRING', 'OCTETSTRING', 'NULL', 'OID', 'REAL', 'UTF8String',
              'BMPString', 'UniversalString', 'NumericString', 'PrintableString', 'IA5String', 'VisibleString',
              'TeletexString', 'VideotexString', 'GraphicString', 'GeneralString', 'ObjectDescriptor',
              'GeneralizedTime', 'UTCTime']


def T(k, tags=(), **kw):
    d = dict(k=k, tags=list(tags))
    d.update(kw)
    return d


def leaves(stacks=None, decimal_real=False):
    out = []
    for k in LEAF_KINDS:
        for ts in (stacks if stacks is not None else TAG_STACKS):
            for v in leaf_values(k):
                out.append((T(k, ts), v))
    return out


def records():
    """SEQUENCE / SET shapes with required, OPTIONAL, DEFAULT members; all subsets of optionals."""
    out = []
    shapes = [
        [('a', T('INTEGER'), 'req'), ('b', T('OCTETSTRING'), 'opt'), ('c', T('BOOLEAN'), ('default', False))],
        [('n', T('NULL'), 'req'), ('i', T('INTEGER', [('I', CTX, 0)]), 'opt'),
         ('j', T('INTEGER', [('E', CTX, 1)]), 'opt'), ('s', T('UTF8String'), ('default', 'dflt'))],
        [('x', T('OCTETSTRING', [('E', CTX, 5)]), 'req'), ('y', T('BITSTRING', [('I', APP, 3)]), 'req')],
        [('o', T('OID'), ('default', (1, 3, 6))), ('r', T('REAL'), 'opt'), ('e', T('ENUMERATED'), 'req')],
        # DEFAULT members only, no OPTIONAL one (the decoder's "no member can be left out" fast path must not be taken)
        [('v', T('INTEGER'), ('default', 1)), ('w', T('OCTETSTRING'), 'req')],
        [('v', T('INTEGER'), ('default', 1)), ('c', T('BOOLEAN'), ('default', False)), ('w', T('OCTETSTRING'), 'req'),
         ('u', T('UTF8String'), ('default', 'dflt'))],
    ]
    # more than ten members: positions with two digits (names generated for a schemaless record sort differently as text)
    kinds12 = ['INTEGER', 'OCTETSTRING', 'BOOLEAN', 'INTEGER', 'NULL', 'UTF8String', 'INTEGER', 'OCTETSTRING', 'BOOLEAN', 'INTEGER',
               'OCTETSTRING', 'INTEGER', 'BOOLEAN']
    shapes.append([('m%02d' % i, T(k), 'req') for i, k in enumerate(kinds12)])
    vals = {
        'a': [5, -129], 'b': [b'', b'quick'], 'c': [True, False], 'n': [None], 'i': [7], 'j': [128],
        's': ['dflt', 'other'], 'x': [b'zz'], 'y': ['101'], 'o': [(1, 3, 6), (2, 5, 4)], 'r': [(3, 2, 10), 'inf'],
        'e': [1], 'v': [1, 2], 'w': [b'w'], 'u': ['dflt', 'u'],
    }
    for i, k in enumerate(kinds12):
        vals['m%02d' % i] = [{'INTEGER': 100 + i, 'OCTETSTRING': bytes([65 + i]), 'BOOLEAN': bool(i % 2), 'NULL': None,
                              'UTF8String': 'm%d' % i}[k]]
    for kind in ('SEQUENCE', 'SET'):
        for fields in shapes:
            if kind == 'SET' and len({outer_tag(ft) for n_, ft, m_ in fields}) < len(fields):
                continue          # members of a SET need distinct tags
            for ts in ([], [('E', CTX, 3)], [('I', APP, 9)]):
                t = T(kind, ts, fields=fields)
                opt = [f for f in fields if f[2] != 'req']
                req = [f for f in fields if f[2] == 'req']
                for r in range(len(opt) + 1):
                    for subset in itertools.combinations(opt, r):
                        names = [f[0] for f in req] + [f[0] for f in subset]
                        choices = [vals[n] for n in names]
                        for combo in itertools.islice(itertools.product(*choices), 4):
                            out.append((t, dict(zip(names, combo))))
    # a BIT STRING member with a DEFAULT: values that differ from the default by leading zero bits only (bit strings are
    # not numbers), the default itself, and one of another length
    bsd = T('SEQUENCE', [], fields=[('bs', T('BITSTRING'), ('default', '0101')), ('w', T('OCTETSTRING'), 'req')])
    out += [(bsd, {'bs': '101', 'w': b'w'}), (bsd, {'bs': '00101', 'w': b'w'}), (bsd, {'bs': '0101', 'w': b'w'}),
            (bsd, {'w': b'w'}), (bsd, {'bs': '1111', 'w': b''})]
    # ... and one level down: a record member whose DEFAULT holds such a bit string (records compare member by member)
    inner_bs = T('SEQUENCE', [], fields=[('bs', T('BITSTRING'), 'req'), ('k', T('INTEGER'), 'opt')])
    bsd3 = T('SEQUENCE', [], fields=[('r', inner_bs, ('default', {'bs': '0101'})), ('w', T('OCTETSTRING'), 'req')])
    out += [(bsd3, {'r': {'bs': '101'}, 'w': b'w'}), (bsd3, {'r': {'bs': '0101'}, 'w': b'w'}), (bsd3, {'w': b'w'}),
            (bsd3, {'r': {'bs': '00101', 'k': 1}, 'w': b''})]
    # a DEFAULT SET OF: its members come in no particular order, also when the value is a Python list beside the type
    dso = T('SEQUENCE', [], fields=[('a', T('INTEGER'), 'req'), ('s', T('SETOF', elem=T('INTEGER')), ('default', [1, 2]))])
    out += [(dso, {'a': 5, 's': [2, 1]}), (dso, {'a': 5, 's': [1, 2]}), (dso, {'a': 5, 's': [1, 2, 2]}), (dso, {'a': 5, 's': [1, 1]}),
            (dso, {'a': 5}), (dso, {'a': 5, 's': []})]
    dso2 = T('SET', [], fields=[('t', T('SETOF', [('E', CTX, 1)], elem=T('SEQUENCE', fields=[('x', T('INTEGER'), 'req')])),
                                 ('default', [{'x': 1}, {'x': 2}])), ('n', T('INTEGER'), 'opt')])
    out += [(dso2, {'t': [{'x': 2}, {'x': 1}]}), (dso2, {'t': [{'x': 1}, {'x': 2}], 'n': 1}), (dso2, {'t': [{'x': 2}]})]
    bsd2 = T('SET', [], fields=[('bs', T('BITSTRING', [('I', CTX, 1)]), ('default', '0000')), ('n', T('INTEGER'), 'opt')])
    out += [(bsd2, {'bs': '000'}), (bsd2, {'bs': '00000', 'n': 1}), (bsd2, {})]
    # REAL members with a DEFAULT: values that only a float would take for the default (beyond 53 bits, below the
    # smallest double) are encoded; another spelling of the default itself is omitted
    big = T('SEQUENCE', [], fields=[('r', T('REAL'), ('default', (2 ** 53, 2, 0))), ('z', T('REAL', [('I', CTX, 0)]), ('default', (0, 2, 0)))])
    out += [(big, {'r': (2 ** 53 + 1, 2, 0)}), (big, {'r': (2 ** 52, 2, 1)}), (big, {'z': (1, 2, -2000)}),
            (big, {'r': (2 ** 53 + 1, 2, 0), 'z': (-1, 2, -1100)}), (big, {})]
    # a decimal default next to the value of the float that python prints for it: equal as floats, not as REAL values
    dec = T('SEQUENCE', [], fields=[('i', T('INTEGER'), 'req'), ('r', T('REAL'), ('default', (3, 10, -1)))])
    out += [(dec, {'i': 1, 'r': (30000000000000004, 10, -17)}), (dec, {'i': 1, 'r': (3, 10, -1)}), (dec, {'i': 2})]
    return out


def collections():
    out = []
    for kind in ('SEQUENCEOF', 'SETOF'):
        for ts in ([], [('E', CTX, 1)], [('I', CTX, 2)]):
            out.append((T(kind, ts, elem=T('INTEGER')), []))
            out.append((T(kind, ts, elem=T('INTEGER')), [3]))
            out.append((T(kind, ts, elem=T('INTEGER')), [300, 1, -1, 1]))
            out.append((T(kind, ts, elem=T('OCTETSTRING')), [b'b', b'a', b'ab', b'']))
            out.append((T(kind, ts, elem=T('OCTETSTRING', [('E', CTX, 0)])), [b'zz', b'z']))
            out.append((T(kind, ts, elem=T('BOOLEAN')), [True, False, True]))
    # elements of different types (an untagged CHOICE): the canonical SET OF order compares the encodings as octet strings
    # padded with zeros -- a longer element with a smaller identifier octet comes first
    mixed = T('CHOICE', [], fields=[('i', T('INTEGER'), 'req'), ('s', T('OCTETSTRING'), 'req'), ('b', T('BOOLEAN'), 'req')])
    for kind in ('SETOF', 'SEQUENCEOF'):
        out.append((T(kind, [], elem=mixed), [('s', b'a'), ('i', 1000), ('b', True), ('i', 5)]))
        out.append((T(kind, [('I', CTX, 7)], elem=mixed), [('s', b''), ('i', 70000), ('s', b'zz')]))
    return out


def choices():
    out = []
    alt = [('i', T('INTEGER'), 'req'), ('s', T('OCTETSTRING'), 'req'), ('b', T('BOOLEAN', [('I', CTX, 0)]), 'req'),
           ('q', T('SEQUENCE', [('I', CTX, 1)], fields=[('a', T('INTEGER'), 'req')]), 'req')]
    for ts in ([], [('E', CTX, 4)], [('E', APP, 40)]):
        t = T('CHOICE', ts, fields=alt)
        out += [(t, ('i', 5)), (t, ('s', b'xy')), (t, ('b', True)), (t, ('q', {'a': 1}))]
    inner = T('CHOICE', [], fields=alt[:2])
    nested = T('CHOICE', [], fields=[('c', inner, 'req'), ('n', T('NULL'), 'req')])
    out += [(nested, ('c', ('i', 9))), (nested, ('n', None)), (nested, ('c', ('s', b'')))]
    # an untagged ANY as the catch-all alternative: the value is the whole element, header included
    anyalt = T('CHOICE', [], fields=[('i', T('INTEGER'), 'req'), ('y', T('ANY'), 'req')])
    out += [(anyalt, ('i', 5)), (anyalt, ('y', b'\x04\x02ab')), (anyalt, ('y', b'\x30\x03\x01\x01\xff'))]
    # ... next to a constructed alternative and a string one: the alternative is found through a tag map that has a
    # catch-all (ANY) entry, and what is found is decoded in constructed / segmented form
    anyalt3 = T('CHOICE', [], fields=[('i', T('INTEGER'), 'req'), ('q', T('SEQUENCE', [('I', CTX, 2)], fields=[('a', T('INTEGER'), 'req')]), 'req'),
                                      ('s', T('OCTETSTRING', [('I', CTX, 1)]), 'req'), ('y', T('ANY'), 'req')])
    out += [(anyalt3, ('q', {'a': 1})), (anyalt3, ('s', b'segmented')), (anyalt3, ('y', b'\x05\x00'))]
    holder = T('SEQUENCE', [], fields=[('c', anyalt, 'req'), ('z', T('INTEGER', [('I', CTX, 0)]), 'opt')])
    out += [(holder, {'c': ('y', b'\x0c\x02hi'), 'z': 1}), (holder, {'c': ('i', 3)})]
    # ... holding what a CER-encoded inner value looks like: an indefinite-length element with another one inside
    cer_inner = b'\x30\x80\x02\x01\x07\x30\x80\x01\x01\xff\x00\x00\x00\x00'
    out += [(anyalt, ('y', cer_inner)), (holder, {'c': ('y', cer_inner), 'z': 2}),
            (T('ANY', [('E', CTX, 3)]), cer_inner), (T('ANY'), cer_inner)]
    return out


def nested():
    out = []
    inner = T('SEQUENCE', [], fields=[('a', T('INTEGER'), 'req'), ('b', T('OCTETSTRING'), 'opt')])
    ch = T('CHOICE', [], fields=[('i', T('INTEGER'), 'req'), ('s', T('OCTETSTRING'), 'req')])
    outer = T('SEQUENCE', [], fields=[
        ('id', T('OID'), 'req'),
        ('in', inner, 'opt'),
        ('lst', T('SEQUENCEOF', [('E', CTX, 0)], elem=inner), 'opt'),
        ('ch', ch, 'opt'),
        ('st', T('SETOF', [('I', CTX, 1)], elem=T('OCTETSTRING')), 'opt'),
    ])
    out.append((outer, {'id': (1, 2, 3)}))
    out.append((outer, {'id': (1, 2, 3), 'in': {'a': 1}}))
    out.append((outer, {'id': (1, 2), 'in': {'a': -1, 'b': b'k'}, 'lst': [{'a': 1}, {'a': 2, 'b': b''}],
                        'ch': ('s', b'x'), 'st': [b'b', b'a']}))
    out.append((outer, {'id': (2, 100), 'lst': [], 'ch': ('i', 0)}))
    sett = T('SET', [], fields=[('p', T('INTEGER', [('E', CTX, 1)]), 'req'), ('q', T('OCTETSTRING'), 'req'),
                                ('r', T('BOOLEAN', [('I', CTX, 0)]), 'opt')])
    out.append((sett, {'p': 1, 'q': b'oct'}))
    out.append((sett, {'p': 1, 'q': b'oct', 'r': True}))
    # canonical SET order is (class, number) of the outermost tag -- the form bit does not count
    mixed = T('SET', [], fields=[('a', T('IA5String'), 'req'), ('b', T('SEQUENCE', [], fields=[('x', T('INTEGER'), 'req')]), 'req'),
                                 ('c', T('INTEGER', [('I', CTX, 1)]), 'req'), ('d', T('INTEGER', [('E', CTX, 0)]), 'req'),
                                 ('e', T('BOOLEAN', [('I', APP, 3)]), 'opt'), ('f', T('NULL', [('E', APP, 2)]), 'opt')])
    out.append((mixed, {'a': 'hi', 'b': {'x': 1}, 'c': 2, 'd': 0}))
    out.append((mixed, {'a': '', 'b': {'x': 0}, 'c': 0, 'd': 3, 'e': True, 'f': None}))
    # SET member that is an untagged CHOICE whose chosen alternative is a *tagged* CHOICE: the member sorts by the tag its
    # encoding starts with ([5]), not by the innermost alternative's (UNIVERSAL 2); a sibling [3] sits between the two keys
    deep = T('CHOICE', [('E', CTX, 5)], fields=[('i', T('INTEGER'), 'req'), ('b', T('BOOLEAN'), 'req')])
    outerch = T('CHOICE', [], fields=[('n', deep, 'req'), ('s', T('OCTETSTRING'), 'req')])
    nestset = T('SET', [], fields=[('c', outerch, 'req'), ('x', T('INTEGER', [('I', CTX, 3)]), 'req')])
    out.append((nestset, {'c': ('n', ('i', 7)), 'x': 1}))
    out.append((nestset, {'c': ('s', b'z'), 'x': 1}))
    # two members of different types whose canonical SET order (by tag) is not the order of their encodings as octet
    # strings: decoded without a schema it is a SET (two kinds of element), not a SET OF (which DER would sort by octets)
    two = T('SET', [], fields=[('q', T('SEQUENCE', [], fields=[('a', T('INTEGER'), 'req')]), 'req'), ('s', T('IA5String'), 'req')])
    out.append((two, {'q': {'a': 1}, 's': 'x'}))
    two2 = T('SEQUENCE', [], fields=[('s', T('IA5String'), 'req'), ('s2', T('IA5String'), 'req'), ('n', T('NULL'), 'req')])
    out.append((two2, {'s': 'a', 's2': 'b', 'n': None}))
    zeros = T('SEQUENCE', [], fields=[('i', T('INTEGER'), 'req'), ('z', T('INTEGER'), 'req'), ('b', T('BOOLEAN'), 'req'),
                                      ('e', T('ENUMERATED'), 'req'), ('j', T('INTEGER'), 'req')])
    out.append((zeros, {'i': 3, 'z': 0, 'b': False, 'e': 0, 'j': 5}))
    out.append((T('SEQUENCEOF', elem=T('INTEGER')), [3, 0, 5]))
    out.append((T('SETOF', elem=T('BOOLEAN')), [True, False]))
    # mandatory empty collection next to a present OPTIONAL member that sorts before it (SET order: [0] < universal 16?
    # no: universal class sorts first -- use context tags on both)
    so_empty = T('SET', [], fields=[('o', T('INTEGER', [('I', CTX, 0)]), 'opt'),
                                    ('lst', T('SEQUENCEOF', [('I', CTX, 1)], elem=T('INTEGER')), 'req'),
                                    ('m', T('SEQUENCE', [('I', CTX, 2)], fields=[('x', T('INTEGER'), 'opt')]), 'req')])
    out.append((so_empty, {'o': 1, 'lst': [], 'm': {}}))
    out.append((so_empty, {'lst': [], 'm': {}}))
    out.append((so_empty, {'o': 1, 'lst': [4], 'm': {'x': 2}}))
    sq_empty = T('SEQUENCE', [], fields=[('o', T('INTEGER'), 'opt'), ('lst', T('SEQUENCEOF', elem=T('BOOLEAN')), 'req'),
                                         ('z', T('NULL'), 'opt'), ('zz', T('NULL', [('I', CTX, 7)]), ('default', None))])
    out.append((sq_empty, {'o': 1, 'lst': []}))
    out.append((sq_empty, {'lst': [], 'z': None}))
    out.append((sq_empty, {'o': 0, 'lst': [True], 'z': None}))
    # DEFAULT member of collection type: equal / unequal to the default, any fill order
    dflt_of = T('SEQUENCE', [], fields=[('id', T('INTEGER'), 'req'),
                                        ('numbers', T('SEQUENCEOF', elem=T('INTEGER')), ('default', [7, 8])),
                                        ('names', T('SETOF', [('I', CTX, 0)], elem=T('OCTETSTRING')), ('default', [b'a']))])
    out.append((dflt_of, {'id': 1}))
    out.append((dflt_of, {'id': 1, 'numbers': [7, 8]}))
    out.append((dflt_of, {'id': 1, 'numbers': [8, 7], 'names': [b'a']}))
    out.append((dflt_of, {'id': 2, 'numbers': [7, 8, 9], 'names': [b'b', b'a']}))
    # SET with untagged CHOICE members: DER orders by the tag of the chosen alternative (X.690 10.3), CER by the
    # smallest tag of the CHOICE type (9.3)
    uch = T('CHOICE', [], fields=[('x', T('INTEGER', [('I', CTX, 5)]), 'req'), ('y', T('BOOLEAN'), 'req'),
                                  ('z', T('CHOICE', [], fields=[('p', T('OCTETSTRING', [('I', APP, 1)]), 'req'),
                                                                ('q', T('NULL', [('E', CTX, 9)]), 'req')]), 'req')])
    set_ch = T('SET', [], fields=[('a', T('INTEGER'), 'req'), ('c', uch, 'req'), ('n', T('NULL', [('I', CTX, 3)]), 'req'),
                                  ('s', T('IA5String', [('I', APP, 0)]), 'opt')])
    for cv in (('x', 7), ('y', True), ('z', ('p', b'pp')), ('z', ('q', None))):
        out.append((set_ch, {'a': 1, 'c': cv, 'n': None}))
        out.append((set_ch, {'a': 1, 'c': cv, 'n': None, 's': 'str'}))
    # DEFAULT members of record type (with DEFAULT / OPTIONAL members of their own): reading them must not change bytes
    inner_d = T('SEQUENCE', [], fields=[('a', T('INTEGER'), 'req'), ('c', T('INTEGER'), ('default', 5))])
    inner_e = T('SEQUENCE', [('I', CTX, 4)], fields=[('a', T('INTEGER'), 'opt'), ('b', T('BOOLEAN'), ('default', True))])
    outer_d = T('SEQUENCE', [], fields=[('n', T('INTEGER'), 'req'), ('inner', inner_d, ('default', {'a': 1})),
                                        ('empty', inner_e, ('default', {})), ('last', T('NULL'), 'opt')])
    out.append((outer_d, {'n': 7}))
    out.append((outer_d, {'n': 7, 'inner': {'a': 1}, 'empty': {}}))
    out.append((outer_d, {'n': 7, 'inner': {'a': 1, 'c': 5}, 'empty': {'b': True}, 'last': None}))
    out.append((outer_d, {'n': 7, 'inner': {'a': 2}, 'empty': {'a': 0}}))
    # CER 9.3 with explicitly tagged alternatives: the smallest *outermost* tag counts, not the smallest base tag
    ech = T('CHOICE', [], fields=[('a', T('UTF8String', [('E', CTX, 0)]), 'req'), ('b', T('INTEGER', [('I', APP, 5)]), 'req')])
    set_ech = T('SET', [], fields=[('c', ech, 'req'), ('m', T('NULL', [('I', APP, 7)]), 'req'), ('k', T('BOOLEAN', [('I', CTX, 1)]), 'req')])
    out.append((set_ech, {'c': ('a', 'txt'), 'm': None, 'k': True}))
    out.append((set_ech, {'c': ('b', 300), 'm': None, 'k': False}))
    wrap = T('SEQUENCE', [('E', PRIV, 77)], fields=[('s', sett, 'req'), ('z', T('NULL'), 'opt')])
    out.append((wrap, {'s': {'p': 9, 'q': b''}}))
    out.append((wrap, {'s': {'p': 9, 'q': b'', 'r': False}, 'z': None}))
    return out


def long_strings():
    out = []
    for n in (999, 1000, 1001, 2001):
        out.append((T('OCTETSTRING'), bytes((i * 7) % 251 for i in range(n))))
    out.append((T('OCTETSTRING', [('E', CTX, 0)]), b'q' * 1500))
    out.append((T('BITSTRING'), '1' * (8 * 1000 + 3)))
    out.append((T('BITSTRING'), '10' * 4000))
    # a first CER segment (8000 bits) without a single 1-bit: bits collected so far that are "falsy" as a number
    out.append((T('BITSTRING'), '0' * 8015))
    out.append((T('BITSTRING'), '0' * 8000 + '1' * 15))
    out.append((T('SEQUENCE', [], fields=[('b', T('BITSTRING'), 'req'), ('n', T('INTEGER'), 'req')]), {'b': '0' * 16007 + '1', 'n': 3}))
    out.append((T('UTF8String'), 'a' * 1500))
    out.append((T('BMPString'), '日' * 600))
    # tagged long strings: CER segments them (1000 octets) inside the tags -- value-object and Python-value path alike
    out.append((T('OCTETSTRING', [('I', CTX, 2)]), b'x' * 1100))
    out.append((T('BITSTRING', [('E', CTX, 2)]), '1' * 8100))
    out.append((T('BITSTRING', [('I', CTX, 2)]), '10' * 4100))
    out.append((T('UTF8String', [('E', CTX, 2)]), 'y' * 1500))
    out.append((T('SEQUENCE', [], fields=[('s', T('OCTETSTRING', [('E', APP, 1)]), 'req'), ('b', T('BITSTRING', [('I', CTX, 0)]), 'opt')]),
                {'s': b'z' * 2001, 'b': '1' * 8008}))
    return out


UNIVERSAL_NUMBER = {'BOOLEAN': 1, 'INTEGER': 2, 'BITSTRING': 3, 'OCTETSTRING': 4, 'NULL': 5, 'OID': 6, 'ObjectDescriptor': 7,
                    'REAL': 9, 'ENUMERATED': 10, 'UTF8String': 12, 'SEQUENCE': 16, 'SEQUENCEOF': 16, 'SET': 17, 'SETOF': 17,
                    'NumericString': 18, 'PrintableString': 19, 'TeletexString': 20, 'VideotexString': 21, 'IA5String': 22,
                    'UTCTime': 23, 'GeneralizedTime': 24, 'GraphicString': 25, 'VisibleString': 26, 'GeneralString': 27,
                    'UniversalString': 28, 'BMPString': 30}
RANDOM_LEAVES = ['BOOLEAN', 'INTEGER', 'ENUMERATED', 'BITSTRING', 'OCTETSTRING', 'NULL', 'OID', 'REAL', 'UTF8String',
                 'IA5String', 'BMPString', 'GeneralizedTime', 'PrintableString']


def outer_tag(t):
    if t['tags']:
        m, c, n = t['tags'][-1]
        return (c, n)
    return (0, UNIVERSAL_NUMBER[t['k']])


ANY_VALUES = [b'\x02\x01\x05', b'\x04\x00', b'\x30\x03\x01\x01\xff', b'\x0c\x02hi',
              # an indefinite-length element nested in another one: what a CER-encoded inner value looks like
              b'\x30\x80\x02\x01\x07\x30\x80\x01\x01\xff\x00\x00\x00\x00']


def static_tags(t):
    """the set of outermost tags an encoding of a value of t can start with (untagged CHOICE: those of its alternatives)"""
    if t['tags']:
        m, c, n = t['tags'][-1]
        return {(c, n)}
    if t['k'] == 'CHOICE':
        out = set()
        for n, ft, m in t['fields']:
            out |= static_tags(ft)
        return out
    return {(0, UNIVERSAL_NUMBER[t['k']])}


def allowed_values(t):
    vs = leaf_values(t['k'])[:10]
    if 'range' in t:
        vs = [v for v in vs if t['range'][0] <= v <= t['range'][1]]
    if 'size' in t:
        vs = [v for v in vs if t['size'][0] <= len(v) <= t['size'][1]]
    return vs


def random_type(rng, depth, top=True, rich=True):
    """a legal ASN.1 type: members of one constructed type have pairwise disjoint sets of outermost tags (stronger than
    X.680 requires for SEQUENCE, exactly what it requires for SET and CHOICE); `rich` adds untagged CHOICE members,
    DEFAULT members of constructed type, explicitly tagged ANY members and value-range / SIZE constraints"""
    kinds = list(RANDOM_LEAVES) * 2
    if depth > 0:
        kinds += ['SEQUENCE', 'SET', 'SEQUENCEOF', 'SETOF', 'CHOICE'] * 5
    k = rng.choice(kinds)
    ts = []
    if rng.random() < 0.25 and k != 'CHOICE':
        ts = [(rng.choice('IE'), rng.choice((CTX, APP, PRIV)), rng.choice((0, 1, 30, 31, 127, 128, 16384)))]
    if k in RANDOM_LEAVES:
        t = T(k, ts)
        if rich and rng.random() < 0.2:
            if k == 'INTEGER':
                t['range'] = rng.choice([(-129, 256), (0, 2 ** 31), (-2 ** 63, 2 ** 64 + 1)])
            elif k in ('OCTETSTRING', 'UTF8String', 'IA5String'):
                t['size'] = rng.choice([(0, 7), (0, 200), (1, 128)])
            if not allowed_values(t):
                t.pop('range', None)
                t.pop('size', None)
        return t
    if k in ('SEQUENCEOF', 'SETOF'):
        elem = random_type(rng, depth - 1, top=False, rich=rich)
        if elem['k'] == 'CHOICE' and not elem['tags'] and not (rich and rng.random() < 0.5):
            elem = dict(elem, tags=[('E', CTX, 0)])
        t = T(k, ts, elem=elem)
        if rich and rng.random() < 0.2:
            t['size'] = rng.choice([(0, 3), (0, 8), (1, 3)])
        return t
    n = rng.randrange(0 if k != 'CHOICE' else 1, 5)
    fields, used = [], set()
    for i in range(n):
        if rich and rng.random() < 0.06:
            ft = T('ANY', [('E', CTX, i)])
        else:
            ft = random_type(rng, depth - 1, top=False, rich=rich)
        if ft['k'] == 'CHOICE' and not ft['tags'] and not (rich and rng.random() < 0.5 and not (static_tags(ft) & used)):
            ft = dict(ft, tags=list(ft['tags']) + [('E', CTX, i)])
        elif ft['k'] != 'CHOICE' and ft['k'] != 'ANY' and (static_tags(ft) & used or rng.random() < 0.4):
            ft = dict(ft, tags=list(ft['tags']) + [(rng.choice('IE'), CTX, i)])
        if static_tags(ft) & used:
            # an escape tag that nothing on this level carries yet -- also not an alternative of an untagged CHOICE
            # member, which got its own escape tags by the same rule one level down
            num = 100 + i
            while (PRIV, num) in used:
                num += 50
            ft = dict(ft, tags=list(ft['tags']) + [('E', PRIV, num)])
        used |= static_tags(ft)
        mode = 'req'
        if k != 'CHOICE':
            r = rng.random()
            if r < 0.3:
                mode = 'opt'
            elif r < 0.45 and ft['k'] in RANDOM_LEAVES:
                mode = ('default', rng.choice(allowed_values(ft)))
            elif rich and r < 0.5 and ft['k'] in ('SEQUENCE', 'SET', 'SEQUENCEOF', 'SETOF'):
                mode = ('default', random_value(rng, ft))
        fields.append(('f%d' % i, ft, mode))
    return T(k, ts, fields=fields)


def random_value(rng, t):
    k = t['k']
    if k == 'ANY':
        return rng.choice(ANY_VALUES)
    if k in RANDOM_LEAVES:
        return rng.choice(allowed_values(t))
    if k in ('SEQUENCEOF', 'SETOF'):
        lo, hi = t.get('size', (0, 3))
        return [random_value(rng, t['elem']) for _ in range(rng.randrange(lo, min(hi, 3) + 1))]
    if k == 'CHOICE':
        n, ft, m = rng.choice(t['fields'])
        return (n, random_value(rng, ft))
    v = {}
    for n, ft, m in t['fields']:
        if m == 'req' or rng.random() < 0.5:
            if isinstance(m, tuple) and rng.random() < 0.5:
                v[n] = m[1]
            else:
                v[n] = random_value(rng, ft)
    return v


def random_pairs(seed, n, depth=3, rich=None):
    rng = random.Random(seed * 7919 + 13)
    out = []
    while len(out) < n:
        # the first half keeps the plain generator (same pairs as before for the same seed), the rest is `rich`
        t = random_type(rng, depth, rich=(len(out) >= n // 2) if rich is None else rich)
        if t['k'] in RANDOM_LEAVES:
            continue
        for _ in range(2):
            out.append((t, random_value(rng, t)))
    return out


def constrained():
    """types with subtype constraints (C10, C14): 'range', 'size', 'present'; 'violating' lists values of the
    unconstrained twin type that the constrained type must not accept"""
    out = []
    small = T('INTEGER', range=(0, 7))
    out.append((dict(small, violating=[8, -1, 256]), 3))
    out.append((dict(T('OCTETSTRING', size=(1, 3)), violating=[b'', b'abcd']), b'ab'))
    out.append((dict(T('UTF8String', [('E', CTX, 2)], size=(0, 2)), violating=['abc']), 'a'))
    # SIZE counts bits: lengths that are not a multiple of eight (the encoder pads them) and ones that span segments
    out.append((dict(T('BITSTRING', size=(1, 4)), violating=['', '11111', '00000000']), '1111'))
    out.append((dict(T('BITSTRING', [('I', CTX, 5)], size=(9, 17)), violating=['11111111', '1' * 18]), '10110011100011110'))
    lst = T('SEQUENCEOF', elem=T('INTEGER'), size=(1, 2))
    out.append((dict(lst, violating=[[], [1, 2, 3]]), [1, 2]))
    st = T('SETOF', [('I', CTX, 1)], elem=T('BOOLEAN'), size=(0, 1))
    out.append((dict(st, violating=[[True, False]]), [True]))
    rec = T('SEQUENCE', fields=[('a', T('INTEGER'), 'opt'), ('b', T('BOOLEAN'), 'opt')], present=['a'])
    out.append((dict(rec, violating=[{}, {'b': True}]), {'a': 1}))
    outer = T('SEQUENCE', fields=[('p', small, 'req'), ('l', lst, 'opt'), ('q', T('OCTETSTRING', [('I', CTX, 0)], size=(2, 2)), 'opt')])
    out.append((dict(outer, violating=[{'p': 9}, {'p': 1, 'l': [1, 2, 3]}, {'p': 1, 'q': b'x'}, {'p': 1, 'l': []}]),
                {'p': 1, 'l': [5], 'q': b'xy'}))
    # a value constraint on an OPTIONAL member applies when the member is there
    rec2 = T('SEQUENCE', fields=[('a', T('INTEGER'), 'opt'), ('b', T('BOOLEAN'), 'req')], within={'a': (1, 5)})
    out.append((dict(rec2, violating=[{'a': 9, 'b': True}, {'a': 0, 'b': False}]), {'b': True}))
    out.append((dict(rec2, violating=[{'a': 6, 'b': True}]), {'a': 5, 'b': False}))
    # ... and `a (1..5) PRESENT` in one WITH COMPONENTS that names the member twice, in either order
    for one in ('fwd', 'rev'):
        rec5 = T('SEQUENCE', fields=[('a', T('INTEGER'), 'opt'), ('b', T('BOOLEAN'), 'req')], within={'a': (1, 5)},
                 present=['a'], one=one)
        out.append((dict(rec5, violating=[{'b': True}, {'a': 9, 'b': True}, {'a': 0, 'b': False}]), {'a': 3, 'b': True}))
    rec3 = T('SET', fields=[('a', T('INTEGER'), 'opt'), ('b', T('BOOLEAN', [('I', CTX, 0)]), 'opt')], absent=['b'])
    out.append((dict(rec3, violating=[{'b': True}, {'a': 1, 'b': False}]), {'a': 1}))
    # ... also when it is spelled as a set with one operand, `a ((1..5))`: a set of value constraints is a value constraint
    rec7 = T('SEQUENCE', fields=[('a', T('INTEGER'), 'opt'), ('b', T('BOOLEAN'), 'req')], within_and={'a': (1, 5)})
    out.append((dict(rec7, violating=[{'a': 9, 'b': True}]), {'b': True}))
    out.append((dict(rec7, violating=[{'a': 0, 'b': True}]), {'a': 3, 'b': False}))
    # ABSENT on a DEFAULT member: the member takes its default value by being left out
    rec6 = T('SEQUENCE', fields=[('d', T('INTEGER'), ('default', 5)), ('b', T('INTEGER', [('I', CTX, 0)]), 'req')], absent=['d'])
    out.append((dict(rec6, violating=[{'d': 7, 'b': 1}]), {'b': 1}))
    # SIZE on a record counts the members that are present (not the slots reads have touched)
    rec4 = T('SEQUENCE', fields=[('x', T('INTEGER'), 'opt'), ('y', T('INTEGER', [('I', CTX, 0)]), 'opt')], size=(1, 1))
    out.append((dict(rec4, violating=[{}, {'x': 1, 'y': 2}]), {'x': 1}))
    out.append((dict(rec4, violating=[{}]), {'y': 5}))
    # a CHOICE with a constraint of its own: one alternative may not be chosen
    ch2 = T('CHOICE', fields=[('a', T('INTEGER'), 'req'), ('b', T('BOOLEAN'), 'req')], absent=['a'])
    out.append((dict(ch2, violating=[('a', 5)]), ('b', True)))
    ch = T('CHOICE', fields=[('i', small, 'req'), ('l', lst, 'req')])
    out.append((dict(ch, violating=[('i', 100), ('l', [])]), ('l', [1])))
    return out


def universe(seed=0, tier='quick', include_long=False):
    """-> list of (T, v).  quick samples the leaf product; thorough takes all of it."""
    rng = random.Random(seed)
    lv = leaves()
    if tier == 'quick':
        base = leaves(stacks=[[]])
        tagged = [p for p in lv if p[0]['tags']]
        rng.shuffle(tagged)
        lv = base + tagged[:400]
    out = lv + records() + collections() + choices() + nested()
    # generated types of depth <= 3 with random members, tags, OPTIONAL/DEFAULT modes and values
    out += random_pairs(seed, 60 if tier == 'quick' else 3000)
    out += constrained()
    if include_long:
        out += long_strings()
    return out


def self_describing(pairs):
    """sub-universe for C16: no IMPLICIT tags, no ANY (recursively)."""
    def ok(t):
        if any(m == 'I' for m, c, n in t.get('tags', ())):
            return False
        if t['k'] == 'ANY':
            return False
        for f in t.get('fields', ()):
            if not ok(f[1]):
                return False
        if 'elem' in t and not ok(t['elem']):
            return False
        return True
    return [(t, v) for t, v in pairs if ok(t)]
