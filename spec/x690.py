"""Independent reference for X.690 (BER / CER / DER), written from the standard.

No pyasn1 import, no z3 import.  This is the *executable twin* of the specification functions in
spec/smt.py plus a whole-value reference encoder/reader used by replay and by the bounded
stand-ins.  Types and values are plain python data:

  T = dict(k=<kind>, tags=[('I'|'E', cls, num), ...], fields=[(name, T, mode)], elem=T, ...)
        kind: BOOLEAN INTEGER ENUMERATED BITSTRING OCTETSTRING NULL OID REAL  <char string kinds>
              ObjectDescriptor GeneralizedTime UTCTime  SEQUENCE SET SEQUENCEOF SETOF CHOICE ANY
        mode: 'req' | 'opt' | ('default', value)
        cls: 0 universal, 64 application, 128 context, 192 private

  values: BOOLEAN bool | INTEGER/ENUMERATED int | BITSTRING str of '0'/'1' | OCTETSTRING bytes | NULL None |
          OID tuple of ints | REAL 'inf' '-inf' or (m, b, e) | char/time kinds str |
          SEQUENCE/SET dict name->value (absent OPTIONAL/DEFAULT members are simply missing; a DEFAULT
          member equal to its default is *normalised away* by `norm`) |
          SEQUENCEOF/SETOF list | CHOICE (name, value) | ANY bytes (a complete encoding)
"""

UNIV = {'BOOLEAN': 1, 'INTEGER': 2, 'BITSTRING': 3, 'OCTETSTRING': 4, 'NULL': 5, 'OID': 6, 'ObjectDescriptor': 7,
        'REAL': 9, 'ENUMERATED': 10, 'UTF8String': 12, 'SEQUENCE': 16, 'SEQUENCEOF': 16, 'SET': 17, 'SETOF': 17,
        'NumericString': 18, 'PrintableString': 19, 'TeletexString': 20, 'VideotexString': 21, 'IA5String': 22,
        'UTCTime': 23, 'GeneralizedTime': 24, 'GraphicString': 25, 'VisibleString': 26, 'GeneralString': 27,
        'UniversalString': 28, 'BMPString': 30}
CODEC = {'UTF8String': 'utf-8', 'BMPString': 'utf-16-be', 'UniversalString': 'utf-32-be'}
STRINGS = ('OCTETSTRING', 'ObjectDescriptor', 'UTF8String', 'NumericString', 'PrintableString', 'TeletexString',
           'VideotexString', 'IA5String', 'UTCTime', 'GeneralizedTime', 'GraphicString', 'VisibleString',
           'GeneralString', 'UniversalString', 'BMPString')
CONSTRUCTED = ('SEQUENCE', 'SEQUENCEOF', 'SET', 'SETOF')


# ---- spec functions (twins of spec/smt.py) -----------------------------------------
def b128(n):
    out = [n % 128]
    n //= 128
    while n > 0:
        out.insert(0, 128 + n % 128)
        n //= 128
    return out


def ident(cls, pc, num):
    """X.690 8.1.2: identifier octets; pc is 0 or 32"""
    if num < 31:
        return [cls + pc + num]
    return [cls + pc + 31] + b128(num)


def be256(n):
    out = []
    while n > 0:
        out.insert(0, n % 256)
        n //= 256
    return out


def length_def(n):
    """8.1.3 definite form, minimal (10.1)"""
    if n < 128:
        return [n]
    d = be256(n)
    return [128 + len(d)] + d


def twos_min(v):
    """8.3: minimal two's complement contents octets"""
    n = 1
    while not (-(1 << (8 * n - 1)) <= v < (1 << (8 * n - 1))):
        n += 1
    return [((v >> (8 * (n - 1 - i))) & 0xff) for i in range(n)]


def twos_val(octs):
    v = 0
    for o in octs:
        v = v * 256 + o
    if octs and octs[0] & 0x80:
        v -= 1 << (8 * len(octs))
    return v


def oid_content(arcs):
    """8.19"""
    if len(arcs) < 2:
        raise ValueError('OID needs two arcs')
    a, b = arcs[0], arcs[1]
    if a not in (0, 1, 2) or b < 0 or (a < 2 and b > 39):
        raise ValueError('bad first arcs')
    out = b128(40 * a + b)
    for x in arcs[2:]:
        if x < 0:
            raise ValueError('negative arc')
        out += b128(x)
    return out


def bits_content(bits):
    """8.6 primitive: initial octet = unused bits, padding bits zero (11.2.1)"""
    n = len(bits)
    pad = (8 - n % 8) % 8
    s = bits + '0' * pad
    return [pad] + [int(s[i:i + 8], 2) for i in range(0, len(s), 8)]


def real_bin_canon(m, e):
    """8.5 + 11.3: base 2, mantissa odd (or 0 -> empty contents), F = 0, minimal exponent"""
    if m == 0:
        return []
    sign = 0x40 if m < 0 else 0
    m = abs(m)
    while m % 2 == 0:
        m //= 2
        e += 1
    eo = twos_min(e)
    if len(eo) == 1:
        fo, pre = 0, []
    elif len(eo) == 2:
        fo, pre = 1, []
    elif len(eo) == 3:
        fo, pre = 2, []
    else:
        fo, pre = 3, [len(eo)]
    return [0x80 | sign | fo] + pre + eo + be256(m)


def str_octets(kind, s):
    if kind == 'OCTETSTRING':
        return bytes(s)
    return s.encode(CODEC.get(kind, 'iso-8859-1'))


# ---- tags ----------------------------------------------------------------------------
def tag_stack(T):
    """[(cls, num)] outermost first; every tag but the innermost one is an explicit wrapper."""
    k = T['k']
    stack = [] if k in ('CHOICE', 'ANY') else [(0, UNIV[k])]
    for mode, cls, num in T.get('tags', ()):
        if mode == 'I':
            if not stack:
                raise ValueError('implicit tag on untagged type')
            stack[0] = (cls, num)
        else:
            stack.insert(0, (cls, num))
    return stack


def outer_tag(T, v=None):
    st = tag_stack(T)
    if st:
        return st[0]
    if T['k'] == 'CHOICE':
        name, inner = v
        return outer_tag(field_type(T, name), inner)
    raise ValueError('no outer tag')


def static_min_tag(T):
    """X.690 9.3 (CER): an untagged CHOICE is ordered as though it had the smallest tag of its alternatives (nested
    untagged CHOICEs included)"""
    st = tag_stack(T)
    if st:
        return st[0]
    if T['k'] == 'CHOICE':
        return min(static_min_tag(ft) for n, ft, m in T['fields'])
    raise ValueError('no outer tag')


def field_type(T, name):
    for n, ft, mode in T['fields']:
        if n == name:
            return ft
    raise KeyError(name)


def real_integral(v):
    """(m, b, e) with an integral mantissa: a fractional one (a python float, n / 2**k exactly) is m * b**e all the same --
    n * 2**-k = (n * 5**k) * 10**-k"""
    m, b, e = v
    if isinstance(m, float):
        from fractions import Fraction
        f = Fraction(m)
        k = f.denominator.bit_length() - 1
        m, e = (f.numerator, e - k) if b == 2 else (f.numerator * 5 ** k, e - k)
    return m, b, e


def norm(T, v):
    """abstract value: DEFAULT members equal to their default are dropped (recursively)."""
    k = T['k']
    if k in ('SEQUENCE', 'SET'):
        out = {}
        for n, ft, mode in T['fields']:
            if n in v:
                x = norm(ft, v[n])
                if isinstance(mode, tuple) and norm(ft, mode[1]) == x:
                    continue
                out[n] = x
        return out
    if k in ('SEQUENCEOF',):
        return [norm(T['elem'], x) for x in v]
    if k == 'SETOF':
        return sorted((norm(T['elem'], x) for x in v), key=repr)
    if k == 'CHOICE':
        return (v[0], norm(field_type(T, v[0]), v[1]))
    if k == 'REAL' and isinstance(v, tuple):
        m, b, e = real_integral(v)
        if m == 0:
            return (0, 2, 0)
        if b == 2:
            while m % 2 == 0:
                m //= 2
                e += 1
            return (m, 2, e)
        while m % 10 == 0:
            m //= 10
            e += 1
        return (m, 10, e)
    if k == 'OID':
        return tuple(v)
    if k == 'OCTETSTRING':
        return bytes(v)
    return v


# ---- reference encoder (rules in DER / CER / BER-definite-minimal) ---------------------
EOO = b'\x00\x00'


def frame(cls, pc, num, content, indef):
    if indef:
        return bytes(ident(cls, pc, num)) + b'\x80' + content + EOO
    return bytes(ident(cls, pc, num) + length_def(len(content))) + content


def content_of(T, v, rules, quirks=(), ine=False):
    """-> (contents octets, constructed?)"""
    k = T['k']
    if k == 'BOOLEAN':
        return (b'\xff' if v else b'\x00'), False
    if k in ('INTEGER', 'ENUMERATED'):
        return bytes(twos_min(v)), False
    if k == 'NULL':
        return b'', False
    if k == 'OID':
        return bytes(oid_content(v)), False
    if k == 'REAL':
        if v == 'inf':
            return b'\x40', False
        if v == '-inf':
            return b'\x41', False
        m, b, e = real_integral(v)
        if m == 0:
            return b'', False
        if b == 2:
            return bytes(real_bin_canon(m, e)), False
        if b != 10:
            raise ValueError('REAL base %r' % (b,))
        # X.690 11.3.1 (DER/CER; 8.5.8 lets BER use any ISO 6093 form): NR3, mantissa an integer without trailing zeros
        # followed by the decimal mark, no leading zeros, no '+' before the mantissa, exponent without leading zeros and
        # written "+0" when it is zero
        while m % 10 == 0:
            m //= 10
            e += 1
        return b'\x03' + ('%d.E%s%d' % (m, '+' if e == 0 else '', e)).encode('ascii'), False
    if k == 'BITSTRING':
        c = bytes(bits_content(v))
        # X.690 9.2: fragments of 1000 *contents* octets, i.e. the unused-bits octet plus 999 data octets;
        # quirk 'bitstring-1001': the implementation counts 1000 data octets per fragment
        per = 1000 if 'bitstring-1001' in quirks else 999
        if rules == 'CER' and len(c) > per + 1:
            body = c[1:]
            parts = []
            for i in range(0, len(body), per):
                seg = body[i:i + per]
                last = i + per >= len(body)
                parts.append(frame(0, 0, 3, bytes([c[0] if last else 0]) + seg, False))
            return b''.join(parts), True
        return c, False
    if k in STRINGS:
        c = str_octets(k, v)
        if rules == 'CER' and len(c) > 1000:
            return b''.join(frame(0, 0, 4, c[i:i + 1000], False) for i in range(0, len(c), 1000)), True
        return c, False
    if k in ('SEQUENCE', 'SET'):
        chunks = []
        for n, ft, mode in T['fields']:
            if n not in v:
                if mode == 'req':
                    raise ValueError('missing %s' % n)
                continue
            if isinstance(mode, tuple) and norm(ft, mode[1]) == norm(ft, v[n]):
                continue
            # quirk 'omit-empty-optional-of': the canonical encoders drop a present OPTIONAL member whose constructed
            # content is empty (the ifNotEmpty option; it is set per record member and inherited by the
            # alternative chosen in a CHOICE member)
            e = enc(ft, v[n], rules, quirks, ine=(mode == 'opt'))
            if e:
                # X.690 10.3 (DER): by the tag actually encoded; 9.3 (CER): by the smallest tag of the component type
                chunks.append((static_min_tag(ft) if rules == 'CER' else outer_tag(ft, v[n]), e))
        if k == 'SET':
            chunks.sort(key=lambda c: c[0])
        return b''.join(c[1] for c in chunks), True
    if k in ('SEQUENCEOF', 'SETOF'):
        chunks = [enc(T['elem'], x, rules, quirks) for x in v]     # elements are never optional
        if k == 'SETOF':
            m = max([len(c) for c in chunks] or [0])
            chunks.sort(key=lambda c: c.ljust(m, b'\x00'))
        return b''.join(chunks), True
    raise ValueError(k)


NO_INDEF_CODECS = ('BOOLEAN', 'INTEGER', 'ENUMERATED', 'NULL', 'OID', 'REAL')


def enc(T, v, rules='DER', quirks=(), ine=False):
    """reference encoder.  `quirks` reproduces *recorded* defects of the implementation byte-exactly so that
    a stand-in can tell a recorded finding from a new one ('explicit-primitive-eoo': an explicit wrapper
    around a primitive-only type gets a definite length followed by an end-of-octets marker in CER)."""
    k = T['k']
    stack = tag_stack(T)
    if k == 'ANY':
        out, constructed = bytes(v), True
        if not stack:
            return out
        inner_done = True
    elif k == 'CHOICE':
        out, constructed = enc(field_type(T, v[0]), v[1], rules, quirks, ine=ine), True
        if not stack or not out:
            return out
        inner_done = True
    else:
        out, constructed = content_of(T, v, rules, quirks, ine)
        inner_done = False
        if ine and not out and constructed and 'omit-empty-optional-of' in quirks and rules in ('CER', 'DER'):
            return b''
    for i, (cls, num) in enumerate(reversed(stack)):
        pc = 32 if (constructed or i > 0 or inner_done) else 0
        if 'explicit-primitive-eoo' in quirks and rules == 'CER' and i > 0 and k in NO_INDEF_CODECS:
            out = frame(cls, pc, num, out, False) + EOO
        else:
            out = frame(cls, pc, num, out, rules == 'CER' and pc == 32)
    return out


QUIRKS = ('explicit-primitive-eoo', 'bitstring-1001', 'omit-empty-optional-of')


def der(T, v, quirks=()):
    return enc(T, v, 'DER', quirks)


def which_quirks(T, v, rules, got):
    """the smallest set of recorded quirks under which the reference reproduces `got` byte for byte, or None"""
    import itertools
    for r in range(1, len(QUIRKS) + 1):
        for qs in itertools.combinations(QUIRKS, r):
            try:
                if enc(T, v, rules, qs) == got:
                    return '+'.join(qs)
            except ValueError:
                pass
    return None


def cer(T, v, quirks=()):
    return enc(T, v, 'CER', quirks)


# ---- reference BER reader ---------------------------------------------------------------
class Malformed(Exception):
    pass


class Truncated(Malformed):
    pass


def read_ident(b, p):
    if p >= len(b):
        raise Truncated()
    o = b[p]
    p += 1
    cls, pc, num = o & 0xC0, o & 0x20, o & 0x1F
    if num == 31:
        num = 0
        while True:
            if p >= len(b):
                raise Truncated()
            o = b[p]
            p += 1
            num = num * 128 + (o & 0x7f)
            if not o & 0x80:
                break
    return cls, pc, num, p


def read_length(b, p):
    if p >= len(b):
        raise Truncated()
    o = b[p]
    p += 1
    if o < 128:
        return o, p
    if o == 128:
        return -1, p
    n = o & 0x7f
    if p + n > len(b):
        raise Truncated()
    return int.from_bytes(b[p:p + n], 'big'), p + n


def read_tlv(b, p):
    """-> (cls, pc, num, content_start, content_end, next) ; for indefinite length scans nested TLVs"""
    cls, pc, num, p1 = read_ident(b, p)
    ln, p2 = read_length(b, p1)
    if ln >= 0:
        if p2 + ln > len(b):
            raise Truncated()
        return cls, pc, num, p2, p2 + ln, p2 + ln
    if not pc:
        raise Malformed('indefinite primitive')
    q = p2
    while True:
        if q + 2 > len(b):
            raise Truncated()
        if b[q:q + 2] == EOO:
            return cls, pc, num, p2, q, q + 2
        q = read_tlv(b, q)[5]


def children(b, lo, hi):
    out = []
    p = lo
    while p < hi:
        t = read_tlv(b, p)
        if t[5] > hi:
            raise Malformed('child overruns parent')
        out.append((p,) + t)
        p = t[5]
    return out


def string_content(b, pc, lo, hi, is_bits):
    """8.7 / 8.6: primitive or constructed (nested) segments -> (octets, unused_bits)"""
    if not pc:
        c = b[lo:hi]
        if is_bits:
            if not c:
                raise Malformed('empty bit string')
            if c[0] > 7 or (len(c) == 1 and c[0]):
                raise Malformed('bad unused bits')
            return c[1:], c[0]
        return c, 0
    data, unused = b'', 0
    kids = children(b, lo, hi)
    for i, (p, cls, cpc, num, clo, chi, nx) in enumerate(kids):
        if cls != 0 or num != (3 if is_bits else 4):
            raise Malformed('segment tag')
        d, u = string_content(b, cpc, clo, chi, is_bits)
        if is_bits and unused:
            raise Malformed('unused bits in a non-final segment')
        data += d
        unused = u
    return data, unused


def dec(T, b, p=0):
    """BER reader guided by T: -> (value, next position).  Accepts every BER form."""
    k = T['k']
    stack = tag_stack(T)
    if k == 'CHOICE' and not stack:
        cls, pc, num, _ = read_ident(b, p)
        for n, ft, mode in T['fields']:
            if accepts(ft, cls, num):
                v, q = dec(ft, b, p)
                return (n, v), q
        raise Malformed('no CHOICE alternative for tag')
    if k == 'ANY' and not stack:
        t = read_tlv(b, p)
        return bytes(b[p:t[5]]), t[5]
    lo, hi, nxt = None, None, None
    ends = []
    q = p
    for i, (cls, num) in enumerate(stack):
        tcls, pc, tnum, clo, chi, nx = read_tlv(b, q)
        if (tcls, tnum) != (cls, num):
            raise Malformed('tag mismatch: got (%d,%d) want (%d,%d)' % (tcls, tnum, cls, num))
        if i < len(stack) - 1 and not pc:
            raise Malformed('explicit wrapper must be constructed')
        ends.append((chi, nx))
        q, lo, hi = clo, clo, chi
        if i == 0:
            nxt = nx
    # q at contents of innermost tag
    if k in ('CHOICE', 'ANY'):
        if not pc:
            raise Malformed('explicit wrapper must be constructed')
        sub = dict(T, tags=[])
        v, q2 = dec(sub, b, lo)
        if q2 != hi:
            raise Malformed('trailing data inside explicit tag')
        _check_nesting(ends)
        return v, nxt
    v = dec_content(T, b, pc, lo, hi)
    _check_nesting(ends)
    return v, nxt


def _check_nesting(ends):
    for (chi, nx), (chi2, nx2) in zip(ends, ends[1:]):
        if nx2 != chi:
            raise Malformed('explicit wrapper holds more than one element')


def accepts(T, cls, num):
    st = tag_stack(T)
    if st:
        return st[0] == (cls, num)
    if T['k'] == 'CHOICE':
        return any(accepts(ft, cls, num) for n, ft, m in T['fields'])
    return T['k'] == 'ANY'


def dec_content(T, b, pc, lo, hi):
    k = T['k']
    c = b[lo:hi]
    if k == 'BOOLEAN':
        if pc or len(c) != 1:
            raise Malformed('boolean')
        return c[0] != 0
    if k in ('INTEGER', 'ENUMERATED'):
        if pc or not c:
            raise Malformed('integer')
        return twos_val(list(c))
    if k == 'NULL':
        if pc or c:
            raise Malformed('null')
        return None
    if k == 'OID':
        if pc or not c or c[-1] & 0x80:
            raise Malformed('oid')
        arcs, cur, start = [], 0, True
        for o in c:
            if start and o == 0x80:
                raise Malformed('oid leading 0x80')
            cur = cur * 128 + (o & 0x7f)
            start = False
            if not o & 0x80:
                arcs.append(cur)
                cur, start = 0, True
        f = arcs[0]
        first = 0 if f < 40 else (1 if f < 80 else 2)
        return (first, f - 40 * first) + tuple(arcs[1:])
    if k == 'REAL':
        if pc:
            raise Malformed('real')
        if not c:
            return (0, 2, 0)
        fo = c[0]
        if fo & 0x80:
            n = (fo & 3) + 1
            rest = c[1:]
            if n == 4:
                n = rest[0]
                rest = rest[1:]
            eo, mo = rest[:n], rest[n:]
            if not eo or not mo:
                raise Malformed('real')
            e = twos_val(list(eo))
            base = (fo >> 4) & 3
            if base == 3:
                raise Malformed('real base')
            e *= (1, 3, 4)[base]
            m = int.from_bytes(mo, 'big') * (2 ** ((fo >> 2) & 3))
            if fo & 0x40:
                m = -m
            return norm(T, (m, 2, e))
        if fo == 0x40:
            return 'inf'
        if fo == 0x41:
            return '-inf'
        if fo & 0xc0 == 0:
            txt = c[1:].decode('ascii').strip().replace(',', '.')
            mant, _, ex = txt.upper().partition('E')
            e = int(ex) if ex else 0
            if '.' in mant:
                ip, fp = mant.split('.')
                mant = ip + fp
                e -= len(fp)
            return norm(T, (int(mant), 10, e))
        raise Malformed('real')
    if k == 'BITSTRING':
        data, unused = string_content(b, pc, lo, hi, True)
        bits = ''.join('{:08b}'.format(o) for o in data)
        return bits[:len(bits) - unused] if unused else bits
    if k in STRINGS:
        data, _ = string_content(b, pc, lo, hi, False)
        if k == 'OCTETSTRING':
            return bytes(data)
        return bytes(data).decode(CODEC.get(k, 'iso-8859-1'))
    if k in ('SEQUENCEOF', 'SETOF'):
        if not pc:
            raise Malformed('constructed expected')
        out = []
        for kid in children(b, lo, hi):
            v, q = dec(T['elem'], b, kid[0])
            if q != kid[6]:
                raise Malformed('element length')
            out.append(v)
        return out
    if k in ('SEQUENCE', 'SET'):
        if not pc:
            raise Malformed('constructed expected')
        out = {}
        idx = 0
        fields = T['fields']
        for kid in children(b, lo, hi):
            p, cls, cpc, num = kid[0], kid[1], kid[2], kid[3]
            if k == 'SET':
                cand = [i for i, (n, ft, m) in enumerate(fields) if accepts(ft, cls, num)]
                if not cand:
                    raise Malformed('unknown SET member')
                i = cand[0]
                if fields[i][0] in out:
                    raise Malformed('duplicate SET member')
            else:
                i = idx
                while i < len(fields) and not accepts(fields[i][1], cls, num):
                    if fields[i][2] == 'req':
                        raise Malformed('missing required member %s' % fields[i][0])
                    i += 1
                if i >= len(fields):
                    raise Malformed('excess member')
                idx = i + 1
            v, q = dec(fields[i][1], b, p)
            if q != kid[6]:
                raise Malformed('member length')
            out[fields[i][0]] = v
        for n, ft, m in fields:
            if m == 'req' and n not in out:
                raise Malformed('missing required member %s' % n)
        return out
    raise ValueError(k)


def decode(T, b):
    v, q = dec(T, bytes(b), 0)
    return norm(T, v), bytes(b[q:])


# ---- all BER forms of a value (C09): nondeterministic reference encoder ------------------
class Chooser:
    """systematic enumeration of choice points (decision-list DFS), or random sampling."""

    def __init__(self, rng=None, limit=None):
        self.rng = rng
        self.prefix = []
        self.cursor = 0
        self.pending = []

    def start(self, prefix):
        self.prefix = list(prefix)
        self.cursor = 0
        self.deviations = []      # (label, alternative) of every non-canonical choice taken

    def pick(self, n, label='', names=None):
        if n <= 1:
            return 0
        if self.rng is not None:
            d = self.rng.randrange(n)
        elif self.cursor < len(self.prefix):
            d = self.prefix[self.cursor]
        else:
            d = 0
            for alt in range(1, n):
                self.pending.append(self.prefix[:self.cursor] + [alt])
            self.prefix.append(0)
        self.cursor += 1
        if d:
            self.deviations.append((label, names[d] if names else d))
        return d


def length_forms(n, ch, allow_indef):
    forms = [bytes(length_def(n))]
    names = ['minimal']
    d = be256(n) or [0]
    if n < 128:
        forms.append(bytes([0x81, n]))
        names.append('long-for-short')
    forms.append(bytes([0x80 + len(d) + 1, 0] + d))
    names.append('leading-zero')
    # X.690 8.1.3.5: up to 126 subsequent octets, whatever the value needs (more than a machine word of them included)
    forms.append(bytes([0x80 + 9] + [0] * (9 - len(d)) + d))
    names.append('nine-octets')
    forms.append(bytes([0x80 + 126] + [0] * (126 - len(d)) + d))
    names.append('126-octets')
    if allow_indef:
        forms.append(None)
        names.append('indefinite')
    return forms[ch.pick(len(forms), 'length', names)]


def frame_any(cls, pc, num, content, ch):
    lf = length_forms(len(content), ch, bool(pc))
    if lf is None:
        return bytes(ident(cls, pc, num)) + b'\x80' + content + EOO
    return bytes(ident(cls, pc, num)) + lf + content


def seg_tree(data, num, ch, depth, unused=None):
    """contents of a constructed string: segments, each primitive or (depth permitting) constructed"""
    cuts = [None, 1, max(1, len(data) // 2)]
    cut = cuts[ch.pick(3, 'cut', ['one', 'at-1', 'half'])] if len(data) > 1 else None
    parts = [data] if cut is None else [data[:cut], data[cut:]]
    out = b''
    for i, part in enumerate(parts):
        last = i == len(parts) - 1
        u = (unused if last else 0) if unused is not None else None
        if depth > 0 and len(part) > 1 and ch.pick(2, 'nested-segment', ['primitive', 'constructed']) == 1:
            out += frame_any(0, 32, num, seg_tree(part, num, ch, depth - 1, u), ch)
        else:
            body = (bytes([u]) + part) if unused is not None else part
            out += frame_any(0, 0, num, body, ch)
    return out


def content_any(T, v, ch):
    k = T['k']
    if k == 'BOOLEAN':
        return (bytes([(0xff, 0x01, 0x7f)[ch.pick(3, 'bool', ['ff', '01', '7f'])]]) if v else b'\x00'), False
    if k == 'BITSTRING':
        c = bytes(bits_content(v))
        if len(c) > 1 and ch.pick(2, 'segmented', ['primitive', 'constructed']) == 1:
            return seg_tree(c[1:], 3, ch, 1, c[0]), True
        if len(c) == 1:
            # 8.6.4: the empty bit string may also be constructed: no segment at all, or one empty primitive segment
            e = ch.pick(3, 'empty-bits', ['primitive', 'no-segment', 'one-empty-segment'])
            if e == 1:
                return b'', True
            if e == 2:
                return frame_any(0, 0, 3, b'\x00', ch), True
        return c, False
    if k in STRINGS:
        c = str_octets(k, v)
        if ch.pick(2, 'segmented', ['primitive', 'constructed']) == 1:
            # 8.7.3: zero or more segments; an empty string may be constructed with no segment at all
            return (seg_tree(c, 4, ch, 1) if c else b''), True
        return c, False
    if k in ('SEQUENCE', 'SET'):
        chunks = []
        for n, ft, mode in T['fields']:
            if n not in v:
                if isinstance(mode, tuple) and ch.pick(2, 'default', ['absent', 'explicit']) == 1:
                    chunks.append(enc_any(ft, mode[1], ch))      # DEFAULT value may be sent explicitly
                continue
            chunks.append(enc_any(ft, v[n], ch))
        if k == 'SET' and len(chunks) > 1:
            r = ch.pick(min(len(chunks), 3), 'set-rotate')
            chunks = chunks[r:] + chunks[:r]
            if ch.pick(2, 'set-reverse') == 1:
                chunks.reverse()
        return b''.join(chunks), True
    if k in ('SEQUENCEOF', 'SETOF'):
        return b''.join(enc_any(T['elem'], x, ch) for x in v), True
    return content_of(T, v, 'DER')


def enc_any(T, v, ch):
    k = T['k']
    stack = tag_stack(T)
    if k == 'ANY':
        out, constructed, inner = bytes(v), True, True
    elif k == 'CHOICE':
        out, constructed, inner = enc_any(field_type(T, v[0]), v[1], ch), True, True
    else:
        (out, constructed), inner = content_any(T, v, ch), False
    if not stack:
        return out
    for i, (cls, num) in enumerate(reversed(stack)):
        pc = 32 if (constructed or i > 0 or inner) else 0
        out = frame_any(cls, pc, num, out, ch)
    return out


def ber_forms(T, v, limit=200, rng=None, with_deviations=False):
    """yield distinct BER encodings of v (systematic up to `limit`, or `limit` random samples)."""
    seen = set()
    ch = Chooser(rng)
    work = [[]]
    n = 0
    while (work or rng is not None) and n < limit:
        ch.start(work.pop() if rng is None else [])
        ch.pending = []
        e = enc_any(T, v, ch)
        if rng is None:
            work.extend(ch.pending)
        n += 1
        if e not in seen:
            seen.add(e)
            yield (e, [d[0] + ':' + str(d[1]) for d in ch.deviations]) if with_deviations else e


def single_deviations(T, v):
    """encodings that differ from the canonical choice at exactly one choice point: [(label, alt, bytes)]"""
    ch = Chooser()
    ch.start([])
    ch.pending = []
    enc_any(T, v, ch)
    out = []
    for prefix in list(ch.pending):
        c2 = Chooser()
        c2.start(prefix)
        c2.pending = []
        e = enc_any(T, v, c2)
        if len(c2.deviations) == 1:
            out.append((c2.deviations[0][0], c2.deviations[0][1], e))
    return out
