"""SMT face of the specification functions (X.690 / X.680), written from the standards and
independent of pyasn1.  The executable twin of every function lives in spec/x690.py; the driver
cross-checks both faces on concrete points on every run (pyvc.selfcheck).

All functions take/return z3 terms or pyvc values (SeqV with kind 'any' compares by content).
"""
import z3
from z3 import (If, And, Or, Not, Implies, IntVal, Int, Length, Concat, Unit, Empty, SeqSort, IntSort,
                RecFunction, RecAddDefinition, Function, ForAll)

from pyvc.core import SeqV, Tup, toint, mk_seq, Unsupported, is_intlike, concrete, _Raise, ExcV

I = IntSort()
S = SeqSort(I)
_t = Int('_t')
_s = z3.Const('_s', S)

# ---- base-128 / base-256 digit strings ------------------------------------------
b128hi = RecFunction('b128hi', I, S)      # digits of n in base 128, each with the continuation bit 0x80
RecAddDefinition(b128hi, [_t], If(_t <= 0, Empty(S), Concat(b128hi(_t / 128), Unit(128 + _t % 128))))
be256 = RecFunction('be256', I, S)        # minimal big-endian base-256 digits of n >= 0 (empty for 0)
RecAddDefinition(be256, [_t], If(_t <= 0, Empty(S), Concat(be256(_t / 256), Unit(_t % 256))))
pow2 = RecFunction('pow2', I, I)
RecAddDefinition(pow2, [_t], If(_t <= 0, IntVal(1), 2 * pow2(_t - 1)))

# value of a big-endian base-256 digit string, most significant first
val256 = RecFunction('val256', S, I)
RecAddDefinition(val256, [_s], If(Length(_s) <= 0, IntVal(0),
                                  256 * val256(z3.Extract(_s, IntVal(0), Length(_s) - 1)) + _s[Length(_s) - 1]))
# value of base-128 digits ignoring the continuation bits
val128 = RecFunction('val128', S, I)
RecAddDefinition(val128, [_s], If(Length(_s) <= 0, IntVal(0),
                                  128 * val128(z3.Extract(_s, IntVal(0), Length(_s) - 1)) + _s[Length(_s) - 1] % 128))

# left fold of base-256 digits onto an accumulator: fold256(a, s) = (...((a*256 + s[0])*256 + s[1])...)
# fold256(0, s) is the unsigned big-endian value; fold256(-1, s) the two's complement value of a string whose sign bit
# is set (X.690 8.3.3 / 8.5.7.4: sign-extend, then read big-endian)
_a = Int('_a')
fold256 = RecFunction('fold256', I, S, I)
RecAddDefinition(fold256, [_a, _s], If(Length(_s) <= 0, _a,
                                       fold256(256 * _a + _s[0], z3.Extract(_s, IntVal(1), Length(_s) - 1))))

# segments of exactly m elements (the last one shorter), each passed through an (uninterpreted) per-segment encoding,
# concatenated:  upto(s, p, m) = encodings of the segments s[0:m], s[m:2m], ... that start before p   (X.690 8.7.3 / 9.2)
enc_chunk = Function('enc_chunk', S, S)
_pos = Int('_pos')
_m = Int('_m')


def py_slice(z, lo, hi):
    """python z[lo:hi] for 0 <= lo <= hi: the very term the executor builds for a slice"""
    n = Length(z)
    lo_c = If(lo > n, n, lo)
    hi_c = If(hi > n, n, hi)
    return z3.Extract(z, lo_c, If(hi_c > lo_c, hi_c - lo_c, IntVal(0)))


upto = RecFunction('segments_upto', S, I, I, S)
RecAddDefinition(upto, [_s, _pos, _m], If(z3.Or(_pos <= 0, _m <= 0), Empty(S),
                                          Concat(upto(_s, _pos - _m, _m), enc_chunk(py_slice(_s, _pos - _m, _pos)))))
multiple = RecFunction('multiple_of', I, I, z3.BoolSort())
RecAddDefinition(multiple, [_pos, _m], If(_pos == 0, z3.BoolVal(True), If(z3.Or(_pos < 0, _m <= 0), z3.BoolVal(False),
                                                                             multiple(_pos - _m, _m))))

# big-endian value of the n elements of s starting at lo (no sub-sequence terms: friendlier to the solver)
_lo = Int('_lo')
_n = Int('_n')
be_val = RecFunction('be_val', S, I, I, I)
RecAddDefinition(be_val, [_s, _lo, _n], If(_n <= 0, IntVal(0), 256 * be_val(_s, _lo, _n - 1) + _s[_lo + _n - 1]))
# base-128 value (continuation bits masked off)
b128_val = RecFunction('b128_val', S, I, I, I)
RecAddDefinition(b128_val, [_s, _lo, _n], If(_n <= 0, IntVal(0), 128 * b128_val(_s, _lo, _n - 1) + _s[_lo + _n - 1] % 128))

# concatenation of the base-128 encodings (X.690 8.19.2) of the n elements of s starting at lo
b128cat = RecFunction('b128cat', S, I, I, S)
RecAddDefinition(b128cat, [_s, _lo, _n],
                 If(_n <= 0, Empty(S), Concat(b128cat(_s, _lo, _n - 1),
                                              Concat(b128hi(_s[_lo + _n - 1] / 128), Unit(_s[_lo + _n - 1] % 128)))))

nonneg = Function('nonneg', S, z3.BoolSort())

# bit_length: uninterpreted + the defining inequalities (CPython docs: for nonzero x,
# 2**(k-1) <= abs(x) < 2**k), instantiated per use (A-BUILTIN)
bit_length_f = Function('bit_length', I, I)


def _flatten(t, sign, terms, const):
    if z3.is_int_value(t):
        const[0] += sign * t.as_long()
    elif z3.is_add(t):
        for c in t.children():
            _flatten(c, sign, terms, const)
    elif z3.is_sub(t) and len(t.children()) == 2:
        _flatten(t.children()[0], sign, terms, const)
        _flatten(t.children()[1], -sign, terms, const)
    else:
        terms.append((sign, t))


def _diff(hi, lo):
    """hi - lo with common summands cancelled *structurally* (z3.simplify would rewrite element reads into
    nth_i/nth_u case splits that no longer match the terms produced by the code)"""
    if isinstance(hi, int) and isinstance(lo, int):
        return IntVal(hi - lo)
    hi = hi if z3.is_expr(hi) else IntVal(hi)
    lo = lo if z3.is_expr(lo) else IntVal(lo)
    terms, const = [], [0]
    _flatten(hi, 1, terms, const)
    _flatten(lo, -1, terms, const)
    rest = []
    for sg, t in terms:
        for k, (sg2, t2) in enumerate(rest):
            if sg2 == -sg and t2.eq(t):
                rest.pop(k)
                break
        else:
            rest.append((sg, t))
    out = None
    for sg, t in rest:
        if out is None:
            out = t if sg > 0 else -t
        else:
            out = out + t if sg > 0 else out - t
    if out is None:
        return IntVal(const[0])
    return out + const[0] if const[0] else out


def any_(z):
    return SeqV(z, 'any')


def z_of(v):
    if isinstance(v, SeqV):
        return v.z
    if isinstance(v, Tup) and all(is_intlike(i) for i in v.items):
        return mk_seq(v.items)
    if isinstance(v, bytes):
        return mk_seq(list(v))
    if isinstance(v, z3.SeqRef):
        return v
    raise Unsupported('not a sequence: %r' % (v,))


class XNS:
    """namespace visible as `X` in contracts."""
    __pyvc_ns__ = True

    # X.690 8.1.2 identifier octets
    @staticmethod
    def b128(ex, n):
        n = toint(n)
        return any_(Concat(b128hi(n / 128), Unit(n % 128)))

    @staticmethod
    def b128hi(ex, n):
        return any_(b128hi(toint(n)))

    @staticmethod
    def ident(ex, cls, pc, num):
        cls, pc, num = toint(cls), toint(pc), toint(num)
        long_form = Concat(Unit(cls + pc + 31), Concat(b128hi(num / 128), Unit(num % 128)))
        return any_(If(num < 31, Unit(cls + pc + num), long_form))

    # X.690 8.1.3 length octets, definite minimal form (10.1)
    @staticmethod
    def be256(ex, n):
        return any_(be256(toint(n)))

    @staticmethod
    def length_def(ex, n):
        n = toint(n)
        return any_(If(n < 128, Unit(n), Concat(Unit(128 + Length(be256(n))), be256(n))))

    @staticmethod
    def val256(ex, s):
        return val256(z_of(s))

    @staticmethod
    def b128cat(ex, s, lo, n):
        """b128(s[lo]) + ... + b128(s[lo+n-1]): subidentifier octets of consecutive arcs (X.690 8.19)"""
        return any_(b128cat(z_of(s), toint(lo), toint(n)))

    @staticmethod
    def be_val(ex, s, lo, n):
        """value of s[lo:lo+n] read as a big-endian base-256 number"""
        return be_val(z_of(s), toint(lo), toint(n))

    @staticmethod
    def b128_val(ex, s, lo, n):
        """value of s[lo:lo+n] read as base-128 digits (bit 8 of each octet ignored), X.690 8.1.2.4 / 8.19"""
        return b128_val(z_of(s), toint(lo), toint(n))

    @staticmethod
    def val128(ex, s):
        return val128(z_of(s))

    @staticmethod
    def inr(ex, s):
        """every element in range(256) (uninterpreted predicate; homomorphism facts are added by the
        executor at construction sites, see pyvc.core.inr)"""
        from pyvc.core import inr
        return inr(z_of(s))

    @staticmethod
    def all_ge(ex, s, lo):
        z = z_of(s)
        j = Int('age.j')
        return ForAll([j], Implies(And(j >= 0, j < Length(z)), z[j] >= toint(lo)))

    @staticmethod
    def all_tags_valid(ex, tags):
        """every (class, format, number) record is a valid tag"""
        i = Int('atv.i')
        c, f, n = tags.cols
        return ForAll([i], Implies(And(i >= 0, i < Length(c)),
                                   And(Or(c[i] == 0, c[i] == 64, c[i] == 128, c[i] == 192),
                                       Or(f[i] == 0, f[i] == 32), n[i] >= 0)))

    @staticmethod
    def all_nonneg(ex, s):
        """every element >= 0 (uninterpreted predicate `nonneg`; homomorphism facts added here for literal concat shapes)"""
        return nonneg(z_of(s))

    @staticmethod
    def seq(ex, *items):
        return any_(mk_seq(items))

    @staticmethod
    def empty(ex):
        return any_(Empty(S))

    @staticmethod
    def cat(ex, *parts):
        from pyvc.core import inr_fact_concat
        z = None
        for p in parts:
            zp = z_of(p)
            if z is None:
                z = zp
            else:
                z2 = Concat(z, zp)
                ex.pc.append(inr_fact_concat(z2, z, zp))
                z = z2
        return any_(z if z is not None else Empty(S))

    @staticmethod
    def fold256(ex, a, s):
        """((a*256 + s[0])*256 + s[1])... : big-endian digits folded onto the accumulator a (a = -1: sign extension)"""
        return fold256(toint(a), z_of(s))

    @staticmethod
    def sub(ex, s, lo, hi):
        """s[lo:hi] for 0 <= lo <= hi (z3 extract; out-of-range clamps like python)"""
        z = z_of(s)
        lo, hi = toint(lo), toint(hi)
        n = _diff(hi, lo)
        if concrete(n) is None and not ex.feasible(n < 0):
            return any_(z3.Extract(z, lo, n))        # hi >= lo on this path: plain extract (helps the solver)
        return any_(z3.Extract(z, lo, If(n > 0, n, IntVal(0))))

    @staticmethod
    def lemma_extract_concat(ex, d, s, m, e):
        """sequence theory: for 0 <= s <= m <= e <= len(d):  d[s:m] + d[m:e] == d[s:e]"""
        z = z_of(d)
        s, m, e = toint(s), toint(m), toint(e)
        return Implies(And(0 <= s, s <= m, m <= e, e <= Length(z)),
                       Concat(z3.Extract(z, s, m - s), z3.Extract(z, m, e - m)) == z3.Extract(z, s, e - s))

    @staticmethod
    def enc_chunk(ex, s):
        """the (unspecified here) encoding of one segment: whatever encodeFun returns for it"""
        return any_(enc_chunk(z_of(s)))

    @staticmethod
    def segments_upto(ex, s, pos, m):
        """encodings of the segments s[0:m], s[m:2m], ... that start before pos, concatenated"""
        return any_(upto(z_of(s), toint(pos), toint(m)))

    @staticmethod
    def multiple_of(ex, pos, m):
        return multiple(toint(pos), toint(m))

    @staticmethod
    def lemma_segments_step(ex, s, pos, m):
        """definitions of segments_upto and multiple_of unfolded once at pos + m"""
        z, pos, m = z_of(s), toint(pos), toint(m)
        return Implies(And(pos >= 0, m > 0),
                       And(upto(z, pos + m, m) == Concat(upto(z, pos, m), enc_chunk(py_slice(z, pos, pos + m))),
                           multiple(pos + m, m) == multiple(pos, m)))

    @staticmethod
    def lemma_fold256_step(ex, a, s):
        """definition of fold256 unfolded once: for non-empty s, fold256(a, s) == fold256(256*a + s[0], s[1:])"""
        z = z_of(s)
        a = toint(a)
        return Implies(Length(z) > 0,
                       fold256(a, z) == fold256(256 * a + z[0], z3.Extract(z, IntVal(1), Length(z) - 1)))

    @staticmethod
    def lemma_extract_extract(ex, d, b, l, c, k):
        """sequence theory: for 0 <= b, b + l <= len(d), 0 <= c, 0 <= k, c + k <= l:  d[b:b+l][c:c+k] == d[b+c:b+c+k]"""
        z = z_of(d)
        b, l, c, k = toint(b), toint(l), toint(c), toint(k)
        return Implies(And(0 <= b, b + l <= Length(z), 0 <= c, 0 <= k, c + k <= l, 0 <= l),
                       z3.Extract(z3.Extract(z, b, l), c, k) == z3.Extract(z, b + c, k))

    @staticmethod
    def implies(ex, a, b):
        from pyvc.core import b_implies, truthy
        return b_implies(truthy(a), truthy(b))

    @staticmethod
    def ite(ex, c, a, b):
        from pyvc.core import truthy
        return ex.ite(truthy(c), a, b)

    # ---- builtins (A-BUILTIN) ---------------------------------------------------
    @staticmethod
    def pow2(k):
        ck = concrete(k)
        if ck is not None:
            return IntVal(2 ** ck) if ck >= 0 else IntVal(1)
        return pow2(toint(k))

    @staticmethod
    def pow2f(ex, k):
        return XNS.pow2(k)

    @staticmethod
    def bit_length(v):
        """int.bit_length (term only; the defining facts are bit_length_axioms)."""
        return bit_length_f(v)

    @staticmethod
    def bit_length_axioms(v):
        """CPython docs: for nonzero x, 2**(k-1) <= abs(x) < 2**k; bit_length(0) == 0; plus the derived
        linear facts bit_length(a) - 1 <= bit_length(a - 1) <= bit_length(a) for a > 0 (A-BUILTIN,
        cross-checked against CPython on every run)."""
        r = bit_length_f(v)
        a = If(v >= 0, v, -v)
        return And(r >= 0, (v == 0) == (r == 0), bit_length_f(-v) == r, bit_length_f(a) == r,
                   Implies(v != 0, And(pow2(r - 1) <= a, a < pow2(r), pow2(r) == 2 * pow2(r - 1))),
                   Implies(a > 0, And(bit_length_f(a - 1) <= r, r <= bit_length_f(a - 1) + 1,
                                      bit_length_f(a - 1) >= 0, (a == 1) == (bit_length_f(a - 1) == 0))),
                   Implies(a < 128, r <= 7), Implies(a >= 128, r >= 8))

    @staticmethod
    def sbits(ex, v):
        """number of bits of the minimal two's complement representation of v (X.690 8.3)"""
        v = toint(v)
        a = If(v >= 0, v, -v - 1)
        ex.assume(XNS.bit_length_axioms(v))
        ex.assume(XNS.bit_length_axioms(a))
        return bit_length_f(a) + 1

    @staticmethod
    def twos_len(ex, v):
        """length of the minimal two's complement contents octets (8.3.2)"""
        return (XNS.sbits(ex, v) + 7) / 8

    @staticmethod
    def twos_val(ex, s):
        z = z_of(s)
        n = Length(z)
        return If(n == 0, IntVal(0), val256(z) - If(z[0] >= 128, XNS.pow2(8 * n), IntVal(0)))

    @staticmethod
    def int_to_bytes(ex, v, n, signed):
        """int.to_bytes(n, 'big', signed=...): OverflowError unless v fits, i.e. (CPython) unless
        v == 0 or 8n >= minimal width; result has n octets in range(256) and denotes v."""
        from pyvc.core import inr
        sg = signed if isinstance(signed, bool) else None
        if sg is None:
            raise Unsupported('symbolic signed flag')
        if not ex.choose(n >= 0, 'to_bytes.len'):
            raise _Raise(ExcV('ValueError'))
        if sg:
            fits = Or(v == 0, 8 * n >= XNS.sbits(ex, v))
        else:
            ex.assume(XNS.bit_length_axioms(v))
            if not ex.choose(v >= 0, 'to_bytes.neg'):
                raise _Raise(ExcV('OverflowError'))
            fits = 8 * n >= bit_length_f(v)
        if not ex.choose(fits, 'to_bytes.fits'):
            raise _Raise(ExcV('OverflowError'))
        r = ex.fresh('to_bytes', S)
        ex.assume(Length(r) == n)
        ex.assume(inr(r))
        rv = SeqV(r, 'bytes')
        if sg:
            ex.assume(XNS.twos_val(ex, rv) == v)
        else:
            ex.assume(val256(r) == v)
        return rv

    @staticmethod
    def int_from_bytes(ex, s, signed):
        z = z_of(s)
        if signed:
            return XNS.twos_val(ex, s)
        return val256(z)


X = XNS()


# ---- BIT STRING: bits as a sequence of 0/1, packed eight to the octet, segments of c bits --------------------------------
zeros = RecFunction('zeros', I, S)
_k = Int('_k')
RecAddDefinition(zeros, [_k], If(_k <= 0, Empty(S), Concat(Unit(IntVal(0)), zeros(_k - 1))))
pack8 = z3.Function('pack8', S, S)          # octets of a bit sequence whose length is a multiple of 8 (most significant bit first)
_c = Int('_c')
segs_from = RecFunction('bit_segments_from', S, I, I, S)
RecAddDefinition(segs_from, [_s, _pos, _c],
                 If(z3.Or(_pos >= Length(_s), _c <= 0, _pos < 0), Empty(S),
                    Concat(enc_chunk(py_slice(_s, _pos, If(_pos + _c <= Length(_s), _pos + _c, Length(_s)))),
                           segs_from(_s, _pos + _c, _c))))


def _bit_segments_from(ex, s, pos, c):
    """encodings of the segments s[pos:pos+c], s[pos+c:pos+2c], ... up to the end of s (the last one shorter), concatenated"""
    return any_(segs_from(z_of(s), toint(pos), toint(c)))


def _lemma_bit_segments_step(ex, s, pos, c):
    """definition of bit_segments_from unfolded once at pos"""
    z, pos, c = z_of(s), toint(pos), toint(c)
    n = Length(z)
    nxt = If(pos + c <= n, pos + c, n)
    return Implies(And(pos >= 0, pos < n, c > 0),
                   And(segs_from(z, pos, c) == Concat(enc_chunk(py_slice(z, pos, nxt)), segs_from(z, pos + c, c)),
                       segs_from(z, nxt, c) == segs_from(z, pos + c, c)))


def _lemma_prefix_slice(ex, whole, prefix, lo, hi):
    """a slice that ends inside a prefix of a sequence is the same slice of the prefix"""
    w, p, lo, hi = z_of(whole), z_of(prefix), toint(lo), toint(hi)
    return Implies(And(z3.Extract(w, IntVal(0), Length(p)) == p, Length(p) <= Length(w), 0 <= lo, lo <= hi, hi <= Length(p)),
                   py_slice(w, lo, hi) == py_slice(p, lo, hi))


X.bit_segments_from = staticmethod(_bit_segments_from)
X.lemma_bit_segments_step = staticmethod(_lemma_bit_segments_step)
X.lemma_prefix_slice = staticmethod(_lemma_prefix_slice)
X.zeros = staticmethod(lambda ex, k: any_(zeros(toint(k))))
X.pack8 = staticmethod(lambda ex, s: any_(pack8(z_of(s))))


# ---- two's complement digits of an integer, least significant first to most: the recursion of X.690 8.3 "as few octets as
# possible" before the sign octet is settled: digits(e) = digits(e >> 8) ++ [e & 255], nothing for 0 and -1
sdigits = RecFunction('sdigits256', I, S)
_e = Int('_e')
RecAddDefinition(sdigits, [_e], If(z3.Or(_e == 0, _e == -1), Empty(S), Concat(sdigits(_e / 256), Unit(_e % 256))))


def _sdigits(ex, e):
    return any_(sdigits(toint(e)))


def _lemma_sdigits_step(ex, e):
    e = toint(e)
    return Implies(Not(z3.Or(e == 0, e == -1)), sdigits(e) == Concat(sdigits(e / 256), Unit(e % 256)))


def _lemma_be256_step(ex, m):
    m = toint(m)
    return Implies(m > 0, be256(m) == Concat(be256(m / 256), Unit(m % 256)))


def _lemma_pow2_step(ex, k):
    k = toint(k)
    return Implies(k >= 0, pow2(k + 1) == 2 * pow2(k))


X.sdigits = staticmethod(_sdigits)
X.lemma_sdigits_step = staticmethod(_lemma_sdigits_step)
X.lemma_be256_step = staticmethod(_lemma_be256_step)
X.lemma_pow2_step = staticmethod(_lemma_pow2_step)


def _lemma_sdigits_base(ex):
    return And(sdigits(IntVal(0)) == Empty(S), sdigits(IntVal(-1)) == Empty(S))


X.lemma_sdigits_base = staticmethod(_lemma_sdigits_base)
