#!/usr/bin/env python3
"""copy confirmed mutants from <src>/<prop>/<m>/ to /verif/seeded/<prop>-<m>/ with a meta.json"""
import json, os, shutil, subprocess, sys
src = sys.argv[1]
for prop in sorted(os.listdir(src)):
    for m in sorted(os.listdir(os.path.join(src, prop))):
        d = os.path.join(src, prop, m)
        if not os.path.exists(os.path.join(d, 'demo.py')):
            continue
        out = subprocess.run(['tools/confirm_mutant.sh', d], capture_output=True, text=True).stdout.strip().split('\n')[-1]
        if not out.startswith('CONFIRMED'):
            print('skip', d, out)
            continue
        dst = os.path.join('seeded', '%s-%s' % (prop, m))
        os.makedirs(dst, exist_ok=True)
        for f in ('patch.diff', 'demo.py', 'note.txt'):
            if os.path.exists(os.path.join(d, f)):
                shutil.copy(os.path.join(d, f), os.path.join(dst, f))
        note = open(os.path.join(d, 'note.txt')).read().strip() if os.path.exists(os.path.join(d, 'note.txt')) else ''
        head = subprocess.check_output(['git', '-C', '/repo', 'log', '--format=%h', '-1']).decode().strip()
        meta = {'property': prop, 'origin': 'independent sub-agent given only the property text and a scratch worktree',
                'needs_to_manifest': note,
                'confirmed': {'repo_head': head, 'what_was_run': 'tools/confirm_mutant.sh: demo on clean worktree (passes), '
                              'git apply patch.diff, full test suite (1149 passed), demo (fails)', 'result': out}}
        json.dump(meta, open(os.path.join(dst, 'meta.json'), 'w'), indent=1)
        print('imported', dst)
