#!/bin/sh
# usage: tools/full_matrix.sh [jobs] [tier]  -> seeded/MATRIX.txt : one block per seeded change (check of its own property)
JOBS=${1:-4}
TMP=$(mktemp -d /tmp/pyvc-fm-XXXXXX)
ls -d seeded/C*-m* | while read D; do grep -q '"retired"' $D/meta.json || echo $D; done | xargs -P "$JOBS" -I{} sh -c '
  D={}; N=$(basename $D); P=${N%%-*}
  OUT=$(tools/run_mutant.sh $D/patch.diff $P 2>&1)
  { echo "### $N"; echo "$OUT" | grep -E "^== |obligation .* refuted|^   [a-z-]+:|patch does not apply" | cut -c1-200 | head -5; } > '"$TMP"'/$N.txt'
cat "$TMP"/*.txt > seeded/MATRIX.txt
rm -rf "$TMP"
grep -c "exit=1" seeded/MATRIX.txt
