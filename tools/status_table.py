#!/usr/bin/env python3
"""Generate the per-property status tables of DESIGN.md section 11 from the registry, the evidence files and
seeded/MATRIX.txt.   usage: python3-vt tools/status_table.py > /tmp/status.md"""
import json, os, re, sys, collections
sys.path.insert(0, os.path.dirname(os.path.dirname(os.path.abspath(__file__))))
from proofs import registry

def short(cid):
    return cid.split('::')[1]

print('| id | functions under contract (real code) | obligations discharged / generated | complete tables | bounded stand-ins (never counted as proved) |')
print('|---|---|---|---|---|')
for pid in sorted(registry.PROPS):
    p = registry.PROPS[pid]
    ev = json.load(open('evidence/%s.json' % pid))
    cov = ev['coverage']
    fns = sorted({f['target'].split('::')[1] for f in cov.get('functions_under_contract', [])})
    st = ', '.join('%s (%s)' % (s['checks'], s['bound'][:70]) for s in p['standins'])
    print('| %s | %s | %s / %s | %s | %s |' % (pid, '; '.join(fns) or '-', cov.get('discharged'), cov.get('obligations'),
                                           ', '.join(p['tables']) or '-', st or '-'))
print()
print('| seeded change | what it breaks | caught by |')
print('|---|---|---|')
blocks = re.split(r'^### ', open('seeded/MATRIX.txt').read(), flags=re.M)[1:]
for b in blocks:
    lines = b.strip().split('\n')
    name = lines[0].strip()
    note = open('seeded/%s/note.txt' % name).read().strip().split('\n') if os.path.exists('seeded/%s/note.txt' % name) else ['']
    first = next((l for l in note if l.strip()), '')[:110]
    caught = []
    for l in lines[1:]:
        m = re.match(r'\s+obligation (\S+) refuted', l)
        if m:
            caught.append('obligation `%s`' % m.group(1).split('::')[1])
        m = re.match(r'\s+([a-z-]+): (.*)', l)
        if m:
            caught.append('stand-in %s' % m.group(1))
    ex = re.search(r'exit=(\d)', b)
    c = collections.Counter(caught)
    print('| %s | %s | %s |' % (name, first.replace('|', '/'), ('; '.join(sorted(c)) if ex and ex.group(1) == '1' else 'MISSED (exit %s)' % (ex.group(1) if ex else '?'))))
