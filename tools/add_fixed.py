#!/usr/bin/env python3
"""usage: tools/add_fixed.py <property> <commit> <what failed>   -- appends a `fixed:` line to known_findings.json
(never called by a check: the file is only edited by hand / by this helper, and committed)"""
import json, sys
p = 'known_findings.json'
d = json.load(open(p))
line = 'fixed: property=%s %s %s' % (sys.argv[1], sys.argv[2], sys.argv[3])
if not any(x.split()[2] == sys.argv[2] for x in d['fixed']):
    d['fixed'].append(line)
    json.dump(d, open(p, 'w'), indent=1)
    print('added', line[:100])
else:
    print('already there')
