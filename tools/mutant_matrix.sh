#!/bin/sh
# usage: tools/mutant_matrix.sh <dir with <prop>/<m>/patch.diff> [jobs]  -> one block per (mutant, property)
DIR=$1
TMP=$(mktemp -d /tmp/pyvc-matrix-XXXXXX)
for PD in "$DIR"/*/*/patch.diff; do
  M=$(basename $(dirname "$PD")); P=$(basename $(dirname $(dirname "$PD")))
  ( OUT=$(tools/run_mutant.sh "$PD" $P 2>&1); { echo "### $P/$M"; echo "$OUT" | grep -E "^== |obligation .* refuted|^   [a-z-]+:" | cut -c1-220 | head -6; } > "$TMP/$P-$M.txt" ) &
done
wait
cat "$TMP"/*.txt
rm -rf "$TMP"
