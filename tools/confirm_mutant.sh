#!/bin/sh
# usage: tools/confirm_mutant.sh <dir with patch.diff demo.py>  -> prints CONFIRMED or the reason it is not
D=$(readlink -f "$1")
WT=/tmp/wt_confirm_$$
git -C /repo worktree add -q "$WT" HEAD || exit 3
cd "$WT"
fail() { echo "NOT CONFIRMED: $1"; cd /; git -C /repo worktree remove --force "$WT"; exit 1; }
mkdir -p mutants/m && cp "$D"/demo.py mutants/m/demo.py
/venv/bin/python mutants/m/demo.py >/dev/null 2>&1 || fail "demo fails on the clean tree"
git apply "$D/patch.diff" || fail "patch does not apply to HEAD"
T=$(/venv/bin/python -m pytest -q -p no:cacheprovider 2>&1 | tail -1)
echo "$T" | grep -q "^1149 passed" || fail "test suite with mutant: $T"
/venv/bin/python mutants/m/demo.py >/dev/null 2>&1 && fail "demo passes with the mutant applied"
echo "CONFIRMED: suite '$T'; demo fails with the mutant, passes without"
cd /; git -C /repo worktree remove --force "$WT"
