#!/usr/bin/env python3
"""Regenerate the two generated tables of DESIGN.md section 11 in place (between the GENERATED markers).
usage: python3-vt tools/update_design_tables.py"""
import os, subprocess, sys
root = os.path.dirname(os.path.dirname(os.path.abspath(__file__)))
out = subprocess.check_output([sys.executable, os.path.join(root, 'tools', 'status_table.py')], cwd=root, text=True)
t1, t2 = out.strip().split('\n\n', 1)
p = os.path.join(root, 'DESIGN.md')
s = open(p).read()
for name, text in (('functions', t1), ('matrix', t2)):
    a, b = '<!-- GENERATED:%s -->' % name, '<!-- /GENERATED:%s -->' % name
    i, j = s.index(a) + len(a), s.index(b)
    s = s[:i] + '\n' + text.strip() + '\n' + s[j:]
open(p, 'w').write(s)
print('DESIGN.md tables regenerated')
