#!/bin/sh
# usage: tools/seed_sweep.sh "<seeds>" "<props>" [jobs]   (run from a snapshot: vp run -- tools/seed_sweep.sh "4 5 6" "C01 C02")
# thorough tier with other seeds; evidence and replay files go to ./sweep/ (never to evidence/)
SEEDS=${1:-"4 5 6"}
PROPS=${2:-"C01 C02 C03 C04 C06 C07 C08 C09 C10 C12 C16 C17"}
JOBS=${3:-4}
mkdir -p sweep
for SEED in $SEEDS; do
  for P in $PROPS; do echo $P; done | xargs -P "$JOBS" -I{} sh -c "VERIF_SEED=$SEED PYVC_NO_MATRIX=1 PYVC_EVIDENCE_DIR=sweep/ev$SEED PYVC_REPLAY_DIR=sweep/replay$SEED ./checks/check {} --tier thorough > sweep/{}-seed$SEED.txt 2>&1; echo \"seed=$SEED {} exit=\$?\""
done
