#!/bin/sh
# usage: tools/run_mutant.sh <patch.diff> <Cxx> [<Cyy> ...]
# applies the patch to a scratch copy of /repo (never to /repo itself), runs the given checks against it
# and prints the VIOLATION / summary lines.  Scratch copy, evidence and replay files of the run are removed.
PATCH=$(readlink -f "$1"); shift
SCR=$(mktemp -d /tmp/pyvc-mut-XXXXXX)
cd /repo && git archive HEAD pyasn1 | tar -x -C "$SCR" || exit 3
# include uncommitted state of /repo? no: mutants are defined against HEAD
(cd "$SCR" && git init -q . 2>/dev/null; patch -p1 -s < "$PATCH") || { echo "patch does not apply"; rm -rf "$SCR"; exit 3; }
cd /verif
for P in "$@"; do
  PYVC_REPO="$SCR" PYVC_EVIDENCE_DIR="$SCR/evidence" PYVC_REPLAY_DIR="../$SCR/replay" ./checks/check "$P" --tier quick > "$SCR/out.$P" 2>&1
  RC=$?
  echo "== $P exit=$RC  $(grep -c '^VIOLATION' "$SCR/out.$P") violation lines"
  grep -A1 '^VIOLATION' "$SCR/out.$P" | grep -v '^--' | cut -c1-260 | head -8
  tail -1 "$SCR/out.$P" | cut -c1-200
done
rm -rf "$SCR"
