#!/usr/bin/env python3
"""Check driver:  ./checks/check <Cxx> [--tier quick|thorough] [--replay file]

exit 0  property held on everything explored (or only recorded KNOWN-FINDINGs fired)
exit 1  at least one line  VIOLATION property=<id> replay=<path>[ no-failing-input-found]
exit 3  the checker itself broke (never looks like a finding)
"""
import argparse
import hashlib
import importlib
import json
import os
import subprocess
import sys
import tempfile
import time
import traceback

HERE = os.path.dirname(os.path.abspath(__file__))
ROOT = os.path.dirname(HERE)
sys.path.insert(0, ROOT)

REPO = os.environ.get('PYVC_REPO', '/repo')
VENV_PY = os.environ.get('PYVC_VENV_PY', '/venv/bin/python')


def sub_env():
    e = dict(os.environ)
    e['PYTHONPATH'] = REPO + ':' + ROOT
    e['PYTHONDONTWRITEBYTECODE'] = '1'
    e['PYVC_REPO'] = REPO
    return e


def load_known():
    with open(os.path.join(ROOT, 'known_findings.json')) as f:
        return json.load(f)


def run_standin(spec, tier, seed):
    """spec: dict(module=..., checks=..., args=[...]) -> result dict (failures list inside)"""
    fd, out = tempfile.mkstemp(suffix='.json', prefix='pyvc-standin-')
    os.close(fd)
    try:
        cmd = [VENV_PY, '-m', spec['module'], spec['checks'], '--tier', tier, '--seed', str(seed), '--out', out]
        cmd += spec.get('args', [])
        t0 = time.time()
        p = subprocess.run(cmd, cwd=ROOT, env=sub_env(), capture_output=True, text=True,
                           timeout=spec.get('timeout', 3000))
        if p.returncode != 0:
            return {'error': 'stand-in exited %d: %s' % (p.returncode, (p.stderr or p.stdout)[-1500:]),
                    'failures': [], 'evaluations': 0, 'distinct_nontrivial': 0}
        with open(out) as f:
            r = json.load(f)
        r['wall_s'] = time.time() - t0
        return r
    finally:
        try:
            os.unlink(out)
        except OSError:
            pass


def run_tables(names):
    """finite table / structural obligations evaluated on the real imported modules (kind E, D1 scan)"""
    cmd = [VENV_PY, '-m', 'pyvc.tables'] + names
    p = subprocess.run(cmd, cwd=ROOT, env=sub_env(), capture_output=True, text=True, timeout=600)
    if p.returncode != 0:
        raise RuntimeError('table obligations crashed: ' + (p.stderr or p.stdout)[-1500:])
    return json.loads(p.stdout)


def match_finding(expr, f):
    try:
        return bool(eval(expr, {'__builtins__': {'any': any, 'all': all, 'len': len, 'set': set, 'str': str,
                                                 'isinstance': isinstance, 'dict': dict, 'list': list}}, {'f': f}))
    except Exception:
        return False


def replay_witness(w):
    """run a recorded witness natively: -> True if the defect still reproduces"""
    cmd = [VENV_PY, '-m', 'replayers.run', json.dumps(w)]
    p = subprocess.run(cmd, cwd=ROOT, env=sub_env(), capture_output=True, text=True, timeout=300)
    if p.returncode not in (0, 1):
        raise RuntimeError('witness replay crashed: ' + (p.stderr or p.stdout)[-800:])
    return p.returncode == 1, (p.stdout or '').strip()[-600:]


def write_replay(prop, kind, payload):
    os.makedirs(os.path.join(ROOT, os.environ.get('PYVC_REPLAY_DIR', 'replay')), exist_ok=True)
    h = hashlib.sha256(json.dumps(payload, sort_keys=True, default=str).encode()).hexdigest()[:10]
    path = os.path.join(ROOT, os.environ.get('PYVC_REPLAY_DIR', 'replay'), '%s-%s-%s.json' % (prop, kind, h))
    with open(path, 'w') as f:
        json.dump(dict(payload, property=prop, kind=kind), f, indent=1, default=str)
    return os.path.relpath(path, ROOT)


def do_replay(prop, path):
    with open(os.path.join(ROOT, path) if not os.path.isabs(path) else path) as f:
        rp = json.load(f)
    if rp['kind'] == 'standin':
        cmd = [VENV_PY, '-m', rp['module'], rp['failure']['check'], '--replay', json.dumps(rp['failure'])]
        p = subprocess.run(cmd, cwd=ROOT, env=sub_env(), capture_output=True, text=True, timeout=600)
        print(p.stdout.strip())
        if p.returncode == 1:
            print('VIOLATION property=%s replay=%s' % (prop, path))
            return 1
        return 0 if p.returncode == 0 else 3
    if rp['kind'] == 'obligation':
        if rp.get('witness'):
            still, out = replay_witness(rp['witness'])
            print(out)
            if still:
                print('VIOLATION property=%s replay=%s' % (prop, path))
                return 1
            return 0
        print('obligation %s: no concrete failing input is attached; solver output follows' % rp['obligation'])
        print(rp.get('solver_model', '')[:2000])
        print('VIOLATION property=%s replay=%s no-failing-input-found' % (prop, path))
        return 1
    return 3


def main():
    ap = argparse.ArgumentParser()
    ap.add_argument('prop')
    ap.add_argument('--tier', default=os.environ.get('VERIF_TIER', 'quick'))
    ap.add_argument('--replay')
    a = ap.parse_args()
    prop = a.prop
    seed = int(os.environ.get('VERIF_SEED', '0'))
    if a.replay:
        return do_replay(prop, a.replay)
    t0 = time.time()
    if a.tier == 'thorough' and not os.environ.get('PYVC_NO_MATRIX'):
        os.environ['PYVC_CROSSCHECK'] = '1'      # second opinion from cvc5 on the obligations z3 proved
    from proofs import registry
    from pyvc import verify
    P = registry.PROPS[prop]
    known = load_known()
    kf_obl = {}          # oid -> finding
    for kf in known['findings']:
        # a recorded finding is keyed by its obligation / failure predicate, not by the property whose check meets it
        for oid in kf.get('obligations', []):
            kf_obl[oid] = kf
    # ---- 1. contracts (kinds A/B/C/D3) -------------------------------------------------
    pairs = list(P.get('contracts', []))
    os.environ['PYVC_EXCLUSIONS'] = json.dumps({oid: [kf['id'], kf['exclude']] for oid, kf in kf_obl.items()})
    results = verify.run_contracts(pairs) if pairs else []
    # an `unknown` is a statement about the solver budget, not about the code: contracts with an open obligation are
    # run once more, one at a time and with a six-fold budget, before anything is reported as undecided
    again = [(i, pairs[i]) for i, r in enumerate(results)
             if any(o['verdict'] == 'unknown' and not k.endswith('#exit-reachable')
                    for k, o in r.get('obligations', {}).items())]
    if again:
        env = dict(sub_env(), PYVC_TIMEOUT_MS='60000', PYTHONPATH=ROOT)
        for i, (modname, cid) in again:
            code = ('import json,sys; sys.path.insert(0, %r); from pyvc import verify; '
                    'print(json.dumps(verify.run_contracts([(%r, %r)], jobs=1)[0], default=str))' % (ROOT, modname, cid))
            try:
                p = subprocess.run([sys.executable, '-c', code], cwd=ROOT, env=env, capture_output=True, text=True,
                                   timeout=3000)
                r2 = json.loads(p.stdout.strip().split('\n')[-1])
                r2['retried_with_larger_budget'] = True
                results[i] = r2
            except Exception:
                pass
    obligations = {}
    undecided = []
    functions = []
    solver_time = 0.0
    for r in results:
        functions.append({'contract': r['contract'], 'target': r.get('target'), 'status': r['status'],
                          'paths': r.get('paths'), 'source_digest': r.get('source_digest'),
                          'reason': r.get('reason'), 'assumed': r.get('assumed'), 'bounded': r.get('bounded')})
        if r['status'] != 'ok':
            undecided.append({'contract': r['contract'], 'status': r['status'], 'reason': r.get('reason')})
        for oid, o in r['obligations'].items():
            if r.get('bounded'):
                o['bounded'] = r['bounded']      # contract over a bounded instance of the function: never counted as proved
            obligations[oid] = o
            solver_time += o.get('time_s', 0.0)
    # ---- 2. finite tables / structural obligations (kinds E, D1, C) --------------------
    tab = run_tables(P['tables']) if P.get('tables') else {'obligations': {}}
    for oid, o in tab['obligations'].items():
        obligations[oid] = o
    # ---- 3. verdicts ---------------------------------------------------------------------
    violations = []
    known_hits = {}
    for oid, o in sorted(obligations.items()):
        if '|kf:' in oid:
            continue
        if o['verdict'] in ('refuted', 'vacuous'):
            kf = kf_obl.get(oid)
            if kf is not None:
                variant = obligations.get('%s|kf:%s' % (oid, kf['id']))
                if variant is not None and variant['verdict'] == 'proved':
                    still, out = replay_witness(kf['witness'])
                    if still:
                        known_hits[kf['id']] = kf
                        o['known_finding'] = kf['id']
                        continue
            violations.append(('obligation', oid, o))
    # ---- 4. bounded stand-ins ---------------------------------------------------------------
    standins = []
    for sp in P.get('standins', []):
        r = run_standin(sp, a.tier, seed)
        if r.get('error'):
            raise RuntimeError(r['error'])
        fails = r.pop('failures')
        unmatched = []
        for f in fails:
            hits = explain_failure(known, prop, f)
            if hits:
                for h in hits:
                    known_hits[h['id']] = h
            else:
                unmatched.append(f)
        standins.append({'name': 'bounded:%s[%s]' % (sp['module'], sp['checks']), 'bound': sp.get('bound', ''),
                         'evaluations': r.get('evaluations', 0), 'distinct_nontrivial': r.get('distinct_nontrivial', 0),
                         'failures': len(fails), 'unlisted_failures': len(unmatched), 'wall_s': r.get('wall_s')})
        seen_keys = set()
        for f in unmatched:
            key = (f['check'], f['detail'][:50], tuple(f.get('features', [])))
            if key in seen_keys:
                continue
            seen_keys.add(key)
            violations.append(('standin', sp['module'], f))
    # ---- 5. report -------------------------------------------------------------------------
    for kid, kf in sorted(known_hits.items()):
        print('KNOWN-FINDING: property=%s %s: %s' % (prop, kid, kf['text']))
    nviol = 0
    for kind, where, item in violations[:25]:
        nviol += 1
        if kind == 'obligation':
            payload = {'obligation': where, 'verdict': item['verdict'], 'model': item.get('model'),
                       'solver_model': item.get('model_raw'), 'note': item.get('note'), 'path': item.get('path')}
            wit = try_concretise(where, item)
            if wit:
                payload['witness'] = wit
            rp = write_replay(prop, 'obligation', payload)
            tail = '' if wit else ' no-failing-input-found'
            print('VIOLATION property=%s replay=%s%s' % (prop, rp, tail))
            print('   obligation %s refuted; model: %s' % (where, json.dumps(item.get('model'), default=str)[:400]))
        else:
            rp = write_replay(prop, 'standin', {'module': where, 'failure': item})
            print('VIOLATION property=%s replay=%s' % (prop, rp))
            print('   %s: %s' % (item['check'], item['detail'][:200]))
    bounded_obl = {k: v for k, v in obligations.items() if '|kf:' not in k and v.get('bounded')}
    for cid in sorted({k.split('#')[0] for k in bounded_obl}):
        mine = {k: v for k, v in bounded_obl.items() if k.split('#')[0] == cid}
        standins.append({'name': 'bounded:contract %s' % cid, 'bound': list(mine.values())[0]['bounded'],
                         'evaluations': len(mine), 'distinct_nontrivial': len(mine),
                         'result': 'held' if all(v['verdict'] == 'proved' for v in mine.values()) else 'see obligations',
                         'wall_s': round(sum(v.get('time_s', 0.0) for v in mine.values()), 2)})
    main_obl = {k: v for k, v in obligations.items() if '|kf:' not in k and not v.get('bounded')}
    n_obl = len(main_obl)
    n_dis = sum(1 for o in main_obl.values() if o['verdict'] == 'proved')
    n_obl -= sum(1 for k, o in main_obl.items() if o['verdict'] == 'unknown' and k.endswith('#exit-reachable'))
    # the exit-reachable canary is a self-check of the machinery with a small budget (finding a *model* of a path
    # condition over sequences and recursive functions can take the solver long): left open it is reported in the
    # evidence, it does not make the property undecided
    canaries_open = [k for k, o in main_obl.items() if o['verdict'] == 'unknown' and k.endswith('#exit-reachable')]
    n_unknown = [k for k, o in main_obl.items() if o['verdict'] == 'unknown' and not k.endswith('#exit-reachable')]
    level = P.get('level', 'other')
    all_proved = (n_dis == n_obl and not undecided and n_obl > 0)
    if level == 'proof' and not all_proved:
        level_out = 'other'
    else:
        level_out = level
    backends = {}
    for o in main_obl.values():
        for b in o.get('backends', []):
            backends[b] = backends.get(b, 0) + 1
    samples = []
    for oid, o in sorted(main_obl.items())[:400]:
        samples.append({'obligation': oid, 'verdict': o['verdict'], 'instances': o.get('instances'),
                        'time_s': round(o.get('time_s', 0.0), 3), 'kind': o.get('kind'),
                        'known_finding': o.get('known_finding')})
    coverage = {
        'obligations': n_obl, 'discharged': n_dis,
        'checker_cmd': './checks/check %s --tier %s  (pyvc: python ast -> path-wise VCs -> z3 %s; finite tables by '
                       'complete evaluation under %s)' % (prop, a.tier, z3_version(), VENV_PY),
        'trusted_base': registry.TRUSTED_BASE + P.get('trusted', []),
        'functions_under_contract': functions,
        'undecided': undecided + [{'obligation': k, 'verdict': 'unknown'} for k in n_unknown],
        'refuted_known_findings': sorted(known_hits),
        'canaries_left_open': canaries_open,
        'backends': backends, 'solver_time_s': round(solver_time, 2),
        'bounded': standins,
        'paper_steps': P.get('paper', []),
        'extraction_dropped': ['docstrings/comments', '`if LOG:` blocks', 'python-2 branches of version switches'],
        'samples': samples,
        'evaluations': n_obl + sum(s['evaluations'] for s in standins),
        'distinct_nontrivial': n_obl + sum(s['distinct_nontrivial'] for s in standins),
        'rule': 'obligations are distinct by id; stand-in cases are distinct (type, value) pairs with a non-empty '
                'value, a tag stack or a constructed type',
        'explanation': P.get('explanation', ''),
        'exhaustive': False,
    }
    agreement = {'agree': 0, 'open': 0, 'disagree': 0}
    disagreements = []
    for oid, o in main_obl.items():
        for k, v in (o.get('cvc5') or {}).items():
            agreement[k] += v
        if (o.get('cvc5') or {}).get('disagree'):
            disagreements.append(oid)
    if os.environ.get('PYVC_CROSSCHECK'):
        coverage['two_solver_agreement'] = dict(agreement, note='cvc5 1.0.3 on the SMT-LIB text of the first two instances of '
                                                'every obligation z3 proved: agree = unsat, open = no answer in 5 s, '
                                                'disagree = sat', disagreeing=disagreements)
    if a.tier == 'thorough' and not os.environ.get('PYVC_NO_MATRIX'):
        coverage['mutant_kill_matrix'] = kill_matrix(prop)
        missed = [m['change'] for m in coverage['mutant_kill_matrix'] if m['outcome'] == 'missed']
        if missed:
            print('SELF-CHECK: seeded changes not detected by this check: %s' % ', '.join(missed))
    ev = {'property_id': prop, 'tier': a.tier, 'seed': seed, 'level': level_out, 'coverage': coverage,
          'assumptions': registry.ASSUMPTIONS + P.get('assumptions', []), 'wall_s': round(time.time() - t0, 2),
          'violations': nviol}
    evdir = os.environ.get('PYVC_EVIDENCE_DIR') or os.path.join(ROOT, 'evidence')
    os.makedirs(evdir, exist_ok=True)
    with open(os.path.join(evdir, prop + '.json'), 'w') as f:
        json.dump(ev, f, indent=1, default=str)
    print('%s: %d/%d obligations discharged, %d undecided, %d known findings, %d violations, stand-ins: %s  [%.1fs]' % (
        prop, n_dis, n_obl, len(undecided) + len(n_unknown), len(known_hits), nviol,
        ', '.join(['%s=%d' % (s['name'].split('[')[-1].rstrip(']'), s['evaluations']) for s in standins
                   if not s['name'].startswith('bounded:contract ')] +
                  (['bounded-contracts(%d)=%d' % (len([s for s in standins if s['name'].startswith('bounded:contract ')]),
                                                   sum(s['evaluations'] for s in standins if s['name'].startswith('bounded:contract ')))]
                   if any(s['name'].startswith('bounded:contract ') for s in standins) else [])) or 'none',
        time.time() - t0))
    if n_obl == 0 and not standins:
        print('checker error: zero obligations generated')
        return 3
    if nviol:
        return 1
    for oid in disagreements:
        print('UNDECIDED %s: z3 proved it, cvc5 reports a counter-model (solver disagreement)' % oid)
    if disagreements:
        return 2
    if undecided or n_unknown:
        # a contract could not be bound to the code any more, or an obligation stayed open: neither held nor violated
        for u in undecided:
            print('UNDECIDED %s: %s %s' % (u.get('contract'), u.get('status'), (u.get('reason') or '')[:200]))
        for k in n_unknown:
            print('UNDECIDED %s: solver gave no verdict' % k)
        return 2
    return 0


def kill_matrix(prop):
    """thorough tier: the recorded seeded changes of this property (seeded/<prop>-m*/patch.diff) are applied, one at a
    time, to a scratch copy of the current working tree of the repository and the quick check is run against that
    copy; a check that stays green on a change known to break the property is reported in the evidence."""
    import glob
    import shutil
    import tempfile
    out = []
    repo = os.environ.get('PYVC_REPO', '/repo')
    for d in sorted(glob.glob(os.path.join(ROOT, 'seeded', prop + '-m*'))):
        name = os.path.basename(d)
        try:
            with open(os.path.join(d, 'meta.json')) as f:
                if json.load(f).get('retired'):
                    out.append({'change': name, 'outcome': 'retired', 'why': 'no longer breaks the property on this tree '
                                                                           '(see seeded/%s/meta.json)' % name})
                    continue
        except (OSError, ValueError):
            pass
        scr = tempfile.mkdtemp(prefix='pyvc-km-')
        try:
            shutil.copytree(os.path.join(repo, 'pyasn1'), os.path.join(scr, 'pyasn1'))
            p = subprocess.run(['patch', '-p1', '-s', '-i', os.path.join(d, 'patch.diff')], cwd=scr, capture_output=True,
                               text=True)
            if p.returncode != 0:
                out.append({'change': name, 'outcome': 'not-applicable', 'why': 'patch does not apply to this tree'})
                continue
            env = dict(os.environ, PYVC_REPO=scr, PYVC_EVIDENCE_DIR=os.path.join(scr, 'evidence'),
                       PYVC_REPLAY_DIR=os.path.relpath(os.path.join(scr, 'replay'), ROOT), PYVC_NO_MATRIX='1')
            t = time.time()
            q = subprocess.run([sys.executable, os.path.join(ROOT, 'checks', 'run.py'), prop, '--tier', 'quick'], cwd=ROOT,
                               env=env, capture_output=True, text=True, timeout=1800)
            by = sorted({l.strip().split(' refuted')[0].split(':')[0][:110] for l in q.stdout.split('\n')
                         if l.startswith('   ')})[:4]
            out.append({'change': name, 'outcome': {1: 'detected', 0: 'missed'}.get(q.returncode, 'undecided(exit %d)' %
                                                                                   q.returncode),
                        'by': by, 'wall_s': round(time.time() - t, 1)})
        finally:
            shutil.rmtree(scr, ignore_errors=True)
    return out


def explain_failure(known, prop, f):
    """-> list of recorded findings that explain stand-in failure record f (empty: unlisted -> violation).
    A record whose `quirk` field names recorded quirks is explained only if *every* part is listed."""
    mine = list(known['findings'])
    q = f.get('quirk')
    if q:
        hits = []
        for part in q.split('+'):
            kfs = [kf for kf in mine if part in kf.get('quirks', [])]
            if not kfs:
                return []
            hits.append(kfs[0])
        return hits
    for kf in mine:
        for m in kf.get('standin_matches', []):
            if f['check'] in m['checks'] and match_finding(m['match'], f):
                return [kf]
    return []


def z3_version():
    try:
        import z3
        return z3.get_version_string()
    except Exception:
        return '?'


def try_concretise(oid, item):
    """build a native witness from the solver model where the contract declares how"""
    try:
        from proofs import registry
        fn = registry.CONCRETISERS.get(oid.split('#')[0])
        if fn is None or not item.get('model'):
            return None
        w = fn(oid, item['model'])
        if not w:
            return None
        still, out = replay_witness(w)
        if still:
            w['replay_output'] = out
            return w
    except Exception:
        return None
    return None


if __name__ == '__main__':
    try:
        sys.exit(main())
    except SystemExit:
        raise
    except BaseException:
        traceback.print_exc()
        print('checker crashed (exit 3): this is not a finding')
        sys.exit(3)
