"""Heap models used by contracts: byte streams (spec/streams in DESIGN.md 4.2).

A stream is the record (data, pos): `data` is the *eventual* complete content, `pos` the position.
Two behaviours of read():
  complete   io.BytesIO over all of `data`: read(n) returns min(n, rest) octets (all for n < 0)
  partial    a non-blocking / growing source: read(n) returns None (no data yet), or any k octets with
             0 <= k <= min(n, rest); k == 0 (b'') is returned only at the real end of `data` and means
             end-of-stream; the ghost flag `eof_signalled` records that it happened
seek() to a negative absolute position raises ValueError (io semantics); tell() returns pos.
Every read / seek is recorded in the ghost list `ops` for frame obligations.
"""
import z3
from z3 import And, Or, Not, If, IntVal, Length, Int, Bool

from pyvc.core import (Obj, SeqV, PSort, S, toint, concrete, _Raise, ExcV, Unsupported, truthy, seq_slice,
                       BoolSort, I, Const)


def _read(ex, self, n=-1):
    data = self.fields['data'].z
    pos = self.fields['pos']
    n = toint(n)
    rest = Length(data) - pos
    rest = If(rest < 0, IntVal(0), rest)
    mode = self.fields['__mode__']
    self.fields['__reads__'] = self.fields.get('__reads__', 0) + 1
    if mode == 'complete':
        k = If(n < 0, rest, If(n < rest, n, rest))
        k = z3.simplify(k)
    else:
        # a source of any kind: io.BufferedReader (a pipe, a socket file) refuses sizes below -1 ("read length must be
        # non-negative or -1"), raw streams read everything for any negative size -- a caller may rely on neither
        if ex.choose(n < -1, 'size-below-minus-one'):
            raise _Raise(ExcV('ValueError'))
        if ex.choose(ex.fresh('read.none', BoolSort()), 'read-none'):
            self.fields['none_seen'] = True      # ghost: the source said 'no data yet' at least once
            return None
        k = ex.fresh('read.k', I)
        ex.assume(And(k >= 0, k <= rest, Or(n < 0, k <= n)))
        # b'' for a non-empty request only at the real end of the data: end-of-stream signal
        ex.assume(z3.Implies(And(k == 0, n != 0), rest == 0))
        self.fields['eof_signalled'] = Or(self.fields['eof_signalled'], And(k == 0, n != 0))
    out = SeqV(z3.Extract(data, pos, k), 'bytes')
    self.fields['pos'] = pos + k
    return out


def _seek(ex, self, off=-1, whence=0):
    off = toint(off)
    w = concrete(whence)
    pos = self.fields['pos']
    data = self.fields['data'].z
    if w == 0:
        new = off
    elif w == 1:
        new = pos + off
    elif w == 2:
        if self.fields['__mode__'] != 'complete':
            # a growing / wrapped source: its "end" is the end of what it holds right now -- somewhere between the
            # position and the end of the eventual data (the caching wrapper: the end of its cache)
            avail = ex.fresh('seek.end.available', I)
            ex.assume(And(avail >= pos, avail <= Length(data)))
            new = avail + off
        else:
            new = Length(data) + off
    else:
        raise Unsupported('symbolic whence')
    if not ex.choose(new >= 0, 'seek-nonneg'):
        raise _Raise(ExcV('ValueError'))
    self.fields['pos'] = z3.simplify(new)
    return self.fields['pos']


def _tell(ex, self):
    return self.fields['pos']


class PStream(PSort):
    """symbolic stream positioned anywhere inside its data"""

    def __init__(self, mode='complete', bases=('BytesIO', 'IOBase'), extra_methods=None):
        self.mode = mode
        self.bases = bases
        self.extra = extra_methods or {}

    def make(self, ex, name):
        data = SeqV(Const(name + '.data', S), 'bytes')
        pos = Int(name + '.pos')
        ex.assume(And(pos >= 0, pos <= Length(data.z)))
        from pyvc.core import bytes_axiom
        ex.assume(bytes_axiom(data.z, name))
        methods = {'read': _read, 'seek': _seek, 'tell': _tell,
                   # an in-memory stream is seekable; any other source may or may not say so (the caching wrapper does)
                   'seekable': (lambda ex2, self: True) if self.mode == 'complete' else
                   (lambda ex2, self: ex2.fresh('stream.says.seekable', BoolSort()))}
        methods.update(self.extra)
        return Obj('Stream', {'data': data, 'pos': pos, '__mode__': self.mode, 'eof_signalled': z3.BoolVal(False),
                    'none_seen': False},
                   methods, self.bases, name=name)


IO_NS = {'__name__': 'io'}


# ---- mutable io.BytesIO -------------------------------------------------------------------------
def _bio_read(ex, self, n=-1):
    c = self.fields['content'].z
    pos = self.fields['pos']
    n = toint(n)
    rest = Length(c) - pos
    rest = If(rest < 0, IntVal(0), rest)
    k = z3.simplify(If(n < 0, rest, If(n < rest, n, rest)))
    out = SeqV(z3.Extract(c, pos, k), 'bytes')
    self.fields['pos'] = pos + k
    return out


def _bio_write(ex, self, b):
    from pyvc.core import inr, inr_fact_concat
    if b is None or not isinstance(b, SeqV):
        raise _Raise(ExcV('TypeError'))          # a bytes-like object is required
    if b.kind != 'bytes':
        raise _Raise(ExcV('TypeError'))
    c = self.fields['content'].z
    pos = self.fields['pos']
    n = Length(b.z)
    # io.BytesIO.write at pos <= len(content): overwrite / extend (no zero fill needed below the end)
    if not ex.choose(pos <= Length(c), 'bio-write-within'):
        raise Unsupported('BytesIO.write beyond the end (zero fill) is not modelled')
    if ex.choose(pos == Length(c), 'bio-write-append'):
        new = z3.Concat(c, b.z)
    else:
        head = z3.Extract(c, IntVal(0), pos)
        tail_from = pos + n
        tail = z3.Extract(c, tail_from, If(Length(c) - tail_from > 0, Length(c) - tail_from, IntVal(0)))
        new = z3.Concat(head, b.z, tail)
    self.fields['content'] = SeqV(new, 'bytes')
    self.fields['pos'] = pos + n
    return n


def _bio_seek(ex, self, off=-1, whence=0):
    off = toint(off)
    w = concrete(whence)
    pos = self.fields['pos']
    c = self.fields['content'].z
    new = off if w == 0 else (pos + off if w == 1 else Length(c) + off)
    if w == 0:
        if not ex.choose(new >= 0, 'seek-nonneg'):
            raise _Raise(ExcV('ValueError'))
    else:
        new = If(new < 0, IntVal(0), new)     # io.BytesIO clamps relative seeks at 0
    self.fields['pos'] = z3.simplify(new)
    return self.fields['pos']


def _bio_tell(ex, self):
    return self.fields['pos']


def _bio_getvalue(ex, self):
    return self.fields['content']


def _bio_truncate(ex, self, size=None):
    """io.BytesIO.truncate: cut the buffer at `size` (default: the current position); the position does not move;
    extending (size beyond the end) is not modelled"""
    c = self.fields['content'].z
    n = self.fields['pos'] if size is None else toint(size)
    if not ex.choose(n >= 0, 'truncate-nonneg'):
        raise _Raise(ExcV('ValueError'))
    if not ex.choose(n <= Length(c), 'truncate-within'):
        raise Unsupported('BytesIO.truncate beyond the end is not modelled')
    self.fields['content'] = SeqV(z3.Extract(c, IntVal(0), n), 'bytes')
    return n


BIO_METHODS = {'read': _bio_read, 'write': _bio_write, 'seek': _bio_seek, 'tell': _bio_tell,
               'getvalue': _bio_getvalue, 'truncate': _bio_truncate}


def new_bytesio(ex, initial=None):
    from pyvc.core import Empty
    if initial is None:
        content = SeqV(Empty(S), 'bytes')
    elif isinstance(initial, SeqV) and initial.kind == 'bytes':
        content = initial
    else:
        raise _Raise(ExcV('TypeError'))
    return Obj('BytesIO', {'content': content, 'pos': IntVal(0)}, BIO_METHODS, ('BytesIO', 'IOBase'),
               name='BytesIO!%d' % ex.fresh_ctr.setdefault('bio', 0))


class PBytesIO(PSort):
    def make(self, ex, name):
        content = SeqV(Const(name + '.content', S), 'bytes')
        pos = Int(name + '.pos')
        return Obj('BytesIO', {'content': content, 'pos': pos}, BIO_METHODS, ('BytesIO', 'IOBase'), name=name)
