"""setup_cmd: everything the checks need is on disk and importable (offline)."""
import os, subprocess, sys
sys.path.insert(0, os.path.dirname(os.path.dirname(os.path.abspath(__file__))))
import z3
from pyvc import core
from spec import smt, x690
x = z3.Int('x'); s = z3.Solver(); s.add(x > 1, x < 3); assert s.check() == z3.sat
assert x690.ident(0, 0, 31) == [31, 31] and x690.length_def(128) == [129, 128]
r = subprocess.run(['/venv/bin/python', '-c', 'import pyasn1.codec.ber.decoder, pyasn1.codec.der.encoder; print("ok")'],
                   env=dict(os.environ, PYTHONPATH=os.environ.get('PYVC_REPO', '/repo')), capture_output=True, text=True)
assert r.stdout.strip() == 'ok', r.stderr
from pyvc import selfcheck
selfcheck.main()
print('pyvc selftest ok: z3', z3.get_version_string())
