"""pyvc -- verification-condition generator for a documented subset of Python.

The function bodies are *never* copied: `extract()` parses the current working tree
under REPO with `ast` on every run and hands the FunctionDef node to `Executor`, which
executes it symbolically path by path (DFS re-execution over a decision list), cuts
loops at their invariants, replaces calls by callee contracts / models, and emits one
SMT query per path per obligation.  Queries are discharged by z3 (rlimit-bounded).

What extraction drops (reported in every evidence file):
  * docstrings / comments, * `if LOG:` blocks (debug logging), * nothing else.
A construct the executor does not support raises `Unsupported` -> the function is
reported `unsupported` (undecided), never silently skipped.
"""
import ast
import copy
import os
import sys
import time

import z3
from z3 import (And, Or, Not, Implies, If, IntVal, BoolVal, Int, Bool, Const, Length, Concat,
                Unit, Empty, SeqSort, IntSort, BoolSort, simplify, is_int_value, is_true, is_false)

REPO = os.environ.get('PYVC_REPO', '/repo')
I = IntSort()
S = SeqSort(I)

RLIMIT = int(os.environ.get('PYVC_RLIMIT', '0'))
TIMEOUT_MS = int(os.environ.get('PYVC_TIMEOUT_MS', '10000'))


class Unsupported(Exception):
    pass


_EXCL = None


def EXCLUSIONS():
    global _EXCL
    if _EXCL is None:
        import json
        _EXCL = {k: tuple(v) for k, v in json.loads(os.environ.get('PYVC_EXCLUSIONS', '{}')).items()}
    return _EXCL


class ContractError(Exception):
    pass


class NoCallRecorded(Unsupported):
    pass


# ----------------------------------------------------------------------------------
# extraction
# ----------------------------------------------------------------------------------
_parse_cache = {}


def parse_module(relpath):
    path = os.path.join(REPO, relpath)
    key = (path, os.path.getmtime(path))
    if key not in _parse_cache:
        with open(path) as f:
            _parse_cache[key] = ast.parse(f.read())
    return _parse_cache[key]


def _body_of_else_py3(node):
    """`if sys.version_info[0] < 3 or implementation != 'CPython': ... else: ...` -> the else body
    (assumption A-PY3: the pinned interpreter is CPython 3)."""
    return node.orelse


def extract(relpath, qual):
    """Locate module.py::Class.method in the current tree.  A path element may be
    `<py3>` to step into the CPython-3 branch of a module-level version switch."""
    tree = parse_module(relpath)
    body = tree.body
    node = None
    for part in qual.split('.'):
        if part == '<py3>':
            cand = [n for n in body if isinstance(n, ast.If) and 'version_info' in ast.unparse(n.test)]
            if not cand:
                raise ContractError('no version switch in %s' % relpath)
            body = _body_of_else_py3(cand[0])
            continue
        found = [n for n in body if isinstance(n, (ast.ClassDef, ast.FunctionDef)) and n.name == part]
        if not found:
            raise ContractError('target %s::%s not found (at %s)' % (relpath, qual, part))
        # property getter/setter pairs share a name: `name@setter` selects
        node = found[-1] if len(found) == 1 else found[0]
        body = node.body
    return node


def extract_region(fn, test_text, which=0):
    """A region of a long function, addressed structurally: the body of the `which`-th `if` statement whose test
    unparses to `test_text` (e.g. "state is stDecodeTag").  Returned as a synthetic FunctionDef so that the
    executor can run it; live-in variables are the region contract's parameters."""
    body = None
    if test_text.startswith('tail:'):
        # the statements of a block from the one that unparses to the given text to the end of that block
        first = test_text[5:].strip()
        hits = []
        for n in ast.walk(fn):
            for fld in ('body', 'orelse', 'finalbody'):
                blk = getattr(n, fld, None)
                if isinstance(blk, list):
                    for k, st in enumerate(blk):
                        if isinstance(st, ast.stmt) and (ast.unparse(st).split('\n')[0] == first or
                                                         (first.endswith(' =') and ast.unparse(st).startswith(first + ' '))):
                            hits.append((st, blk[k:]))
        if len(hits) <= which:
            raise ContractError('region %r not found in %s' % (test_text, fn.name))
        node, body = hits[which]
    else:
        want_else = test_text.endswith(' #else')
        text = test_text[:-6] if want_else else test_text
        in_loop = text.endswith(' @loop')        # only an `if` inside a loop of the function (a state of a state machine)
        text = text[:-6] if in_loop else text
        scope = [m for n in ast.walk(fn) if isinstance(n, (ast.While, ast.For)) for m in ast.walk(n)] if in_loop else \
            list(ast.walk(fn))
        found, seen = [], set()
        for n in scope:
            if isinstance(n, ast.If) and ast.unparse(n.test) == text and id(n) not in seen:
                seen.add(id(n))
                found.append(n)
        if len(found) <= which:
            raise ContractError('region %r not found in %s' % (test_text, fn.name))
        node = found[which]
        body = node.orelse if want_else else node.body
        if not body:
            raise ContractError('region %r of %s is empty' % (test_text, fn.name))
    region = ast.FunctionDef(name='%s@%s' % (fn.name, test_text), args=fn.args, body=body, decorator_list=[],
                             returns=None, type_comment=None, lineno=node.lineno, col_offset=0)
    return ast.fix_missing_locations(region)


def extract_property(relpath, qual, which):
    """which in {'getter','setter'} for @property pairs."""
    tree = parse_module(relpath)
    body = tree.body
    parts = qual.split('.')
    for part in parts[:-1]:
        node = [n for n in body if isinstance(n, ast.ClassDef) and n.name == part][0]
        body = node.body
    found = [n for n in body if isinstance(n, ast.FunctionDef) and n.name == parts[-1]]
    for n in found:
        decos = [ast.unparse(d) for d in n.decorator_list]
        if which == 'getter' and 'property' in decos:
            return n
        if which == 'setter' and any(d.endswith('.setter') for d in decos):
            return n
    raise ContractError('property %s %s not found' % (qual, which))


def class_consts(relpath, clsname):
    """literal class attributes of a repo class, read from the AST"""
    out = {}
    for n in parse_module(relpath).body:
        if isinstance(n, ast.ClassDef) and n.name == clsname:
            for b in n.body:
                if isinstance(b, ast.Assign) and len(b.targets) == 1 and isinstance(b.targets[0], ast.Name):
                    try:
                        out[b.targets[0].id] = ast.literal_eval(b.value)
                    except Exception:
                        out[b.targets[0].id] = ('expr', ast.unparse(b.value))
    return out


def lit_seq(items, kind):
    return SeqV(mk_seq(list(items)), kind, list(items))


def module_int_consts(relpath):
    """Top-level NAME = <int literal> assignments of a repo module (read from the AST)."""
    out = {}
    for n in parse_module(relpath).body:
        if isinstance(n, ast.Assign) and len(n.targets) == 1 and isinstance(n.targets[0], ast.Name):
            try:
                v = ast.literal_eval(n.value)
            except Exception:
                continue
            if isinstance(v, (int, str, bytes, tuple)) or v is None:
                out[n.targets[0].id] = v
    return out


# ----------------------------------------------------------------------------------
# values
# ----------------------------------------------------------------------------------
class SeqV:
    """A Python sequence of ints: kind in bytes/tuple/list/any ('any' = spec-level, compares by content)."""
    __slots__ = ('z', 'kind', 'items', '_octets')

    def __init__(self, z, kind, items=None, octets=None):
        self.z = z
        self.kind = kind
        self._octets = octets
        self.items = items      # python ints when built from a literal (PConst): inr facts are added

    @property
    def octets(self):
        """elements are known to be in range(256): bytes, or list()/tuple() of bytes"""
        return self.kind == 'bytes' or bool(self._octets)

    def __repr__(self):
        return 'SeqV<%s>(%s)' % (self.kind, self.z)


class RecSeqV:
    """A sequence of fixed-width int records (e.g. the tags of a TagSet): parallel z3 sequences."""

    def __init__(self, cols, kind='tuple', names=None, eq=None):
        self.cols = list(cols)
        self.kind = kind
        self.names = names       # field names: elements are records (objects) that also unpack like tuples
        self.eq = eq             # indices of the fields the records' __eq__ compares (None: not comparable)

    @property
    def length(self):
        return Length(self.cols[0])

    def elem(self, i):
        vals = [c[i] for c in self.cols]
        if self.names:
            t = Tup(vals)
            return Obj('Record', dict(zip(self.names, vals)),
                       {'__iter__': lambda ex, self_: t, '__getitem__': lambda ex, self_, k: t.items[concrete(k)]},
                       name='record')
        return Tup(vals)

    def __repr__(self):
        return 'RecSeqV<%d>' % len(self.cols)


class RangeSeq(RecSeqV):
    """range(lo, hi) with symbolic bounds, as a sequence: element i is lo + i"""

    def __init__(self, lo, hi):
        RecSeqV.__init__(self, [], kind='range')
        self.lo, self.hi = lo, hi

    @property
    def length(self):
        return If(self.hi > self.lo, self.hi - self.lo, IntVal(0))

    def elem(self, i):
        return self.lo + i


class Tup:
    """Fixed-length heterogeneous tuple (or list when kind == 'list')."""

    def __init__(self, items, kind='tuple'):
        self.items = list(items)
        self.kind = kind

    def __repr__(self):
        return 'Tup%r' % (self.items,)


class Obj:
    """Heap object with named fields; `methods` are Python models f(ex, self, *args, **kw)."""

    def __init__(self, cls, fields=None, methods=None, bases=(), name=None):
        self.cls = cls
        self.fields = dict(fields or {})
        self.methods = dict(methods or {})
        self.bases = tuple(bases)
        self.name = name or cls
        Obj._uid += 1
        self.uid = Obj._uid      # identity token: survives the deep copies taken for old(...) snapshots

    _uid = 0

    def __repr__(self):
        return 'Obj<%s>' % self.name


class ExcV:
    def __init__(self, cls, args=(), kwargs=None):
        self.cls = cls
        self.args = list(args)
        self.kwargs = dict(kwargs or {})

    def __repr__(self):
        return 'ExcV<%s>' % self.cls


class ClassV:
    """A class object used as a value (exception classes, type names for isinstance)."""

    def __init__(self, name):
        self.name = name

    def __repr__(self):
        return 'ClassV<%s>' % self.name


class OpaqueStr:
    """Result of string formatting etc.: content not modelled."""

    def __repr__(self):
        return 'OpaqueStr'


class DictV:
    """Dict with a finite set of *declared* constant keys: key -> (present: z3 Bool|bool, value)."""

    def __init__(self, entries=None, closed=True):
        self.entries = dict(entries or {})
        self.closed = closed  # no keys other than the declared ones

    def __repr__(self):
        return 'DictV%r' % (sorted(self.entries),)


class FnV:
    def __init__(self, fn, name='fn'):
        self.fn = fn
        self.name = name

    def __repr__(self):
        return 'FnV<%s>' % self.name


class _Return(Exception):
    def __init__(self, v):
        self.v = v


class _Break(Exception):
    pass


class _Continue(Exception):
    pass


class _Raise(Exception):
    def __init__(self, exc):
        self.exc = exc


class _PathEnd(Exception):
    pass


EXC_PARENTS = {
    'BaseException': (), 'Exception': ('BaseException',), 'LookupError': ('Exception',),
    'IndexError': ('LookupError',), 'KeyError': ('LookupError',), 'ValueError': ('Exception',),
    'TypeError': ('Exception',), 'AttributeError': ('Exception',), 'ArithmeticError': ('Exception',),
    'OverflowError': ('ArithmeticError',), 'ZeroDivisionError': ('ArithmeticError',),
    'UnicodeError': ('ValueError',), 'UnicodeDecodeError': ('UnicodeError',),
    'UnicodeEncodeError': ('UnicodeError',), 'StopIteration': ('Exception',),
    'RuntimeError': ('Exception',), 'NotImplementedError': ('RuntimeError',), 'OSError': ('Exception',),
    'AssertionError': ('Exception',),
}


def load_error_classes():
    """Class graph of pyasn1/error.py read from the AST (kind-E input for C06/C08)."""
    g = dict(EXC_PARENTS)
    for rel in ('pyasn1/error.py', 'pyasn1/type/error.py'):
        try:
            tree = parse_module(rel)
        except OSError:
            continue
        for n in tree.body:
            if isinstance(n, ast.ClassDef):
                g[n.name] = tuple(ast.unparse(b).split('.')[-1] for b in n.bases)
    return g


def exc_isa(graph, cls, parent):
    seen = set()
    stack = [cls]
    while stack:
        c = stack.pop()
        if c == parent:
            return True
        if c in seen:
            continue
        seen.add(c)
        stack.extend(graph.get(c, ()))
    return False


def is_z3(v):
    return isinstance(v, z3.ExprRef)


def is_intlike(v):
    return (isinstance(v, int) and not isinstance(v, bool)) or isinstance(v, z3.ArithRef)


def is_boollike(v):
    return isinstance(v, bool) or isinstance(v, z3.BoolRef)


def toint(v):
    if isinstance(v, bool):
        return IntVal(int(v))
    if isinstance(v, int):
        return IntVal(v)
    if isinstance(v, z3.BoolRef):
        return If(v, IntVal(1), IntVal(0))
    if isinstance(v, z3.ArithRef):
        return v
    raise Unsupported('toint(%r)' % (v,))


def tobool(v):
    if isinstance(v, bool):
        return BoolVal(v)
    if isinstance(v, z3.BoolRef):
        return v
    raise Unsupported('tobool(%r)' % (v,))


def concrete(v):
    """Python value of a concrete symbolic value, else None (note: None itself is handled by callers)."""
    if isinstance(v, (bool, int, str, bytes)):
        return v
    if is_z3(v):
        s = simplify(v)
        if is_int_value(s):
            return s.as_long()
        if is_true(s):
            return True
        if is_false(s):
            return False
    return None


def mk_seq(items):
    items = [toint(i) for i in items]
    if not items:
        return Empty(S)
    r = Unit(items[0])
    for i in items[1:]:
        r = Concat(r, Unit(i))
    return r


# `inr(s)`: every element of s is in range(256).  Uninterpreted; the executor adds the (sound)
# homomorphism facts eagerly at every construction site instead of quantified axioms.
inr = z3.Function('inr', S, BoolSort())


def bytes_axiom(z, tag='b'):
    """type invariant of a symbolic `bytes` value: every element is in range(256).  The elementwise facts are
    added by the executor wherever an element of a bytes value is taken (index, ord, iteration)."""
    return inr(z)


def inr_fact_concat(z, a, b):
    return inr(z) == And(inr(a), inr(b))


def inr_fact_units(z, items):
    items = [toint(i) for i in items]
    if not items:
        return inr(z)
    return inr(z) == And(*[And(i >= 0, i <= 255) for i in items])


def seq_slice(z, lo, hi):
    """Python s[lo:hi] for 0 <= lo, hi (clamped to len)."""
    n = Length(z)
    lo_c = If(lo > n, n, lo)
    hi_c = If(hi > n, n, hi)
    return z3.Extract(z, lo_c, If(hi_c > lo_c, hi_c - lo_c, IntVal(0)))


def pow2(k):
    return 2 ** k


def mask_and(x, m):
    """exact x & m for a constant m >= 0, any integer x (two's-complement-infinite)."""
    x = toint(x)
    res = IntVal(0)
    i = 0
    while (m >> i):
        if (m >> i) & 1:
            j = i
            while (m >> (j + 1)) & 1:
                j += 1
            res = res + ((x / (2 ** i)) % (2 ** (j - i + 1))) * (2 ** i)
            i = j + 1
        else:
            i += 1
    return res


def truthy(v):
    if v is None:
        return False
    if isinstance(v, (bool, int, str, bytes)):
        return bool(v)
    if isinstance(v, z3.BoolRef):
        return v
    if isinstance(v, z3.ArithRef):
        return v != 0
    if isinstance(v, SeqV):
        return Length(v.z) > 0
    if isinstance(v, RecSeqV):
        return v.length > 0
    if isinstance(v, Tup):
        return len(v.items) > 0
    if isinstance(v, Obj):
        if '__bool__' in v.methods:
            return v.methods['__bool__'](None, v)
        t = v.fields.get('__truthy__')
        return True if t is None else t
    if isinstance(v, (ExcV, ClassV, FnV)):
        return True
    if isinstance(v, DictV):
        ps = [p for p, _ in v.entries.values()]
        if all(isinstance(p, bool) for p in ps):
            return any(ps)
        return Or(*[tobool(p) for p in ps])
    raise Unsupported('truthiness of %r' % (v,))


def b_not(c):
    if isinstance(c, bool):
        return not c
    return Not(c)


def b_and(*cs):
    out = []
    for c in cs:
        if isinstance(c, bool):
            if not c:
                return False
            continue
        out.append(c)
    if not out:
        return True
    return And(*out) if len(out) > 1 else out[0]


def b_or(*cs):
    out = []
    for c in cs:
        if isinstance(c, bool):
            if c:
                return True
            continue
        out.append(c)
    if not out:
        return False
    return Or(*out) if len(out) > 1 else out[0]


def b_implies(a, b):
    return b_or(b_not(a), b)


def z3bool(c):
    return BoolVal(c) if isinstance(c, bool) else c


# ----------------------------------------------------------------------------------
# parameter sorts (contract side)
# ----------------------------------------------------------------------------------
class PSort:
    def make(self, ex, name):
        raise NotImplementedError


class PInt(PSort):
    def make(self, ex, name):
        return Int(name)


class PBool(PSort):
    def make(self, ex, name):
        return Bool(name)


class PSeq(PSort):
    def __init__(self, kind):
        self.kind = kind

    def make(self, ex, name):
        z = Const(name, S)
        if self.kind == 'bytes':
            ex.assume(bytes_axiom(z, name))
        return SeqV(z, self.kind)


def PBytes():
    return PSeq('bytes')


def PIntTuple():
    return PSeq('tuple')


def PIntList():
    return PSeq('list')


class PRecSeq(PSort):
    def __init__(self, width, kind='tuple', names=None, eq=None):
        self.width = width
        self.kind = kind
        self.names = names
        self.eq = eq

    def make(self, ex, name):
        cols = [Const('%s.c%d' % (name, k), S) for k in range(self.width)]
        for c in cols[1:]:
            ex.assume(Length(c) == Length(cols[0]))
        return RecSeqV(cols, self.kind, self.names, self.eq)


class PSeqKindBy(PSort):
    """int sequence whose python type follows a flag already in scope: bytes if flag else tuple"""

    def __init__(self, flag):
        self.flag = flag

    def make(self, ex, name):
        f = truthy(ex.env[self.flag])
        k = 'bytes' if ex.choose(f, 'kind:' + name) else 'tuple'
        return SeqV(Const(name, S), k)


class PDerived(PSort):
    """parameter built from earlier parameters: fn(ex, env) -> value"""

    def __init__(self, fn):
        self.fn = fn

    def make(self, ex, name):
        return self.fn(ex, ex.env)


class PTup(PSort):
    def __init__(self, *elts):
        self.elts = elts

    def make(self, ex, name):
        return Tup([e.make(ex, '%s.%d' % (name, i)) for i, e in enumerate(self.elts)])


class PConst(PSort):
    def __init__(self, v):
        self.v = v

    def make(self, ex, name):
        if isinstance(self.v, SeqV) and self.v.items is not None:
            ex.assume(inr_fact_units(self.v.z, self.v.items))
        return copy.deepcopy(self.v) if isinstance(self.v, (Obj, DictV, Tup)) else self.v


class PObj(PSort):
    def __init__(self, cls, methods=None, bases=(), **fields):
        self.cls = cls
        self.fields = fields
        self.methods = methods or {}
        self.bases = bases

    def make(self, ex, name):
        return Obj(self.cls, {k: (s.make(ex, '%s.%s' % (name, k)) if isinstance(s, PSort) else s)
                              for k, s in self.fields.items()}, self.methods, self.bases, name=name)


class POpt(PSort):
    """value or None: the executor forks at function entry."""

    def __init__(self, inner):
        self.inner = inner

    def make(self, ex, name):
        if ex.choose(Bool(name + '.isNone'), 'opt:' + name):
            return None
        return self.inner.make(ex, name)


class POneOf(PSort):
    """one of finitely many concrete python values: forks."""

    def __init__(self, *vals):
        self.vals = vals

    def make(self, ex, name):
        for i, v in enumerate(self.vals[:-1]):
            if ex.choose(Bool('%s.is%d' % (name, i)), 'oneof:' + name):
                return v
        return self.vals[-1]


class PObjOneOf(PSort):
    """loop-head value of an object-valued variable: one of the given singletons / a fresh object of one of the
    given classes.  The executor checks at every back edge that the actual value is within this domain."""

    def __init__(self, singletons=(), classes=()):
        self.singletons = list(singletons)
        self.classes = list(classes)

    def make(self, ex, name):
        for i, sgl in enumerate(self.singletons):
            if ex.choose(Bool('%s.is-singleton%d' % (name, i)), 'objdomain'):
                return sgl
        for i, cls in enumerate(self.classes[:-1]):
            if ex.choose(Bool('%s.is-class%d' % (name, i)), 'objdomain'):
                return Obj(cls, {'value': Int(name + '.value')}, name=name)
        return Obj(self.classes[-1], {'value': Int(name + '.value')}, name=name)

    def admits(self, v):
        if any(v is sgl for sgl in self.singletons):
            return True
        return isinstance(v, Obj) and v.cls in self.classes


class POptions(PSort):
    """the **options record: declared constant keys, each possibly absent."""

    def __init__(self, **keys):
        self.keys = keys

    def make(self, ex, name):
        d = DictV()
        for k, s in self.keys.items():
            d.entries[k] = (Bool('%s.has.%s' % (name, k)), s.make(ex, '%s[%s]' % (name, k)))
        return d


class Loop:
    def __init__(self, invariant=(), variant=None, decl=None, index=None, iter_ensures=(), havoc_fields=(),
                 unroll=False, yields_each_iteration=False, hints=(), entry_ghosts=None):
        self.invariant = list(invariant)
        self.variant = variant
        self.decl = decl or {}
        self.index = index
        self.iter_ensures = list(iter_ensures)
        self.havoc_fields = list(havoc_fields)   # e.g. 'substrate.pos'
        self.unroll = unroll
        self.hints = list(hints)     # spec-lemma instances, proved standalone, assumed at the end of the body
        self.entry_ghosts = dict(entry_ghosts or {})    # ghost name -> expression evaluated when the loop is entered
        self.yields_each_iteration = yields_each_iteration   # progress: an iteration that loops back yielded


class Contract:
    def __init__(self, id, file, qual, params, requires=(), ensures=(), raises=None, may_raise=None,
                 loops=None, calls=None, globals=None, yield_ensures=(), returns=None, modifies=(),
                 prop=None, replay=None, properties=(), note='', is_generator=False, getter=None,
                 exit_ensures=(), defaults=None, assume_after=None, ghost=None, external=(), raise_ensures=None, hints=(), region=None,
                 post_state_names=()):
        self.id = id
        self.file = file
        self.qual = qual
        self.params = params
        self.requires = list(requires)
        self.ensures = list(ensures)
        self.raises = dict(raises or {})          # E: cond  -- raises E *iff* cond(old state)
        self.may_raise = dict(may_raise or {})    # E: cond  -- if E is raised then cond held
        self.loops = dict(loops or {})
        self.calls = dict(calls or {})
        self.globals = dict(globals or {})
        self.yield_ensures = list(yield_ensures)
        self.exit_ensures = list(exit_ensures)    # at generator exhaustion
        self.returns = returns
        self.modifies = list(modifies)
        self.replay = replay
        self.properties = list(properties)
        self.note = note
        self.is_generator = is_generator
        self.prop = prop                          # 'getter'/'setter' for @property targets
        self.defaults = defaults or {}
        self.ghost = ghost or {}
        self.external = set(external)
        self.region = region          # (if-test text, ordinal) inside the target function
        self.post_state_names = tuple(post_state_names)   # parameters whose *new* binding the postconditions mean
        self.hints = list(hints)     # instances of spec lemmas: proved standalone, then assumed at exit
        self.raise_ensures = dict(raise_ensures or {})   # E: [clauses over the state at the raise]             # names of ensures that carry the property (others: scaffolding)


class CallContract:
    """Modular call: the caller sees only the callee's contract (pure callee: no heap effects)."""

    def __init__(self, contract, self_from=None, params=None):
        self.contract = contract
        self.self_from = self_from
        self.params = params      # positional parameter names; default: contract order minus self

    def __call__(self, ex, *args, **kwargs):
        c = self.contract
        names = self.params or [p for p in c.params if p != 'self']
        env = {}
        if 'self' in c.params:
            env['self'] = ex.env[self.self_from or 'self']
        for n, a in zip(names, args):
            env[n] = a
        for k, v in kwargs.items():
            if k != '**':
                env[k] = v
        for n in names:
            if n not in env:
                if n in c.defaults:
                    env[n] = c.defaults[n]
                else:
                    raise Unsupported('call of %s: missing argument %s' % (c.id, n))
        saved_old = getattr(ex, 'old_env', None)
        ex.old_env = env
        try:
            for i, r in enumerate(c.requires):
                ex.vc('%s#call.pre:%s.%d' % (ex.c.id, c.id.split('::')[-1], i), ex.spec_bool(r, env),
                      note='precondition of callee at call site')
            for exc, when in c.raises.items():
                if ex.choose(z3bool(ex.spec_bool(when, env)), 'callee-raises'):
                    raise _Raise(ExcV(exc))
            for exc, when in c.may_raise.items():
                w = True if when is True else ex.spec_bool(when, env)
                if ex.choose(b_and(ex.fresh('mayraise', BoolSort()), w), 'callee-may-raise'):
                    raise _Raise(ExcV(exc))
            if c.returns is None:
                raise Unsupported('callee %s declares no result sort' % c.id)
            if c.modifies:
                # effectful callee: havoc its frame, then assume the two-state postcondition
                ex.old_env = ex.snapshot(env)
                for path in c.modifies:
                    base, attr = path.rsplit('.', 1)
                    o = ex.spec_val(base, env)
                    o.fields[attr] = ex.havoc_value(o.fields[attr], 'mod:%s!%d' % (path, ex.fresh_ctr.setdefault('mod', 0)))
                    ex.fresh_ctr['mod'] += 1
            res = c.returns.make(ex, 'ret:%s!%d' % (c.id.split('::')[-1], ex.fresh_ctr.setdefault('ret', 0)))
            ex.fresh_ctr['ret'] += 1
            env2 = dict(env, result=res)
            for cl in c.ensures:
                ex.assume(ex.spec_bool(cl, env2))
        finally:
            ex.old_env = saved_old
        return res


def split_top(s, op):
    """split string s at top-level occurrences of op (not inside brackets/strings)."""
    depth = 0
    i = 0
    q = None
    while i < len(s):
        c = s[i]
        if q:
            if c == q:
                q = None
        elif c in '\'"':
            q = c
        elif c in '([{':
            depth += 1
        elif c in ')]}':
            depth -= 1
        elif depth == 0 and s.startswith(op, i) and not (op == '==>' and i > 0 and s[i - 1] == '<'):
            return s[:i], s[i + len(op):]
        i += 1
    return None


# ----------------------------------------------------------------------------------
# the executor
# ----------------------------------------------------------------------------------
class VC:
    __slots__ = ('oid', 'pc', 'goal', 'path', 'kind', 'note', 'inputs')

    def __init__(self, oid, pc, goal, path, kind, note=''):
        self.oid = oid
        self.pc = pc
        self.goal = goal
        self.path = path
        self.kind = kind
        self.note = note


class Executor:
    MAX_PATHS = 4000

    def __init__(self, fn, contract, spec_ns, registry=None):
        self.fn = fn
        self.c = contract
        self.X = spec_ns
        self.registry = registry or {}
        self.vcs = []
        self.exc_graph = load_error_classes()
        self.loop_ord = {}
        k = 0
        for node in self._loops_in_order(fn):
            self.loop_ord[id(node)] = k
            k += 1
        self.is_generator = contract.is_generator or any(
            isinstance(n, (ast.Yield, ast.YieldFrom)) for n in ast.walk(fn))
        self.path_count = 0
        self.stats = {'paths': 0, 'feasibility_checks': 0}
        self.input_syms = {}

    @staticmethod
    def _loops_in_order(fn):
        out = []

        class V(ast.NodeVisitor):
            def visit_While(self, n):
                out.append(n)
                self.generic_visit(n)

            def visit_For(self, n):
                out.append(n)
                self.generic_visit(n)

            def visit_FunctionDef(self, n):
                if n is fn:
                    self.generic_visit(n)

            def visit_Lambda(self, n):
                pass
        V().visit(fn)
        return out

    # ---- path exploration -------------------------------------------------------
    def explore(self):
        work = [[]]
        while work:
            prefix = work.pop()
            self.decisions = list(prefix)
            self.cursor = 0
            self.alts = []
            self.pc = []
            self.env = {}
            self.trace = []
            self.fresh_ctr = {}
            self.writes = []
            self.ghost = {}
            self.last_call = {}
            self.last_call_kwargs = {}
            self.vy = False          # ghost: a result value (not an underrun marker) has been yielded
            self.path_count += 1
            if self.path_count > self.MAX_PATHS:
                raise Unsupported('path explosion (> %d paths)' % self.MAX_PATHS)
            try:
                self.run_path()
            except _PathEnd:
                pass
            except Unsupported:
                # a fork is taken when the 3 s feasibility query does not say `unsat`: on a loaded machine that lets
                # infeasible paths through, and on those anything may look unsupported (values of the wrong type).
                # Before giving up on the contract, ask again with a real budget whether this path exists at all.
                s_ = z3.Solver()
                s_.set('timeout', 120000)
                for p_ in self.pc:
                    s_.add(p_)
                self.stats['feasibility_rechecks'] = self.stats.get('feasibility_rechecks', 0) + 1
                if s_.check() != z3.unsat:
                    raise
            for a in self.alts:
                work.append(a)
        self.stats['paths'] = self.path_count
        return self.vcs

    def feasible(self, extra):
        s = z3.Solver()
        s.set('timeout', 3000)
        for p in self.pc:
            s.add(p)
        s.add(extra)
        self.stats['feasibility_checks'] += 1
        return s.check() != z3.unsat

    def choose(self, cond, tag=''):
        """Fork on a symbolic condition; returns the Python bool taken on this path."""
        if isinstance(cond, bool):
            return cond
        c = simplify(cond)
        if is_true(c):
            return True
        if is_false(c):
            return False
        if self.cursor < len(self.decisions):
            d = self.decisions[self.cursor]
        else:
            ft = self.feasible(cond)
            ff = self.feasible(Not(cond))
            if ft and ff:
                d = True
                self.alts.append(self.decisions[:self.cursor] + [False])
            elif ft:
                d = True
            elif ff:
                d = False
            else:
                raise _PathEnd()
            self.decisions.append(d)
        self.cursor += 1
        self.pc.append(cond if d else Not(cond))
        return d

    def assume(self, cond):
        if isinstance(cond, bool):
            if not cond:
                raise _PathEnd()
            return
        self.pc.append(cond)

    def fresh(self, base, sort=I):
        k = self.fresh_ctr.get(base, 0)
        self.fresh_ctr[base] = k + 1
        return Const('%s!%d' % (base, k), sort)

    def vc(self, oid, goal, kind='internal', note=''):
        if isinstance(goal, bool):
            if goal:
                goal = BoolVal(True)
            else:
                goal = BoolVal(False)
        self.vcs.append(VC(oid, list(self.pc), goal, list(self.decisions[:self.cursor]), kind, note))
        ex = EXCLUSIONS().get(oid)
        if ex is not None:
            # recorded finding: additionally prove the obligation on the complement of its failing region,
            # so that any *other* violation of the same obligation is still reported
            kid, expr = ex
            region = z3bool(self.spec_bool(expr, self.env))
            self.vcs.append(VC('%s|kf:%s' % (oid, kid), list(self.pc), Or(region, goal),
                               list(self.decisions[:self.cursor]), kind, 'complement of recorded finding ' + kid))

    # ---- running one path -------------------------------------------------------
    def run_path(self):
        c = self.c
        env = {}
        self.env = env
        self.pc.append(inr(Empty(S)))        # the empty sequence is trivially in range
        for name, sort in c.params.items():
            env[name] = sort.make(self, name) if isinstance(sort, PSort) else sort
        for name, sort in c.ghost.items():
            self.ghost[name] = sort.make(self, name) if isinstance(sort, PSort) else sort
        for r in c.requires:
            self.assume(self.spec_bool(r, env))
        self.old_env = self.snapshot(env)
        self.input_syms = {k: v for k, v in self.old_env.items()}
        self.entry_bindings = dict(env)      # what each parameter name was bound to on entry (see rebound_in_clause)
        # vacuity guard: the precondition must be satisfiable on some path
        self.vc(c.id + '#pre-sat', BoolVal(False), kind='vacuity')
        try:
            try:
                self.exec_block(self.fn.body)
                self.on_exit(None)
            except _Return as r:
                self.on_exit(r.v)
            except _Break:
                if not self.c.region:
                    raise Unsupported('break outside loop')
                self.on_exit(None)       # a region may end by breaking out of the enclosing state loop
        except _Raise as r:
            self.on_raise(r.exc)

    def snapshot(self, env):
        return copy.deepcopy(env, _Memo())

    # ---- exits -------------------------------------------------------------------
    def spec_env(self, env, **extra):
        e = dict(env)
        e.update(extra)
        return e

    def on_exit(self, v):
        c = self.c
        env = self.spec_env(self.env, result=v)
        if self.is_generator:
            clauses = c.exit_ensures
        else:
            clauses = c.ensures
        # canary: the postconditions below are checked under this path condition; if no normal exit of the function is
        # reachable (contradictory requires / model assumptions, an executor that lost the paths) every one of them would
        # hold vacuously.  `False` must be refutable on some exit.
        self.vc(c.id + '#exit-reachable', BoolVal(False), kind='canary')
        for i, h in enumerate(c.hints):
            f = z3bool(self.spec_bool(h, env))
            self.vcs.append(VC('%s#lemma-instance.%d' % (c.id, i), [], f, [], 'lemma',
                               'instance of a spec lemma, proved on its own (no path condition), then used'))
            self.pc.append(f)
        for i, cl in enumerate(clauses):
            name, text = cl if isinstance(cl, tuple) else (str(i), cl)
            self.rebound_in_clause(name, text)
            self.vc('%s#post.%s' % (c.id, name), self.spec_bool(text, env), kind='external')
        for exc, when in c.raises.items():
            self.vc('%s#noraise.%s' % (c.id, exc), b_not(self.spec_bool(when, self.old_env, use_old=True)),
                    kind='external')

    def rebound_in_clause(self, name, text):
        """A postcondition that mentions a parameter the function has bound to something else on this path talks about
        the new binding: `result.tagSet is tagSet` holds trivially once the body says `tagSet = ...`.  Such a clause must
        say old(<parameter>) -- or, where the new binding is meant, list the name in Contract.post_state_names."""
        if not isinstance(text, str) or self.c.region:
            return
        entry = getattr(self, 'entry_bindings', {})
        rebound = {k for k, v in entry.items() if k in self.c.params and self.env.get(k) is not v}
        rebound -= set(getattr(self.c, 'post_state_names', ()) or ())
        if not rebound:
            return
        try:
            tree = ast.parse(text.replace('==>', ' or ').strip(), mode='eval')
        except SyntaxError:
            return
        bad = set()

        def walk(n):
            if isinstance(n, ast.Call) and isinstance(n.func, ast.Name) and n.func.id == 'old':
                return
            if isinstance(n, ast.Name) and n.id in rebound:
                bad.add(n.id)
            for ch in ast.iter_child_nodes(n):
                walk(ch)
        walk(tree)
        if bad:
            raise ContractError('postcondition %r reads %s, which the function body has rebound on this path: write old(%s), '
                                'or list the name in post_state_names if the new binding is meant' % (
                                    name, ', '.join(sorted(bad)), sorted(bad)[0]))

    def on_raise(self, exc):
        c = self.c
        for name, clauses in c.raise_ensures.items():
            if exc_isa(self.exc_graph, exc.cls, name):
                for i, cl in enumerate(clauses):
                    self.vc('%s#raise-post.%s.%d' % (c.id, name, i), self.spec_bool(cl, self.env), kind='external')
        for table, strict in ((c.raises, True), (c.may_raise, False)):
            for name, when in table.items():
                if exc_isa(self.exc_graph, exc.cls, name):
                    if exc.cls != name and name in c.raises and exc.cls in c.may_raise:
                        continue
                    if when is True:
                        return
                    self.vc('%s#raises.%s' % (c.id, name), self.spec_bool(when, self.old_env, use_old=True),
                            kind='external')
                    return
        self.vc('%s#raises.unexpected.%s' % (c.id, exc.cls), BoolVal(False), kind='external',
                note='exception %s escapes' % exc.cls)

    # ---- contract expression evaluation -----------------------------------------
    def spec_bool(self, text, env, use_old=False):
        if isinstance(text, tuple):
            text = text[1]
        sp = split_top(text, '<==>')
        if sp:
            a = self.spec_bool(sp[0], env, use_old)
            b = self.spec_bool(sp[1], env, use_old)
            return b_and(b_implies(a, b), b_implies(b, a))
        sp = split_top(text, '==>')
        if sp:
            a = self.spec_bool(sp[0], env, use_old)
            if a is False:
                return True
            try:
                b = self.spec_bool(sp[1], env, use_old)
            except NoCallRecorded:
                # the consequent mentions a call-site ghost of a call that did not happen on this path:
                # fine iff the antecedent is impossible here; otherwise the clause demands a call that did not
                # happen, i.e. it is false whenever the antecedent holds
                if a is True:
                    return False
                return b_implies(a, False)
            except Unsupported:
                # the consequent is not even well-formed on this path (e.g. it selects a field of a value that has
                # another shape here): vacuous iff the antecedent cannot hold on this path
                if a is not True and not self.feasible(z3bool(a)):
                    return True
                raise
            return b_implies(a, b)
        node = ast.parse(text.strip(), mode='eval').body
        saved = self.env
        self.env = env
        self._in_spec = getattr(self, '_in_spec', 0) + 1
        try:
            v = self.ev(node)
        except NoCallRecorded:
            # the clause speaks about a call site that was not reached on this path: it demands that call
            return False
        except _Raise:
            # evaluating the clause itself fails on this path (e.g. it selects an argument the call did not get):
            # the clause does not hold here
            return False
        finally:
            self.env = saved
            self._in_spec -= 1
        return truthy(v)

    def spec_val(self, text, env):
        node = ast.parse(text.strip(), mode='eval').body
        saved = self.env
        self.env = env
        self._in_spec = getattr(self, '_in_spec', 0) + 1
        try:
            return self.ev(node)
        finally:
            self.env = saved
            self._in_spec -= 1

    # ---- statements ----------------------------------------------------------------
    def exec_block(self, stmts):
        for s in stmts:
            self.exec_stmt(s)

    def exec_stmt(self, s):
        m = getattr(self, 'st_' + type(s).__name__, None)
        if m is None:
            raise Unsupported('statement %s' % type(s).__name__)
        return m(s)

    def st_Expr(self, s):
        if isinstance(s.value, ast.Constant):
            return   # docstring
        self.ev(s.value)

    def st_Pass(self, s):
        pass

    def st_Delete(self, s):
        """`del lst[k]` on a python list of known length at a known position (bounded contracts only)"""
        for t in s.targets:
            if not isinstance(t, ast.Subscript):
                raise Unsupported('del of %s' % ast.unparse(t))
            o = self.ev(t.value)
            k = concrete(self.ev(t.slice))
            if not (isinstance(o, Tup) and o.kind == 'list' and k is not None and -len(o.items) <= k < len(o.items)):
                raise Unsupported('del %s' % ast.unparse(t))
            del o.items[k]

    def st_Assign(self, s):
        v = self.ev(s.value)
        for t in s.targets:
            self.assign(t, v)

    def st_AugAssign(self, s):
        load = copy.copy(s.target)
        load.ctx = ast.Load()
        v = self.binop(s.op, self.ev(load), self.ev(s.value))
        self.assign(s.target, v)

    def st_Return(self, s):
        raise _Return(self.ev(s.value) if s.value is not None else None)

    def st_Break(self, s):
        raise _Break()

    def st_Continue(self, s):
        raise _Continue()

    def st_Raise(self, s):
        if s.exc is None:
            raise _Raise(self.cur_exc)
        v = self.ev(s.exc)
        if isinstance(v, ClassV):
            v = ExcV(v.name)
        if isinstance(v, Obj) and 'exc_cls' in v.fields:
            v = ExcV(v.fields['exc_cls'])
        if not isinstance(v, ExcV):
            raise Unsupported('raise of %r' % (v,))
        raise _Raise(v)

    def st_If(self, s):
        if self.is_log_test(s.test):
            return            # extraction rule: `if LOG:` blocks are dropped
        c = truthy(self.ev(s.test))
        if self.choose(c, 'if'):
            self.exec_block(s.body)
        else:
            self.exec_block(s.orelse)

    @staticmethod
    def is_log_test(t):
        return isinstance(t, ast.Name) and t.id == 'LOG'

    def st_Try(self, s):
        try:
            try:
                self.exec_block(s.body)
            except _Raise as r:
                for h in s.handlers:
                    if self.handler_matches(h, r.exc):
                        if h.name:
                            self.env[h.name] = r.exc
                        saved = getattr(self, 'cur_exc', None)
                        self.cur_exc = r.exc
                        try:
                            self.exec_block(h.body)
                        finally:
                            self.cur_exc = saved
                        break
                else:
                    raise
            else:
                self.exec_block(s.orelse)
        except _PathEnd:
            raise
        except (_Return, _Break, _Continue, _Raise):
            self.exec_block(s.finalbody)
            raise
        else:
            self.exec_block(s.finalbody)

    def handler_matches(self, h, exc):
        if h.type is None:
            return True
        names = []
        elts = h.type.elts if isinstance(h.type, ast.Tuple) else [h.type]
        for e in elts:
            names.append(ast.unparse(e).split('.')[-1])
        return any(exc_isa(self.exc_graph, exc.cls, n) for n in names)

    # ---- loops ------------------------------------------------------------------
    def assigned_names(self, node):
        names = []

        def tgt(t):
            if isinstance(t, ast.Name):
                names.append(t.id)
            elif isinstance(t, (ast.Tuple, ast.List)):
                for e in t.elts:
                    tgt(e)
        for n in ast.walk(node):
            if isinstance(n, ast.Assign):
                for t in n.targets:
                    tgt(t)
            elif isinstance(n, ast.AugAssign):
                tgt(n.target)
            elif isinstance(n, ast.For):
                tgt(n.target)
            elif isinstance(n, ast.ExceptHandler) and n.name:
                names.append(n.name)
        return sorted(set(names))

    def havoc(self, names, loop, lid):
        if self.is_generator:
            self.vy = self.fresh('value_yielded!L%d' % lid, BoolSort())
        for m, d in loop.decl.items():
            self.env[m] = d.make(self, '%s!L%d' % (m, lid)) if isinstance(d, PSort) else d
        for m in names:
            if m in loop.decl:
                continue
            v = self.env.get(m, _MISSING)
            if v is _MISSING:
                continue
            self.env[m] = self.havoc_value(v, '%s!L%d' % (m, lid))
        self._havocked_fields = set()
        for path in loop.havoc_fields:
            base, attr = path.rsplit('.', 1)
            o = self.spec_val(base, self.env)
            o.fields[attr] = self.havoc_value(o.fields[attr], '%s!L%d' % (path, lid))
            self._havocked_fields.add((o.uid, attr))

    def reachable_objs(self, env):
        out = {}

        def walk(v, depth=0):
            if depth > 12:
                return
            if isinstance(v, Obj):
                if v.uid in out:
                    return
                out[v.uid] = v
                for f in v.fields.values():
                    walk(f, depth + 1)
            elif isinstance(v, Tup):
                for i in v.items:
                    walk(i, depth + 1)
            elif isinstance(v, DictV):
                for e in v.entries.values():
                    walk(e[1] if isinstance(e, tuple) else e, depth + 1)
            elif isinstance(v, dict):
                for e in v.values():
                    walk(e, depth + 1)
        for v in env.values():
            walk(v)
        return out

    def check_loop_frame(self, before_env, lid):
        """soundness guard of a cut loop: a field of a heap object that the body changed must have been havocked
        (Loop.havoc_fields), otherwise the arbitrary iteration would be checked with the first iteration's heap"""
        def same(x, y):
            if x is y:
                return True
            if isinstance(x, z3.ExprRef) and isinstance(y, z3.ExprRef):
                return x.eq(y)
            if isinstance(x, Obj) and isinstance(y, Obj):
                return x.uid == y.uid
            if isinstance(x, SeqV) and isinstance(y, SeqV):
                return x.z.eq(y.z)
            if isinstance(x, RecSeqV) and isinstance(y, RecSeqV):
                return len(x.cols) == len(y.cols) and all(i.eq(j) for i, j in zip(x.cols, y.cols))
            if isinstance(x, (ExcV, ClassV, OpaqueStr)) and type(x) is type(y):
                return True
            if isinstance(x, Tup) and isinstance(y, Tup):
                return len(x.items) == len(y.items) and all(same(i, j) for i, j in zip(x.items, y.items))
            if isinstance(x, (DictV, dict, FnV)) or isinstance(y, (DictV, dict, FnV)):
                return True          # not compared (models with dictionaries are loop-unrolled in the contracts)
            try:
                return bool(x == y)
            except Exception:
                return True
        before = self.reachable_objs(before_env)
        after = self.reachable_objs(self.env)
        for uid, o in after.items():
            b = before.get(uid)
            if b is None:
                continue
            for attr, v in o.fields.items():
                if attr in b.fields and not same(b.fields[attr], v) and (uid, attr) not in self._havocked_fields:
                    raise ContractError('loop #%d changes %s.%s, which is not listed in Loop.havoc_fields' % (lid, o.name, attr))

    def havoc_value(self, v, name):
        if isinstance(v, bool):
            return self.fresh(name, BoolSort())
        if isinstance(v, z3.BoolRef):
            return self.fresh(name, BoolSort())
        if isinstance(v, int) or isinstance(v, z3.ArithRef):
            return self.fresh(name, I)
        if isinstance(v, z3.ArrayRef):
            return self.fresh(name, v.sort())
        if isinstance(v, SeqV):
            return SeqV(self.fresh(name, S), v.kind)
        if isinstance(v, bytes):
            return SeqV(self.fresh(name, S), 'bytes')
        if isinstance(v, Tup):
            if all(is_intlike(i) for i in v.items):
                return SeqV(self.fresh(name, S), v.kind)
            return Tup([self.havoc_value(i, '%s.%d' % (name, k)) for k, i in enumerate(v.items)], v.kind)
        if v is None:
            raise Unsupported('havoc of None-valued variable %s: declare it in Loop.decl' % name)
        raise Unsupported('havoc of %r (%s)' % (v, name))

    def loop_spec(self, node):
        lid = self.loop_ord[id(node)]
        return lid, self.c.loops.get(lid)

    def st_While(self, s):
        lid, spec = self.loop_spec(s)
        if spec is None:
            # concrete-guard loops may be unrolled when the guard folds
            return self.unroll_while(s, lid)
        if spec.unroll:
            return self.unroll_while(s, lid)
        pre = '%s#loop%d' % (self.c.id, lid)
        for gname, gexpr in spec.entry_ghosts.items():
            self.env[gname] = self.spec_val(gexpr, self.env)      # ghost: never assigned by the code, so never havocked
        entry = self.snapshot(self.env)          # loop_entry(x): value of x when this loop was entered
        self._loop_entry = entry
        self.vc(pre + '.init', self.inv(spec, self.env))
        self.havoc(self.assigned_names(s), spec, lid)
        self.assume(self.inv(spec, self.env))
        v0 = toint(self.spec_val(spec.variant, self.env)) if spec.variant else None
        g = truthy(self.ev(s.test))
        if self.choose(g, 'while%d' % lid):
            self.iter_old_env = self.snapshot(self.env)
            ntrace = len(self.trace)
            self._iter_trace_start = ntrace
            try:
                self.exec_block(s.body)
            except _Continue:
                pass
            except _Break:
                return
            self._loop_entry = entry
            self.check_loop_frame(self.iter_old_env, lid)
            self.loop_hints(spec, pre)
            self.vc(pre + '.preserve', self.inv(spec, self.env))
            for dn, dv in spec.decl.items():
                if isinstance(dv, PObjOneOf):
                    self.vc('%s.decl-domain.%s' % (pre, dn), BoolVal(dv.admits(self.env.get(dn))),
                            note='object-valued loop variable stays within its declared domain')
            for i, cl in enumerate(spec.iter_ensures):
                self.vc('%s.iter_post.%d' % (pre, i), self.spec_bool(cl, self.env), kind='external')
            if spec.yields_each_iteration:
                self.vc(pre + '.progress', BoolVal(len(self.trace) > ntrace), kind='external',
                        note='an iteration that loops back must have yielded (no busy loop inside a generator)')
            if v0 is not None:
                v1 = toint(self.spec_val(spec.variant, self.env))
                self.vc(pre + '.variant', And(v0 >= 0, v1 < v0))
            raise _PathEnd()
        else:
            self.exec_block(s.orelse)

    def unroll_while(self, s, lid, bound=64):
        n = 0
        while True:
            g = truthy(self.ev(s.test))
            if not isinstance(g, bool):
                cg = concrete(g)
                if cg is None:
                    raise Unsupported('while loop #%d needs a Loop contract (symbolic guard)' % lid)
                g = cg
            if not g:
                self.exec_block(s.orelse)
                return
            n += 1
            if n > bound:
                raise Unsupported('while loop #%d: unrolling bound exceeded' % lid)
            try:
                self.exec_block(s.body)
            except _Continue:
                continue
            except _Break:
                return

    def loop_hints(self, spec, pre):
        for k, h in enumerate(spec.hints):
            f = z3bool(self.spec_bool(h, self.env))
            self.vcs.append(VC('%s.lemma-instance.%d' % (pre, k), [], f, [], 'lemma',
                               'instance of a spec lemma, proved on its own (no path condition), then used'))
            self.pc.append(f)

    def inv(self, spec, env):
        cs = [self.spec_bool(x, env) for x in spec.invariant]
        return z3bool(b_and(*cs))

    def st_For(self, s):
        lid, spec = self.loop_spec(s)
        it = s.iter
        # generator idiom: for v in G(...): if isinstance(v, SubstrateUnderrunError): yield v
        if isinstance(it, ast.Call):
            key = ast.unparse(it.func)
            model = self.lookup_call_model(key)
            if model is not None and getattr(model, 'is_generator_model', False):
                return self.for_generator(s, model, lid)
        with_index = False
        if isinstance(it, ast.Call) and ast.unparse(it.func) == 'enumerate':
            seq = self.ev(it.args[0])
            with_index = True
        elif isinstance(it, ast.Call) and ast.unparse(it.func) == 'range':
            args = [self.ev(a) for a in it.args]
            cargs = [concrete(a) for a in args]
            if all(a is not None for a in cargs):
                seq = Tup(list(range(*cargs)))
            elif len(args) in (1, 2):
                seq = RangeSeq(IntVal(0) if len(args) == 1 else toint(args[0]), toint(args[-1]))
            else:
                raise Unsupported('symbolic range() with a step')
        else:
            seq = self.ev(it)
        if isinstance(seq, Obj) and '__iter__' in seq.methods:
            seq = seq.methods['__iter__'](self, seq)       # iteration protocol of a modelled object
        if isinstance(seq, Tup) or isinstance(seq, (tuple, list, bytes)):
            items = seq.items if isinstance(seq, Tup) else list(seq)
            for k, item in enumerate(items):
                self.assign(s.target, Tup([k, item]) if with_index else item)
                if spec is not None and spec.iter_ensures:
                    self.iter_old_env = self.snapshot(self.env)
                try:
                    self.exec_block(s.body)
                except _Continue:
                    continue
                except _Break:
                    return
                if spec is not None:
                    # a loop over a concrete sequence is executed element by element: per-iteration clauses hold after
                    # each of them
                    for j, cl in enumerate(spec.iter_ensures):
                        self.vc('%s#loop%d.iter_post.%d' % (self.c.id, lid, j), self.spec_bool(cl, self.env), kind='external')
            self.exec_block(s.orelse)
            return
        if not isinstance(seq, (SeqV, RecSeqV)):
            raise Unsupported('for over %r' % (seq,))
        if spec is None:
            raise Unsupported('for loop #%d over a symbolic sequence needs a Loop contract' % lid)
        seqlen = Length(seq.z) if isinstance(seq, SeqV) else seq.length
        pre = '%s#loop%d' % (self.c.id, lid)
        idxname = spec.index or '_i%d' % lid
        self.env[idxname] = IntVal(0)
        self.env['loop_seq'] = seq        # specification name of the sequence being iterated (it may have no name in the code)
        self.vc(pre + '.init', self.inv(spec, self.env))
        self.havoc([n for n in self.assigned_names(s) if n not in self.target_names(s.target)], spec, lid)
        i = self.fresh(idxname + '!L%d' % lid, I)
        self.env[idxname] = i
        self.assume(And(i >= 0, i <= seqlen))
        self.assume(self.inv(spec, self.env))
        if self.choose(i < seqlen, 'for%d' % lid):
            elt = seq.z[i] if isinstance(seq, SeqV) else seq.elem(i)
            if isinstance(seq, SeqV) and seq.octets:
                self.pc.append(And(elt >= 0, elt <= 255))
            self.assign(s.target, Tup([i, elt]) if with_index else elt)
            self.iter_old_env = self.snapshot(self.env)
            try:
                self.exec_block(s.body)
            except _Continue:
                pass
            except _Break:
                return
            self.check_loop_frame(self.iter_old_env, lid)
            self.loop_hints(spec, pre)
            for k, cl in enumerate(spec.iter_ensures):
                self.vc('%s.iter_post.%d' % (pre, k), self.spec_bool(cl, self.env), kind='external')
            self.env[idxname] = i + 1
            self.vc(pre + '.preserve', self.inv(spec, self.env))
            raise _PathEnd()
        else:
            self.exec_block(s.orelse)

    def target_names(self, t):
        if isinstance(t, ast.Name):
            return [t.id]
        if isinstance(t, (ast.Tuple, ast.List)):
            return [n for e in t.elts for n in self.target_names(e)]
        return []

    def for_generator(self, s, model, lid):
        """D3 call reduction.  The D1 obligation (underrun objects are forwarded and nothing else
        happens on that path) is checked structurally here, on the real AST of the loop body."""
        it = s.iter
        args = [self.ev(a) for a in it.args]
        kwargs = self.eval_kwargs(it)
        pre = '%s#loop%d' % (self.c.id, lid)
        tname = s.target.id if isinstance(s.target, ast.Name) else None
        ok, why = d1_forwarding_shape(s)
        self.vc(pre + '.proto.D1', BoolVal(ok), kind='external', note=why)
        # D5: the protocol's result is the *last* yielded item, so once a real value has been yielded the
        # generator must not yield again -- and reading more input can yield an underrun marker
        if not getattr(self.c, 'multi_value', False):
            self.vc('%s#proto.D5.value-is-last' % self.c.id, z3bool(b_not(self.vy)), kind='external',
                    note='input is consumed (possible underrun yield) after the result value was already yielded')
        final = model(self, *args, **kwargs)     # may fork / raise / add yields to the trace
        self.trace.append(('forwarded-underruns', ast.unparse(it.func)))
        if tname is None:
            raise Unsupported('generator loop with non-name target')
        self.env[tname] = final
        # run the body once for the final (non-underrun) value
        try:
            self.exec_block(s.body)
        except _Continue:
            pass
        except _Break:
            return
        self.exec_block(s.orelse)

    # ---- assignment -------------------------------------------------------------
    def assign(self, tgt, v):
        if isinstance(tgt, ast.Name):
            self.env[tgt.id] = v
        elif isinstance(tgt, (ast.Tuple, ast.List)):
            items = self.unpack(v, len(tgt.elts))
            for t, x in zip(tgt.elts, items):
                self.assign(t, x)
        elif isinstance(tgt, ast.Attribute):
            o = self.ev(tgt.value)
            if not isinstance(o, Obj):
                raise Unsupported('attribute store on %r' % (o,))
            setter = o.methods.get('__set_' + tgt.attr)
            if setter is not None:
                setter(self, o, v)
                return
            self.writes.append((o.name, tgt.attr))
            o.fields[tgt.attr] = v
        elif isinstance(tgt, ast.Subscript):
            o = self.ev(tgt.value)
            k = self.ev(tgt.slice)
            if isinstance(o, DictV):
                ck = concrete(k) if not isinstance(k, str) else k
                if ck is None:
                    raise Unsupported('dict store with symbolic key')
                o.entries[ck] = (True, v)
                return
            if isinstance(o, Obj) and '__setitem__' in o.methods:
                o.methods['__setitem__'](self, o, k, v)
                return
            if isinstance(o, Tup) and o.kind == 'list':
                ck = concrete(k)
                if ck is None:
                    raise Unsupported('list store with symbolic index')
                o.items[ck] = v
                return
            raise Unsupported('subscript store on %r' % (o,))
        else:
            raise Unsupported('assignment target %s' % type(tgt).__name__)

    def unpack(self, v, n):
        if isinstance(v, Tup):
            if len(v.items) != n:
                raise _Raise(ExcV('ValueError'))
            return v.items
        if isinstance(v, SeqV):
            if not self.choose(Length(v.z) == n, 'unpack'):
                raise _Raise(ExcV('ValueError'))
            return [v.z[k] for k in range(n)]
        if isinstance(v, Obj) and '__iter__' in v.methods:
            return self.unpack(v.methods['__iter__'](self, v), n)
        raise Unsupported('unpack of %r' % (v,))

    # ---- expressions ------------------------------------------------------------
    def ev(self, n):
        m = getattr(self, 'ev_' + type(n).__name__, None)
        if m is None:
            raise Unsupported('expression %s' % type(n).__name__)
        return m(n)

    def ev_Constant(self, n):
        v = n.value
        if isinstance(v, bytes):
            return SeqV(mk_seq(list(v)), 'bytes')
        return v

    def ev_Name(self, n):
        name = n.id
        if name in self.env:
            return self.env[name]
        if name in self.ghost:
            return self.ghost[name]
        if name in self.c.globals:
            return self.c.globals[name]
        dg = default_globals()
        if name in dg:
            return dg[name]
        if name in BUILTINS:
            return BUILTINS[name]
        if name == 'X':
            return self.X
        if name in EXC_PARENTS or name in self.exc_graph:
            return ClassV(name)
        raise Unsupported('unbound name %s' % name)

    def ev_Attribute(self, n):
        base = self.ev(n.value)
        return self.getattr(base, n.attr)

    def getattr(self, base, attr):
        if isinstance(base, Obj):
            if attr in base.fields:
                return base.fields[attr]
            if attr == '__class__':
                return {'__name__': base.cls}
            g = base.methods.get('__get_' + attr)
            if g is not None:
                return g(self, base)
            if attr in base.methods:
                m = base.methods[attr]
                return FnV(lambda ex, *a, **k: m(ex, base, *a, **k), '%s.%s' % (base.name, attr))
            if '__getattr__' in base.methods:
                return base.methods['__getattr__'](self, base, attr)
            if getattr(self, '_in_spec', 0):
                # a clause that selects a field the object on this path does not have does not hold here
                raise _Raise(ExcV('AttributeError'))
            raise Unsupported('attribute %s of %r' % (attr, base))
        if isinstance(base, dict):
            if attr in base:
                return base[attr]
            if base.get('__name__') == 'error' and attr in self.exc_graph:
                return ClassV(attr)
            raise Unsupported('namespace has no %s' % attr)
        if hasattr(base, '__pyvc_ns__'):
            return getattr(base, attr)
        if isinstance(base, ExcV):
            if attr == 'cls':
                return ClassV(base.cls)
        if isinstance(base, SeqV) and attr in SEQ_METHODS:
            f = SEQ_METHODS[attr]
            return FnV(lambda ex, *a, **k: f(ex, base, *a, **k), attr)
        if isinstance(base, RecSeqV) and base.names and attr in base.names and getattr(self, '_in_spec', 0):
            # specification only: the column of one field over all records
            return SeqV(base.cols[list(base.names).index(attr)], 'tuple')
        if isinstance(base, Tup) and base.kind == 'list' and attr in LIST_METHODS:
            f = LIST_METHODS[attr]
            return FnV(lambda ex, *a, **k: f(ex, base, *a, **k), attr)
        if isinstance(base, DictV) and attr in DICT_METHODS:
            f = DICT_METHODS[attr]
            return FnV(lambda ex, *a, **k: f(ex, base, *a, **k), attr)
        if isinstance(base, FnV) and base.name == 'int' and attr == 'from_bytes':
            return FnV(_int_from_bytes, 'int.from_bytes')
        if is_intlike(base) and attr in INT_METHODS:
            f = INT_METHODS[attr]
            return FnV(lambda ex, *a, **k: f(ex, base, *a, **k), attr)
        if base is None and getattr(self, '_in_spec', 0):
            # a clause that selects a field of None does not hold on this path (python: AttributeError)
            raise _Raise(ExcV('AttributeError'))
        raise Unsupported('attribute %s of %r' % (attr, base))

    def ev_Tuple(self, n):
        items = [self.ev(e) for e in n.elts]
        if items and all(is_intlike(i) for i in items):
            z = mk_seq(items)
            self.pc.append(inr_fact_units(z, items))
            return SeqV(z, 'tuple')
        if not items:
            self.pc.append(inr(Empty(S)))
            return SeqV(Empty(S), 'tuple')
        return Tup(items)

    def ev_List(self, n):
        if not n.elts and getattr(self.c, 'empty_list', None) is not None and not getattr(self, '_in_spec', 0):
            # `[]` in the code under contract: the contract's model of a list of symbolic length
            return self.c.empty_list(self)
        items = [self.ev(e) for e in n.elts]
        return Tup(items, 'list')

    def ev_Dict(self, n):
        if not n.keys and getattr(self.c, 'empty_dict', None) is not None and not getattr(self, '_in_spec', 0):
            # `{}` in the code under contract: the contract's model of a dict with symbolic keys
            return self.c.empty_dict(self)
        d = DictV()
        for k, v in zip(n.keys, n.values):
            kk = self.ev(k)
            if isinstance(kk, Obj):
                kk = 'obj:%d' % kk.uid        # keyed by object identity (modelled objects are hashable by identity)
            if not isinstance(kk, (str, int)):
                raise Unsupported('dict literal with symbolic key')
            d.entries[kk] = (True, self.ev(v))
        return d

    def ev_IfExp(self, n):
        c = truthy(self.ev(n.test))
        if isinstance(c, bool):
            return self.ev(n.body if c else n.orelse)
        a = self.ev(n.body)
        b = self.ev(n.orelse)
        return self.ite(c, a, b)

    def ite(self, c, a, b):
        if isinstance(c, bool):
            return a if c else b
        if a is b:
            return a
        if is_intlike(a) and is_intlike(b):
            return If(c, toint(a), toint(b))
        if is_boollike(a) and is_boollike(b):
            return If(c, tobool(a), tobool(b))
        if (is_intlike(a) or is_boollike(a)) and (is_intlike(b) or is_boollike(b)):
            return If(c, toint(a), toint(b))
        if isinstance(a, SeqV) and isinstance(b, SeqV):
            k = a.kind if a.kind == b.kind else ('any' if 'any' in (a.kind, b.kind) else None)
            if k is not None:
                return SeqV(If(c, a.z, b.z), k)
        # different shapes: fork
        return a if self.choose(c, 'ite') else b

    def ev_BoolOp(self, n):
        # exact value semantics of and/or
        vals = n.values
        cur = self.ev(vals[0])
        for nxt in vals[1:]:
            t = truthy(cur)
            if isinstance(n.op, ast.And):
                if isinstance(t, bool):
                    if not t:
                        return cur
                    cur = self.ev(nxt)
                else:
                    if getattr(self, '_in_spec', 0):
                        cur = self.ite(t, self.ev(nxt), cur) if not is_boollike(cur) else \
                            b_and(t, self.as_bool_if_possible(self.ev(nxt)))
                    elif self.choose(t, 'and'):
                        cur = self.ev(nxt)
                    else:
                        return cur
            else:
                if isinstance(t, bool):
                    if t:
                        return cur
                    cur = self.ev(nxt)
                else:
                    if getattr(self, '_in_spec', 0):
                        cur = self.ite(t, cur, self.ev(nxt)) if not is_boollike(cur) else \
                            b_or(t, self.as_bool_if_possible(self.ev(nxt)))
                    elif self.choose(t, 'or'):
                        return cur
                    else:
                        cur = self.ev(nxt)
        return cur

    def as_bool_if_possible(self, v):
        t = truthy(v)
        return t

    def ev_UnaryOp(self, n):
        v = self.ev(n.operand)
        if isinstance(n.op, ast.Not):
            return b_not(truthy(v))
        if isinstance(n.op, ast.USub):
            if isinstance(v, int):
                return -v
            return -toint(v)
        if isinstance(n.op, ast.UAdd):
            return v
        if isinstance(n.op, ast.Invert):
            return -toint(v) - 1
        raise Unsupported('unary op')

    def ev_BinOp(self, n):
        return self.binop(n.op, self.ev(n.left), self.ev(n.right))

    def binop(self, op, a, b):
        # string formatting and string concat: opaque
        if isinstance(a, (str, OpaqueStr)) and isinstance(op, (ast.Mod, ast.Add)):
            return OpaqueStr()
        if isinstance(b, (str, OpaqueStr)) and isinstance(op, ast.Add):
            return OpaqueStr()
        if isinstance(a, bytes):
            a = SeqV(mk_seq(list(a)), 'bytes')
        if isinstance(b, bytes):
            b = SeqV(mk_seq(list(b)), 'bytes')
        if isinstance(a, (int, bool)) and isinstance(b, (int, bool)) and not isinstance(op, (ast.Div,)):
            return self.concrete_binop(op, int(a), int(b))
        if isinstance(a, SeqV) and isinstance(b, SeqV) and isinstance(op, ast.Add):
            if a.kind != b.kind and 'any' not in (a.kind, b.kind):
                raise _Raise(ExcV('TypeError'))
            k = a.kind if a.kind != 'any' else b.kind
            z = Concat(a.z, b.z)
            self.pc.append(inr_fact_concat(z, a.z, b.z))
            return SeqV(z, k)
        if isinstance(a, SeqV) and isinstance(b, Tup) and isinstance(op, ast.Add) and not b.items:
            return a
        if isinstance(a, Tup) and isinstance(b, Tup) and isinstance(op, ast.Add):
            return Tup(a.items + b.items, a.kind)
        if isinstance(a, Tup) and isinstance(b, SeqV) and isinstance(op, ast.Add) and not a.items:
            return b
        if isinstance(a, Tup) and isinstance(b, SeqV) and isinstance(op, ast.Add) and z3.is_app(b.z) and \
                b.z.decl().kind() == z3.Z3_OP_SEQ_EMPTY:
            return a          # tuple + ()
        if isinstance(a, Obj) and '__add__' in a.methods and isinstance(op, ast.Add):
            return a.methods['__add__'](self, a, b)
        if isinstance(b, Obj) and '__radd__' in b.methods and isinstance(op, ast.Add):
            return b.methods['__radd__'](self, b, a)
        if isinstance(a, Tup) and a.kind == 'list' and len(a.items) == 1 and isinstance(op, ast.Mult) and \
                concrete(b) is None and getattr(self.c, 'list_repeat', None) is not None:
            # [x] * n with a symbolic n: the contract's model of a list of symbolic length
            return self.c.list_repeat(self, a.items[0], b)
        if isinstance(a, Obj) and isinstance(op, ast.LShift) and '__lshift__' in a.methods:
            return a.methods['__lshift__'](self, a, b)
        for _opcls, _nm in ((ast.BitOr, 'or'), (ast.RShift, 'rshift'), (ast.BitAnd, 'and')):
            if isinstance(op, _opcls):
                if isinstance(a, Obj) and ('__%s__' % _nm) in a.methods:
                    return a.methods['__%s__' % _nm](self, a, b)
                if isinstance(b, Obj) and ('__r%s__' % _nm) in b.methods:
                    return b.methods['__r%s__' % _nm](self, b, a)
        if isinstance(a, SeqV) or isinstance(b, SeqV):
            if isinstance(op, ast.Mult):
                s, k = (a, b) if isinstance(a, SeqV) else (b, a)
                ck = concrete(k)
                if ck is not None:
                    z = Empty(S)
                    for _ in range(ck):
                        z = Concat(z, s.z)
                    return SeqV(z, s.kind)
            raise Unsupported('sequence op %s' % type(op).__name__)
        if not ((is_intlike(a) or is_boollike(a)) and (is_intlike(b) or is_boollike(b))):
            raise Unsupported('binop %s on %r, %r' % (type(op).__name__, a, b))
        if isinstance(op, ast.BitAnd):
            cb = concrete(b)
            ca = concrete(a)
            if cb is not None and cb >= 0:
                return mask_and(a, cb)
            if ca is not None and ca >= 0:
                return mask_and(b, ca)
            return self.bitop_sym(a, b, 'and')
        if isinstance(op, ast.BitOr):
            cb = concrete(b)
            ca = concrete(a)
            if cb is not None and cb >= 0:
                return toint(a) + cb - mask_and(a, cb)
            if ca is not None and ca >= 0:
                return toint(b) + ca - mask_and(b, ca)
            # (x << w) | y with 0 <= y < 2**w: the operands have disjoint bits, so | is +  (proved on this path)
            za, zb = toint(a), toint(b)
            for w in (7, 8):
                if not self.feasible(Not(And(za % (2 ** w) == 0, zb >= 0, zb < 2 ** w))):
                    return za + zb
            w_ = getattr(self, 'lshift_width', {}).get(za.get_id()) if hasattr(za, 'get_id') else None
            if w_ is not None and not self.feasible(Not(And(zb >= 0, zb < self.X.pow2(w_)))):
                return za + zb                  # the same rule for a symbolic width: za is x * 2**w by construction
            return self.bitop_sym(a, b, 'or')
        if isinstance(op, ast.BitXor):
            return self.bitop_sym(a, b, 'xor')
        a = toint(a)
        b = toint(b)
        if isinstance(op, ast.Add):
            return a + b
        if isinstance(op, ast.Sub):
            return a - b
        if isinstance(op, ast.Mult):
            return a * b
        if isinstance(op, (ast.FloorDiv, ast.Mod)):
            cb = concrete(b)
            if cb is None:
                if not self.choose(b != 0, 'div0'):
                    raise _Raise(ExcV('ZeroDivisionError'))
                if not getattr(self, '_in_spec', 0):
                    self.vc('%s#safety.positive-divisor' % self.c.id, b > 0, note='python // and % by a '
                            'negative divisor are not modelled')
            elif cb == 0:
                raise _Raise(ExcV('ZeroDivisionError'))
            elif cb < 0:
                raise Unsupported('negative constant divisor')
            return a / b if isinstance(op, ast.FloorDiv) else a % b
        if isinstance(op, ast.RShift):
            k = concrete(b)
            if k is not None:
                if k < 0:
                    raise _Raise(ExcV('ValueError'))
                return a / (2 ** k)
            return a / self.X.pow2(b)
        if isinstance(op, ast.LShift):
            k = concrete(b)
            if k is not None:
                if k < 0:
                    raise _Raise(ExcV('ValueError'))
                return a * (2 ** k)
            r_ = a * self.X.pow2(b)
            # remember the shift width of this very term: `(x << w) | y` with 0 <= y < 2**w is `+` (disjoint bits)
            if not hasattr(self, 'lshift_width'):
                self.lshift_width = {}
            self.lshift_width[r_.get_id()] = b
            return r_
        if isinstance(op, ast.Pow):
            ca, cb = concrete(a), concrete(b)
            if ca == 2:
                return self.X.pow2(b) if cb is None else IntVal(2 ** cb)
            if cb is not None and cb >= 0:
                r = IntVal(1)
                for _ in range(cb):
                    r = r * a
                return r
            raise Unsupported('pow')
        raise Unsupported('binop %s' % type(op).__name__)

    def concrete_binop(self, op, a, b):
        import operator as o
        table = {ast.Add: o.add, ast.Sub: o.sub, ast.Mult: o.mul, ast.FloorDiv: o.floordiv, ast.Mod: o.mod,
                 ast.BitAnd: o.and_, ast.BitOr: o.or_, ast.BitXor: o.xor, ast.LShift: o.lshift,
                 ast.RShift: o.rshift, ast.Pow: o.pow}
        f = table.get(type(op))
        if f is None:
            raise Unsupported('concrete binop %s' % type(op).__name__)
        try:
            return f(a, b)
        except ZeroDivisionError:
            raise _Raise(ExcV('ZeroDivisionError'))

    def bitop_sym(self, a, b, which, w=8):
        """symbolic (op) symbolic: only for operands proved in [0, 2^w): bit-blasted."""
        a = toint(a)
        b = toint(b)
        if not getattr(self, '_in_spec', 0):
            self.vc('%s#safety.bitwidth' % self.c.id, And(a >= 0, a < 2 ** w, b >= 0, b < 2 ** w),
                    note='symbolic bit operation modelled for %d-bit operands only' % w)
        r = IntVal(0)
        for i in range(w):
            ba = (a / (2 ** i)) % 2
            bb = (b / (2 ** i)) % 2
            if which == 'or':
                bit = Or(ba == 1, bb == 1)
            elif which == 'and':
                bit = And(ba == 1, bb == 1)
            else:
                bit = (ba != bb)
            r = r + If(bit, 2 ** i, 0)
        return r

    def ev_Compare(self, n):
        left = self.ev(n.left)
        res = []
        for op, cn in zip(n.ops, n.comparators):
            right = self.ev(cn)
            res.append(self.compare(op, left, right))
            left = right
        return b_and(*res)

    def compare(self, op, a, b):
        if isinstance(op, (ast.Is, ast.IsNot)):
            r = self.identical(a, b)
            return r if isinstance(op, ast.Is) else b_not(r)
        if isinstance(op, (ast.In, ast.NotIn)):
            r = self.contains(b, a)
            return r if isinstance(op, ast.In) else b_not(r)
        if isinstance(a, bytes):
            a = SeqV(mk_seq(list(a)), 'bytes')
        if isinstance(b, bytes):
            b = SeqV(mk_seq(list(b)), 'bytes')
        if isinstance(a, SeqV) and isinstance(b, Tup) and all(is_intlike(i) for i in b.items):
            b = SeqV(mk_seq(b.items), b.kind)
        if isinstance(b, SeqV) and isinstance(a, Tup) and all(is_intlike(i) for i in a.items):
            a = SeqV(mk_seq(a.items), a.kind)
        if isinstance(a, SeqV) and isinstance(b, SeqV):
            if isinstance(op, (ast.Eq, ast.NotEq)):
                if a.kind != b.kind and 'any' not in (a.kind, b.kind):
                    r = False
                else:
                    r = a.z == b.z
                return r if isinstance(op, ast.Eq) else b_not(r)
            raise Unsupported('sequence ordering comparison')
        if isinstance(a, Tup) and isinstance(b, Tup):
            if isinstance(op, (ast.Eq, ast.NotEq)):
                if len(a.items) != len(b.items):
                    r = False
                else:
                    r = b_and(*[self.compare(ast.Eq(), x, y) for x, y in zip(a.items, b.items)])
                return r if isinstance(op, ast.Eq) else b_not(r)
        if (a is None) or (b is None):
            if isinstance(op, (ast.Eq, ast.NotEq)):
                r = (a is None and b is None)
                return r if isinstance(op, ast.Eq) else (not r)
        if isinstance(a, str) and isinstance(b, str):
            return {ast.Eq: a == b, ast.NotEq: a != b}[type(op)]
        if isinstance(a, Obj) and '__eq__' in a.methods and isinstance(op, (ast.Eq, ast.NotEq)):
            r = a.methods['__eq__'](self, a, b)
            return r if isinstance(op, ast.Eq) else b_not(r)
        if isinstance(a, Obj) or isinstance(b, Obj) or isinstance(a, ClassV) or isinstance(b, ClassV):
            if isinstance(op, (ast.Eq, ast.NotEq)):
                r = self.identical(a, b)
                return r if isinstance(op, ast.Eq) else b_not(r)
        if (is_intlike(a) or is_boollike(a)) and (is_intlike(b) or is_boollike(b)):
            if isinstance(a, (int, bool)) and isinstance(b, (int, bool)):
                import operator as o
                return {ast.Lt: o.lt, ast.LtE: o.le, ast.Gt: o.gt, ast.GtE: o.ge, ast.Eq: o.eq,
                        ast.NotEq: o.ne}[type(op)](a, b)
            if is_boollike(a) and is_boollike(b) and isinstance(op, (ast.Eq, ast.NotEq)):
                r = tobool(a) == tobool(b)
                return r if isinstance(op, ast.Eq) else Not(r)
            x, y = toint(a), toint(b)
            return {ast.Lt: x < y, ast.LtE: x <= y, ast.Gt: x > y, ast.GtE: x >= y, ast.Eq: x == y,
                    ast.NotEq: x != y}[type(op)]
        if isinstance(a, z3.ArrayRef) and isinstance(b, z3.ArrayRef) and isinstance(op, (ast.Eq, ast.NotEq)):
            # ghost sets (characteristic functions): extensional equality
            return a == b if isinstance(op, ast.Eq) else a != b
        if isinstance(a, RecSeqV) and isinstance(b, RecSeqV) and isinstance(op, (ast.Eq, ast.NotEq)) \
                and len(a.cols) == len(b.cols) and a.eq is not None and a.eq == b.eq:
            # tuples of records: equal iff the fields that the records' own __eq__ looks at are equal, position by
            # position (declared by the contract from the real class: Tag.__eq__ compares (tagClass, tagId) only)
            r = b_and(*[a.cols[k] == b.cols[k] for k in a.eq])
            return r if isinstance(op, ast.Eq) else b_not(r)
        if isinstance(op, (ast.Eq, ast.NotEq)):
            # values of different python types are unequal
            ta, tb = self.pytype(a), self.pytype(b)
            if ta is not None and tb is not None and ta != tb:
                return isinstance(op, ast.NotEq)
        raise Unsupported('compare %s on %r, %r' % (type(op).__name__, a, b))

    @staticmethod
    def pytype(v):
        if v is None:
            return 'None'
        if is_boollike(v) or is_intlike(v):
            return 'int'
        if isinstance(v, SeqV):
            return v.kind if v.kind != 'any' else None
        if isinstance(v, (str, OpaqueStr)):
            return 'str'
        if isinstance(v, Tup):
            return v.kind
        if isinstance(v, ExcV):
            return 'exc'
        return None

    def identical(self, a, b):
        if a is None or b is None:
            return a is None and b is None
        if isinstance(a, (Obj, ClassV, ExcV, DictV, Tup, FnV)) or isinstance(b, (Obj, ClassV, ExcV, DictV, Tup, FnV)):
            if isinstance(a, ClassV) and isinstance(b, ClassV):
                return a.name == b.name
            if isinstance(a, Obj) and isinstance(b, Obj):
                if '__id__' in a.fields or '__id__' in b.fields:
                    # objects taken out of a symbolic container carry a symbolic identity token
                    ia = a.fields.get('__id__', a.uid)
                    ib = b.fields.get('__id__', b.uid)
                    return toint(ia) == toint(ib)
                return a.uid == b.uid      # old(x) is a snapshot of the same object
            return a is b
        if isinstance(a, bool) and isinstance(b, bool):
            return a is b
        if (isinstance(a, int) and isinstance(b, int)):
            return a == b      # small-int constants (decoder states): identity == equality
        if isinstance(a, SeqV) or isinstance(b, SeqV):
            if isinstance(a, SeqV) and isinstance(b, SeqV):
                raise Unsupported('identity of sequences')
            return False
        if is_boollike(a) and is_boollike(b):
            return tobool(a) == tobool(b)
        if is_intlike(a) and is_intlike(b):
            # identity of ints is only used for state constants in this code base
            return toint(a) == toint(b)
        if is_boollike(a) != is_boollike(b):
            return False
        raise Unsupported('identity of %r, %r' % (a, b))

    def contains(self, container, x):
        if isinstance(container, DictV):
            k = x if isinstance(x, str) else concrete(x)
            if k is None:
                raise Unsupported('symbolic key in dict membership')
            if k in container.entries:
                return container.entries[k][0]
            if container.closed:
                return False
            raise Unsupported('membership in open dict')
        if isinstance(container, Tup):
            return b_or(*[self.compare(ast.Eq(), x, i) for i in container.items])
        if isinstance(container, (tuple, list)):
            return b_or(*[self.compare(ast.Eq(), x, i) for i in container])
        if isinstance(container, SeqV):
            if is_intlike(x):
                return z3.Contains(container.z, Unit(toint(x)))
        if isinstance(container, Obj) and '__contains__' in container.methods:
            return container.methods['__contains__'](self, container, x)
        raise Unsupported('membership in %r' % (container,))

    def ev_Subscript(self, n):
        base = self.ev(n.value)
        if isinstance(n.slice, ast.Slice):
            lo = self.ev(n.slice.lower) if n.slice.lower is not None else None
            hi = self.ev(n.slice.upper) if n.slice.upper is not None else None
            if n.slice.step is not None:
                raise Unsupported('slice step')
            return self.slice(base, lo, hi)
        k = self.ev(n.slice)
        return self.index(base, k)

    def slice(self, base, lo, hi):
        if isinstance(base, bytes):
            base = SeqV(mk_seq(list(base)), 'bytes')
        if isinstance(base, Tup):
            clo = 0 if lo is None else concrete(lo)
            chi = len(base.items) if hi is None else concrete(hi)
            if clo is None or chi is None:
                raise Unsupported('symbolic slice of heterogeneous tuple')
            return Tup(base.items[clo:chi], base.kind)
        if isinstance(base, Obj) and '__getslice__' in base.methods:
            return base.methods['__getslice__'](self, base, lo, hi)
        if not isinstance(base, SeqV):
            raise Unsupported('slice of %r' % (base,))
        n = Length(base.z)

        def norm(v, default):
            if v is None:
                return default
            v = toint(v)
            cv = concrete(v)
            if cv is not None:
                return IntVal(cv) if cv >= 0 else If(n + cv < 0, IntVal(0), n + cv)
            return If(v < 0, If(n + v < 0, IntVal(0), n + v), v)
        return SeqV(seq_slice(base.z, norm(lo, IntVal(0)), norm(hi, n)), base.kind, octets=base.octets)

    def index(self, base, k):
        if isinstance(base, bytes):
            base = SeqV(mk_seq(list(base)), 'bytes')
        if isinstance(base, Tup):
            ck = concrete(k)
            if ck is None:
                raise Unsupported('symbolic index into heterogeneous tuple')
            if not (-len(base.items) <= ck < len(base.items)):
                raise _Raise(ExcV('IndexError'))
            return base.items[ck]
        if isinstance(base, (tuple, list)):
            ck = concrete(k)
            if ck is None:
                raise Unsupported('symbolic index into constant tuple')
            return base[ck]
        if isinstance(base, DictV):
            ck = k if isinstance(k, str) else concrete(k)
            if ck is None:
                raise Unsupported('symbolic dict key')
            if ck not in base.entries:
                if base.closed:
                    raise _Raise(ExcV('KeyError'))
                raise Unsupported('lookup in open dict')
            p, v = base.entries[ck]
            if not self.choose(z3bool(p) if not isinstance(p, bool) else p, 'haskey'):
                raise _Raise(ExcV('KeyError'))
            return v
        if isinstance(base, Obj) and '__getitem__' in base.methods:
            return base.methods['__getitem__'](self, base, k)
        if isinstance(base, RecSeqV):
            k = toint(k)
            n = base.length
            if getattr(self, '_in_spec', 0):
                return base.elem(If(k < 0, n + k, k))
            if not self.choose(And(k >= -n, k < n), 'index'):
                raise _Raise(ExcV('IndexError'))
            return base.elem(If(k < 0, n + k, k))
        if not isinstance(base, SeqV):
            raise Unsupported('index into %r' % (base,))
        k = toint(k)
        n = Length(base.z)
        inb = And(k >= -n, k < n)
        if getattr(self, '_in_spec', 0):
            ck = concrete(k)
            if (ck is not None and ck >= 0) or not self.feasible(k < 0):
                e = base.z[k]
                if base.octets:
                    self.pc.append(Implies(k < n, And(e >= 0, e <= 255)))
                return e
            e = base.z[If(k < 0, n + k, k)]
            if base.octets:
                self.pc.append(Implies(inb, And(e >= 0, e <= 255)))
            return e
        if not self.choose(inb, 'index'):
            raise _Raise(ExcV('IndexError'))
        ck = concrete(k)
        e = base.z[k] if (ck is not None and ck >= 0) else base.z[If(k < 0, n + k, k)]
        if base.octets:
            self.pc.append(And(e >= 0, e <= 255))
        return e

    def ev_Lambda(self, n):
        if n.args.vararg or n.args.kwarg or n.args.kwonlyargs or n.args.defaults:
            raise Unsupported('lambda with defaults / star arguments')
        names = [a.arg for a in n.args.args]
        outer = self

        def fn(ex, *args):
            if len(args) != len(names):
                raise _Raise(ExcV('TypeError'))
            saved = {k: ex.env.get(k, _MISSING) for k in names}
            try:
                for k, v in zip(names, args):
                    ex.env[k] = v
                return ex.ev(n.body)
            finally:
                for k, v in saved.items():
                    if v is _MISSING:
                        ex.env.pop(k, None)
                    else:
                        ex.env[k] = v
        return FnV(fn, 'lambda')

    def ev_ListComp(self, n):
        if len(n.generators) != 1:
            raise Unsupported('nested comprehension')
        g = n.generators[0]
        seq = self.ev(g.iter)
        if isinstance(seq, Obj) and '__iter__' in seq.methods:
            seq = seq.methods['__iter__'](self, seq)          # a model object that lists its members
        items = seq.items if isinstance(seq, Tup) else (list(seq) if isinstance(seq, (tuple, list)) else None)
        if items is None:
            raise Unsupported('comprehension over symbolic sequence')
        out = []
        for it in items:
            self.assign(g.target, it)
            if all(self.choose(truthy(self.ev(c)), 'compif') for c in g.ifs):
                out.append(self.ev(n.elt))
        return Tup(out, 'list')

    def ev_JoinedStr(self, n):
        return OpaqueStr()

    def ev_Yield(self, n):
        v = self.ev(n.value) if n.value is not None else None
        self.on_yield(v)
        return None

    def is_result_value(self, v):
        if v is None or (isinstance(v, ExcV) and exc_isa(self.exc_graph, v.cls, 'SubstrateUnderrunError')):
            return False
        if v is END_OF_OCTETS:
            return False
        return True

    def on_yield(self, v):
        c = self.c
        idx = len([t for t in self.trace if t[0] == 'yield'])
        self.trace.append(('yield', v))
        if self.is_result_value(v):
            self.vy = True
        env = self.spec_env(self.env, y=v, nyield=idx)
        for i, cl in enumerate(c.yield_ensures):
            name, text = cl if isinstance(cl, tuple) else (str(i), cl)
            self.vc('%s#yield.%s' % (c.id, name), self.spec_bool(text, env), kind='external')

    # ---- calls ------------------------------------------------------------------
    def lookup_call_model(self, key):
        m = self.c.calls.get(key)
        if m is not None:
            return m
        return None

    def eval_kwargs(self, n):
        kw = {}
        for k in n.keywords:
            if k.arg is None:
                v = self.ev(k.value)
                if isinstance(v, DictV):
                    kw['**'] = v
                else:
                    raise Unsupported('** of %r' % (v,))
            else:
                kw[k.arg] = self.ev(k.value)
        return kw

    def ev_Call(self, n):
        key = ast.unparse(n.func)
        if key == 'old':
            return self.ev_in(self.old_env, n.args[0])
        if key == 'iter_old':
            return self.ev_in(self.iter_old_env, n.args[0])
        if key == 'loop_entry':
            return self.ev_in(self._loop_entry, n.args[0])
        if key == 'value_yielded':
            return self.vy
        if key == 'last_yield':
            ys = [t[1] for t in self.trace if t[0] == 'yield']
            return ys[-1] if ys else Obj('NoYield', {}, name='<no yield>')
        if key == 'nyields':
            return len([t for t in self.trace if t[0] == 'yield'])
        if key == 'iter_values':
            # result values (not underrun markers / None) yielded since the current iteration of a cut loop began
            start = getattr(self, '_iter_trace_start', 0)
            return len([t for t in self.trace[start:] if t[0] == 'yield' and self.is_result_value(t[1])])
        if key in ('last_result', 'last_args', 'last_kwargs'):
            k = n.args[0].value
            if k not in self.last_call:
                raise NoCallRecorded('no call of %s recorded on this path' % k)
            a, r = self.last_call[k]
            if key == 'last_kwargs':
                return self.last_call_kwargs[k]
            return r if key == 'last_result' else Tup(a)
        model = self.lookup_call_model(key)
        if model is None:
            f = self.ev(n.func)
        else:
            f = model
        args = []
        star = None
        for a in n.args:
            if isinstance(a, ast.Starred):
                v = self.ev(a.value)
                if isinstance(v, Tup):
                    args.extend(v.items)
                elif isinstance(v, SeqV) and a is n.args[-1]:
                    # a sequence of unknown length as the trailing positional arguments: handed to the callee's model
                    # whole, under the keyword '*' (models that do not take it refuse the call)
                    star = v
                else:
                    raise Unsupported('*args of %r' % (v,))
            else:
                args.append(self.ev(a))
        kwargs = self.eval_kwargs(n)
        if star is not None:
            kwargs['*'] = star
        kwsnap = None
        if model is not None:
            # snapshot of the keyword arguments as the callee sees them (** expanded), for last_kwargs("...")
            kwsnap = DictV(dict(kwargs['**'].entries) if '**' in kwargs else {})
            for k_, v_ in kwargs.items():
                if k_ != '**':
                    kwsnap.entries[k_] = (True, v_)
        r = self.call(f, args, kwargs, key)
        if model is not None:
            self.last_call[key] = (args, r)
            self.last_call_kwargs[key] = kwsnap
        return r

    def call(self, f, args, kwargs, key='?'):
        if isinstance(f, FnV):
            return f.fn(self, *args, **kwargs)
        if isinstance(f, ClassV):
            if f.name in self.exc_graph:
                return ExcV(f.name, args, kwargs)
            raise Unsupported('construction of %s' % f.name)
        if isinstance(f, Obj) and '__call__' in f.methods:
            return f.methods['__call__'](self, f, *args, **kwargs)
        if callable(f):
            return f(self, *args, **kwargs)
        raise Unsupported('call of %s (%r)' % (key, f))

    def ev_in(self, env, node):
        saved = self.env
        self.env = env
        try:
            return self.ev(node)
        finally:
            self.env = saved


class _Memo(dict):
    """deepcopy memo that shares immutable z3 expressions."""

    def __missing__(self, key):
        raise KeyError(key)


_MISSING = object()


def _z3_deepcopy(self, memo):
    return self


for _cls in (z3.ExprRef, z3.SortRef, z3.FuncDeclRef, z3.AstRef):
    _cls.__deepcopy__ = _z3_deepcopy
FnV.__deepcopy__ = lambda self, memo: self
ClassV.__deepcopy__ = lambda self, memo: self


from pyvc.astutil import d1_forwarding_shape  # noqa: E402  (z3-free, shared with pyvc.tables)


# ----------------------------------------------------------------------------------
# builtin models
# ----------------------------------------------------------------------------------
def _len(ex, v):
    if isinstance(v, SeqV):
        return Length(v.z)
    if isinstance(v, RecSeqV):
        return v.length
    if isinstance(v, Tup):
        return len(v.items)
    if isinstance(v, (bytes, str, tuple, list)):
        return len(v)
    if isinstance(v, DictV):
        raise Unsupported('len(dict)')
    if isinstance(v, Obj) and '__len__' in v.methods:
        return v.methods['__len__'](ex, v)
    if v is None or is_intlike(v):
        raise _Raise(ExcV('TypeError'))
    raise Unsupported('len(%r)' % (v,))


def _minmax(which):
    def f(ex, *args):
        if len(args) == 1 and isinstance(args[0], Tup):
            args = args[0].items
        if len(args) == 1 and isinstance(args[0], Obj) and ('__%s__' % which) in args[0].methods:
            return args[0].methods['__%s__' % which](ex, args[0])
        if len(args) < 2:
            raise Unsupported('min/max of one argument')
        cur = args[0]
        for a in args[1:]:
            if isinstance(cur, int) and isinstance(a, int):
                cur = min(cur, a) if which == 'min' else max(cur, a)
            else:
                x, y = toint(cur), toint(a)
                cur = If(x <= y, x, y) if which == 'min' else If(x >= y, x, y)
        return cur
    return f


def _map(ex, f, seq):
    if not isinstance(seq, Tup):
        raise Unsupported('map over %r' % (seq,))
    return Tup([ex.call(f, [i], {}) for i in seq.items], 'list')


def _sorted(ex, seq, key=None, reverse=False):
    if not isinstance(seq, Tup):
        raise Unsupported('sorted(%r)' % (seq,))
    out = Tup(list(seq.items), 'list')
    _list_sort(ex, out, key=key, reverse=reverse)
    return out


def _any(ex, seq):
    if not isinstance(seq, Tup):
        raise Unsupported('any(%r)' % (seq,))
    return b_or(*[truthy(i) for i in seq.items]) if seq.items else False


def _frozenset(ex, seq=None):
    """frozenset of concrete ints / strings (the items of a fully unrolled comprehension)"""
    items = [] if seq is None else (seq.items if isinstance(seq, Tup) else None)
    if items is None or not all(isinstance(i, (int, str)) for i in items):
        raise Unsupported('frozenset(%r)' % (seq,))
    return Obj('frozenset', {'members': Tup(sorted(set(items), key=repr))}, {'__contains__': lambda ex2, self, x: concrete(x) in set(items)},
               name='frozenset')


def _reversed(ex, seq):
    if not isinstance(seq, Tup):
        raise Unsupported('reversed(%r)' % (seq,))
    return Tup(list(reversed(seq.items)), 'list')


def _abs(ex, v):
    if isinstance(v, int):
        return abs(v)
    v = toint(v)
    return If(v >= 0, v, -v)


def _int(ex, v=0, base=None):
    if is_intlike(v) or is_boollike(v):
        return toint(v) if not isinstance(v, int) else int(v)
    if isinstance(v, Obj) and '__int__' in v.methods:
        return v.methods['__int__'](ex, v)
    if isinstance(v, SeqV) and v.kind == 'bytes' and base is None:
        # A-BUILTIN: int(bytes) parses a decimal literal: ValueError for anything else (also for literals beyond
        # the interpreter's digit limit); the parsed number is an uninterpreted function of the octets
        if ex.choose(ex.fresh('int.literal.bad', BoolSort()), 'int-literal'):
            raise _Raise(ExcV('ValueError'))
        return z3.Function('parse_int', S, z3.IntSort())(v.z)
    raise Unsupported('int(%r)' % (v,))


def _float(ex, v=0):
    """A-BUILTIN: float(bytes|int) -> an opaque float object; ValueError for a malformed literal (never OverflowError:
    out-of-range literals give inf)"""
    if isinstance(v, SeqV) and v.kind == 'bytes':
        if ex.choose(ex.fresh('float.literal.bad', BoolSort()), 'float-literal'):
            raise _Raise(ExcV('ValueError'))
        return Obj('float', {'of': v}, name='float(..)')
    raise Unsupported('float(%r)' % (v,))


def _bool(ex, v=False):
    return truthy(v)


def _ord(ex, v):
    if isinstance(v, SeqV):
        if not ex.choose(Length(v.z) == 1, 'ord'):
            raise _Raise(ExcV('TypeError'))
        if v.octets:
            ex.pc.append(And(v.z[0] >= 0, v.z[0] <= 255))
        return v.z[0]
    if is_intlike(v):
        raise _Raise(ExcV('TypeError'))
    raise Unsupported('ord(%r)' % (v,))


def _isinstance(ex, v, cls):
    names = []
    if isinstance(cls, Tup):
        cl = cls.items
    else:
        cl = [cls]
    for c in cl:
        if isinstance(c, ClassV):
            names.append(c.name)
        elif isinstance(c, FnV):
            names.append(c.name)
        else:
            raise Unsupported('isinstance against %r' % (c,))
    res = False
    for nm in names:
        res = b_or(res, ex.isinstance1(v, nm))
    return res


def _isinstance1(self, v, nm):
    if isinstance(v, ExcV):
        return exc_isa(self.exc_graph, v.cls, nm)
    if nm in self.exc_graph:
        return False
    if isinstance(v, SeqV):
        return {'bytes': v.kind == 'bytes', 'tuple': v.kind == 'tuple', 'list': v.kind == 'list'}.get(nm, False)
    if isinstance(v, Tup):
        return nm == v.kind
    if is_boollike(v):
        return nm in ('bool', 'int')
    if is_intlike(v):
        return nm == 'int'
    if v is None:
        return False
    if isinstance(v, (str, OpaqueStr)):
        return nm == 'str'
    if isinstance(v, Obj):
        if nm == v.cls or nm in v.bases:
            return True
        if '__isinstance__' in v.methods:
            return v.methods['__isinstance__'](self, v, nm)
        return False
    raise Unsupported('isinstance(%r, %s)' % (v, nm))


Executor.isinstance1 = _isinstance1


def _tuple(ex, v=None):
    if v is None:
        return SeqV(Empty(S), 'tuple')
    if isinstance(v, SeqV):
        return SeqV(v.z, 'tuple', octets=v.octets)
    if isinstance(v, Tup):
        return Tup(v.items, 'tuple')
    raise Unsupported('tuple(%r)' % (v,))


def _list(ex, v=None):
    if v is None:
        return Tup([], 'list')
    if isinstance(v, SeqV):
        return SeqV(v.z, 'list', octets=v.octets)
    if isinstance(v, Tup):
        return Tup(v.items, 'list')
    raise Unsupported('list(%r)' % (v,))


def _bytes(ex, v=None):
    """bytes(iterable of ints): ValueError unless every element is in range(256)."""
    if v is None:
        return SeqV(Empty(S), 'bytes')
    if isinstance(v, Tup) and all(is_intlike(i) for i in v.items):
        z = mk_seq(v.items)
        ex.pc.append(inr_fact_units(z, v.items))
        v = SeqV(z, v.kind)
    if isinstance(v, SeqV):
        if v.kind == 'bytes':
            return v
        # bytes(iterable) raises ValueError iff some element is outside range(256)
        if not ex.choose(inr(v.z), 'bytes-range'):
            raise _Raise(ExcV('ValueError'))
        return SeqV(v.z, 'bytes')
    raise Unsupported('bytes(%r)' % (v,))


def _hasattr(ex, v, name):
    if isinstance(v, Obj):
        return name in v.fields or name in v.methods
    raise Unsupported('hasattr(%r)' % (v,))


def _getattr(ex, v, name, *default):
    """getattr(obj, 'name'[, default]) with a literal name: the field of a modelled object; None and python scalars have no
    attributes of the repository's vocabulary"""
    if not isinstance(name, str):
        raise Unsupported('getattr with a computed name')
    if isinstance(v, Obj):
        if name in v.fields:
            return v.fields[name]
        if name in v.methods:
            raise Unsupported('getattr of a modelled method')
    elif v is not None and not isinstance(v, (bool, int, Tup, SeqV)):
        raise Unsupported('getattr(%r)' % (v,))
    if default:
        return default[0]
    raise _Raise(ExcV('AttributeError'))


def _enumerate(ex, v):
    if isinstance(v, Tup):
        return Tup([Tup([i, x]) for i, x in enumerate(v.items)], 'list')
    raise Unsupported('enumerate outside for')


def _range(ex, *a):
    ca = [concrete(x) for x in a]
    if any(x is None for x in ca):
        raise Unsupported('symbolic range')
    return Tup(list(range(*ca)), 'list')


def _next(ex, g):
    raise Unsupported('next()')


def _dict_ctor(ex, d=None, **kw):
    out = DictV()
    if d is not None:
        if not isinstance(d, DictV):
            raise Unsupported('dict(%r)' % (d,))
        out.entries.update(d.entries)
        out.closed = d.closed
    for k, v in kw.items():
        if k == '**':
            out.entries.update(v.entries)
        else:
            out.entries[k] = (True, v)
    return out


BUILTINS = {
    'len': FnV(_len, 'len'), 'min': FnV(_minmax('min'), 'min'), 'max': FnV(_minmax('max'), 'max'),
    'any': FnV(lambda ex, seq: _any(ex, seq), 'any'), 'frozenset': FnV(lambda ex, seq=None: _frozenset(ex, seq), 'frozenset'),
    'map': FnV(lambda ex, f, seq: _map(ex, f, seq), 'map'), 'sorted': FnV(lambda ex, seq, key=None, reverse=False: _sorted(ex, seq, key, reverse), 'sorted'), 'reversed': FnV(lambda ex, seq: _reversed(ex, seq), 'reversed'),
    'abs': FnV(_abs, 'abs'), 'int': FnV(_int, 'int'), 'float': FnV(_float, 'float'), 'bool': FnV(_bool, 'bool'), 'ord': FnV(_ord, 'ord'),
    'isinstance': FnV(_isinstance, 'isinstance'), 'tuple': FnV(_tuple, 'tuple'), 'list': FnV(_list, 'list'),
    'bytes': FnV(_bytes, 'bytes'), 'hasattr': FnV(_hasattr, 'hasattr'), 'enumerate': FnV(_enumerate, 'enumerate'),
    'getattr': FnV(_getattr, 'getattr'),
    'range': FnV(_range, 'range'), 'True': True, 'False': False, 'None': None,
    'dict': FnV(_dict_ctor, 'dict'),
    'str': FnV(lambda ex, *a: OpaqueStr(), 'str'), 'repr': FnV(lambda ex, *a: OpaqueStr(), 'repr'),
}


def _seq_ljust(ex, s, width, fill):
    raise Unsupported('ljust')


def _seq_join(ex, s, parts):
    if isinstance(parts, Tup):
        z = Empty(S)
        for k, p in enumerate(parts.items):
            if k:
                z = Concat(z, s.z)
            z = Concat(z, p.z)
        return SeqV(z, s.kind)
    if isinstance(parts, Obj) and '__join__' in parts.methods:
        return parts.methods['__join__'](ex, parts, s)        # a modelled list of byte strings of symbolic length
    raise Unsupported('join of symbolic list')


def _seq_ljust(ex, sq, width, fill):
    """bytes.ljust(width, b'\\x00'): padded on the right with zero octets up to `width` (unchanged if already longer)"""
    fz = fill.z if isinstance(fill, SeqV) else None
    if fz is None or not (z3.is_app(z3.simplify(Length(fz))) and concrete(z3.simplify(Length(fz))) == 1) or \
            concrete(z3.simplify(fz[0])) != 0:
        raise Unsupported('ljust with a fill other than one zero octet')
    from spec.smt import zeros
    w = toint(width)
    k = If(w > Length(sq.z), w - Length(sq.z), IntVal(0))
    ex.assume(Length(zeros(k)) == k)
    z = Concat(sq.z, zeros(k))
    return SeqV(z, sq.kind)


SEQ_METHODS = {'join': _seq_join, 'ljust': _seq_ljust}


# order of python bytes objects (lexicographic): abstract total preorder, instantiated for the keys that are compared
SEQ_LE = z3.Function('bytes_le', S, S, BoolSort())


def _list_sort(ex, lst, key=None, reverse=False):
    """list.sort(key=...): A-BUILTIN -- the result is the stable arrangement of the items with non-decreasing keys
    (keys compared as python bytes: a total order, axiomatised for the keys at hand).  Lists of up to 4 items."""
    items = list(lst.items)
    n = len(items)
    if n > 4:
        raise Unsupported('sort of more than 4 items')
    keys = [ex.call(key, [it], {}) if key is not None else it for it in items]
    if all(isinstance(k, SeqV) for k in keys):
        kz = [k.z for k in keys]
        for a in kz:
            for b in kz:
                ex.assume(Or(SEQ_LE(a, b), SEQ_LE(b, a)))
                ex.assume(z3.Implies(And(SEQ_LE(a, b), SEQ_LE(b, a)), a == b))
                for c in kz:
                    ex.assume(z3.Implies(And(SEQ_LE(a, b), SEQ_LE(b, c)), SEQ_LE(a, c)))
        le_of = lambda x, y: SEQ_LE(x, y)
    elif all(isinstance(k, Tup) and all(is_intlike(i) for i in k.items) for k in keys) and len({len(k.items) for k in keys}) <= 1:
        # tuples of ints of one length: python's lexicographic order, stated directly
        kz = [[toint(i) for i in k.items] for k in keys]

        def le_of(x, y):
            out = BoolVal(True)
            for xi, yi in reversed(list(zip(x, y))):
                out = Or(xi < yi, And(xi == yi, out))
            return out
    else:
        raise Unsupported('sort keys that are neither byte strings nor equal-length tuples of ints')
    import itertools
    rev = concrete(reverse) if not isinstance(reverse, bool) else reverse
    if rev is None:
        raise Unsupported('symbolic reverse flag')
    for perm in itertools.permutations(range(n)):
        conds = []
        for i, j in zip(perm, perm[1:]):
            le = le_of(kz[j], kz[i]) if rev else le_of(kz[i], kz[j])
            strictly = Not(le_of(kz[i], kz[j])) if rev else Not(le_of(kz[j], kz[i]))
            # stable: equal keys keep their original order
            conds.append(And(le, Or(strictly, BoolVal(i < j))))
        if ex.choose(And(*conds) if conds else BoolVal(True), 'sorted-as-%s' % (perm,)):
            lst.items[:] = [items[i] for i in perm]
            return None
    raise _PathEnd()




def _list_append(ex, lst, v):
    lst.items.append(v)


LIST_METHODS = {'append': _list_append, 'sort': _list_sort}


def _dict_get(ex, d, key, default=None):
    k = key if isinstance(key, str) else concrete(key)
    if k is None:
        raise Unsupported('symbolic dict key')
    if k not in d.entries:
        if d.closed:
            return default
        raise Unsupported('get on open dict (key %r not declared)' % (k,))
    p, v = d.entries[k]
    if isinstance(p, bool):
        return v if p else default
    return ex.ite(p, v, default)


def _dict_update(ex, d, other=None, **kw):
    if other is not None:
        if not isinstance(other, DictV):
            raise Unsupported('dict.update(%r)' % (other,))
        for k, (p, v) in other.entries.items():
            if p is True:
                d.entries[k] = (True, v)
            elif p is False:
                pass
            elif ex.choose(p, 'has:%s' % k):
                d.entries[k] = (True, v)
    for k, v in kw.items():
        d.entries[k] = (True, v)


def _dict_pop(ex, d, key, *default):
    k = key if isinstance(key, str) else concrete(key)
    if k not in d.entries:
        if d.closed:
            if default:
                return default[0]
            raise _Raise(ExcV('KeyError'))
        raise Unsupported('pop on open dict')
    p, v = d.entries[k]
    d.entries[k] = (False, v)
    if isinstance(p, bool):
        if p:
            return v
        if default:
            return default[0]
        raise _Raise(ExcV('KeyError'))
    if ex.choose(p, 'pop'):
        return v
    if default:
        return default[0]
    raise _Raise(ExcV('KeyError'))


def _dict_copy(ex, d):
    return DictV(dict(d.entries), d.closed)


def _dict_items(ex, d):
    """items() of a dict with declared keys: forks on the presence of each maybe-present key"""
    if not d.closed:
        raise Unsupported('items() of an open dict')
    out = []
    for k, (p, v) in d.entries.items():
        if isinstance(p, bool):
            if p:
                out.append(Tup([k, v]))
        elif ex.choose(p, 'has:%s' % k):
            out.append(Tup([k, v]))
    return Tup(out, 'list')


DICT_METHODS = {'get': _dict_get, 'update': _dict_update, 'pop': _dict_pop, 'copy': _dict_copy, 'items': _dict_items}


def _int_bit_length(ex, v):
    v = toint(v)
    ex.assume(ex.X.bit_length_axioms(v))      # A-BUILTIN: CPython's documented definition
    return ex.X.bit_length(v)


def _int_to_bytes(ex, v, length, byteorder='big', signed=False):
    if byteorder != 'big':
        raise Unsupported('little endian')
    return ex.X.int_to_bytes(ex, toint(v), toint(length), signed)


def _int_from_bytes(ex, b, byteorder='big', signed=False):
    if byteorder != 'big':
        raise Unsupported('little endian')
    if not isinstance(signed, bool):
        raise Unsupported('symbolic signed flag')
    if not isinstance(b, SeqV):
        raise Unsupported('int.from_bytes(%r)' % (b,))
    return ex.X.int_from_bytes(ex, b, signed)


INT_METHODS = {'bit_length': _int_bit_length, 'to_bytes': _int_to_bytes}


_DG = None
def _novalue_plug(ex, self, *a, **kw):
    # base.NoValue: every operator of str/int/list/dict is a plug raising PyAsn1Error (read from the class: getPlug)
    raise _Raise(ExcV('PyAsn1Error'))


NOVALUE = Obj('NoValue', {'__truthy__': False}, {'__getitem__': _novalue_plug, '__setitem__': _novalue_plug,
                                                 '__contains__': _novalue_plug, '__len__': _novalue_plug,
                                                 '__iter__': _novalue_plug,
                                                 # (== and != with the sentinel on the left; identity tests are not plugs)
                                                 '__eq__': _novalue_plug}, name='noValue')
END_OF_OCTETS = Obj('EndOfOctets', {}, name='eoo.endOfOctets')


def _ints2octs(ex, v=None):
    return _bytes(ex, v)


def _int2oct(ex, v):
    return _bytes(ex, Tup([v]))


def _identity(ex, v):
    return v


def _is_octets_type(ex, v):
    return ex.isinstance1(v, 'bytes')


def _consumed_model(ex, substrate):
    pos = substrate.methods['tell'](ex, substrate) if 'tell' in substrate.methods else substrate.fields['pos']
    dropped = substrate.fields.get('droppedOctets', 0)
    return pos if (isinstance(dropped, int) and dropped == 0) else toint(pos) + toint(dropped)


def default_globals():
    """names every pyasn1 module imports: read from the repo's AST where they are constants
    (pyasn1/type/tag.py), modelled from compat/octets.py's python-3 branch otherwise."""
    global _DG
    if _DG is None:
        tagc = module_int_consts('pyasn1/type/tag.py')
        _DG = {
            'tag': dict(tagc, __name__='tag'),
            'error': {'__name__': 'error'},
            'os': {'SEEK_SET': 0, 'SEEK_CUR': 1, 'SEEK_END': 2, '__name__': 'os'},
            'io': {'BytesIO': ClassV('BytesIO'), 'IOBase': ClassV('IOBase'), '__name__': 'io'},
            'null': SeqV(Empty(S), 'bytes'),
            'ints2octs': FnV(_ints2octs, 'ints2octs'), 'int2oct': FnV(_int2oct, 'int2oct'),
            'oct2int': FnV(_identity, 'oct2int'), 'octs2ints': FnV(_identity, 'octs2ints'),
            'isOctetsType': FnV(_is_octets_type, 'isOctetsType'),
            'noValue': NOVALUE,
            'sys': {'__name__': 'sys', 'exc_info': FnV(lambda ex: Tup([ClassV(ex.cur_exc.cls), ex.cur_exc, None]),
                                                       'sys.exc_info')},
            'eoo': {'endOfOctets': END_OF_OCTETS, '__name__': 'eoo'},
            'SubstrateUnderrunError': ClassV('SubstrateUnderrunError'),
            'PyAsn1Error': ClassV('PyAsn1Error'),
            # ber.decoder._consumed (contract ber.decoder::_consumed): tell() + droppedOctets; the stream models of the
            # decoder contracts number their positions absolutely (nothing dropped)
            '_consumed': FnV(_consumed_model, '_consumed'),
        }
    return _DG


# ----------------------------------------------------------------------------------
# discharge
# ----------------------------------------------------------------------------------
def model_value(m, v):
    """python value of symbolic value v under model m (best effort)."""
    if isinstance(v, (bool, int, str, bytes)) or v is None:
        return v
    if isinstance(v, z3.BoolRef):
        return is_true(m.eval(v, model_completion=True))
    if isinstance(v, z3.ArithRef):
        r = m.eval(v, model_completion=True)
        return r.as_long() if is_int_value(r) else str(r)
    if isinstance(v, SeqV):
        n = m.eval(Length(v.z), model_completion=True)
        if not is_int_value(n):
            return None
        n = n.as_long()
        if n > 100000:
            return {'too-long': n}
        out = []
        for i in range(n):
            e = m.eval(v.z[i], model_completion=True)
            out.append(e.as_long() if is_int_value(e) else None)
        return {'kind': v.kind, 'items': out}
    if isinstance(v, RecSeqV):
        cols = [model_value(m, SeqV(c, 'tuple')) for c in v.cols]
        try:
            return {'records': [list(r) for r in zip(*[c['items'] for c in cols])]}
        except Exception:
            return None
    if isinstance(v, Tup):
        return [model_value(m, i) for i in v.items]
    if isinstance(v, Obj):
        return {'obj': v.cls, 'fields': {k: model_value(m, f) for k, f in v.fields.items()
                                         if not k.startswith('__')}}
    if isinstance(v, DictV):
        return {'dict': {str(k): [model_value(m, p), model_value(m, x)] for k, (p, x) in v.entries.items()}}
    if isinstance(v, ExcV):
        return {'exc': v.cls}
    return repr(v)


def cvc5_dialect(text):
    import re
    return re.sub(r'\(_ ([A-Za-z0-9_!.]+) 0\)', r'\1', text)


def cross_check(vc, timeout_ms=5000):
    """second opinion on a proved VC: cvc5 on the same SMT-LIB text -> 'agree' (unsat) | 'disagree' (sat) | 'open'"""
    import subprocess
    import tempfile
    s = z3.Solver()
    for p in vc.pc:
        s.add(p)
    s.add(Not(vc.goal))
    fd, path = tempfile.mkstemp(suffix='.smt2', prefix='pyvc-x-')
    try:
        with os.fdopen(fd, 'w') as f:
            f.write(cvc5_dialect('(set-logic ALL)\n' + s.to_smt2()))
        try:
            p = subprocess.run(['/usr/bin/cvc5', '--strings-exp', '--tlimit=%d' % timeout_ms, path], capture_output=True,
                               text=True, timeout=timeout_ms / 1000 + 10)
        except (OSError, subprocess.TimeoutExpired):
            return 'open'
        out = (p.stdout or '').strip().split('\n')[0] if p.stdout else ''
        return {'unsat': 'agree', 'sat': 'disagree'}.get(out, 'open')
    finally:
        try:
            os.unlink(path)
        except OSError:
            pass


def _z3py(vc, timeout_ms, seed=None):
    s = z3.Solver()
    s.set('timeout', timeout_ms)
    if seed is not None:
        s.set('smt.random_seed', seed)
    for p in vc.pc:
        s.add(p)
    s.add(Not(vc.goal))
    return s, s.check()


def discharge(vc, rlimit=None, timeout_ms=None):
    """-> (verdict, seconds, model|None, backend)   verdict in proved/refuted/unknown.
    Portfolio, so that verdicts do not flip when all cores are busy: z3 (python API, short budget) -> z3 4.8.12 CLI ->
    cvc5 CLI on the same SMT-LIB text (only `unsat` is taken from the CLIs) -> z3 python API with the long budget."""
    import subprocess
    import tempfile
    t0 = time.time()
    long_ms = timeout_ms or TIMEOUT_MS * 3
    if vc.kind == 'lemma' and not vc.pc:
        # a lemma instance has no path condition: the same instance on another path is the same query
        key = vc.goal.sexpr()
        if key in _LEMMA_CACHE:
            v, b = _LEMMA_CACHE[key]
            return v, 0.0, None, b
        r = _discharge(vc, long_ms, t0)
        if r[0] == 'proved':
            _LEMMA_CACHE[key] = (r[0], r[3] + '(cached)')
        return r
    return _discharge(vc, long_ms, t0)


_LEMMA_CACHE = {}


def _discharge(vc, long_ms, t0):
    import subprocess
    import tempfile
    force = os.environ.get('PYVC_SELFTEST_FORCE_UNKNOWN')
    if force and force in vc.oid and TIMEOUT_MS < 60000:
        return 'unknown', 0.0, None, 'selftest'      # exercises the driver's retry / undecided paths
    s, r = _z3py(vc, 800 if vc.kind == 'lemma' else 4000)
    if r == z3.unsat:
        return 'proved', time.time() - t0, None, 'z3'
    if r == z3.sat:
        return 'refuted', time.time() - t0, s.model(), 'z3'
    # the sequence/recfun engine of z3 is erratic on identical input (0.1 s or > 10 s): re-seeded short retries are
    # cheaper than the external solvers
    for seed in ((7, 13, 29, 51, 77) if vc.kind == 'lemma' else (7, 13, 29)):
        s2, r = _z3py(vc, 800 if vc.kind == 'lemma' else 1500, seed=seed)
        if r == z3.unsat:
            return 'proved', time.time() - t0, None, 'z3(reseeded)'
        if r == z3.sat:
            return 'refuted', time.time() - t0, s2.model(), 'z3(reseeded)'
    text = '(set-logic ALL)\n' + s.to_smt2()
    fd, path = tempfile.mkstemp(suffix='.smt2', prefix='pyvc-')
    try:
        with os.fdopen(fd, 'w') as f:
            f.write(text)
        # cvc5 1.0 does not read z3's `(_ f 0)` spelling of recursive-function applications
        fd2, path2 = tempfile.mkstemp(suffix='.smt2', prefix='pyvc-c-')
        with os.fdopen(fd2, 'w') as f2:
            f2.write(cvc5_dialect(text))
        for name, cmd in (('z3-4.8', ['/usr/bin/z3', '-T:%d' % max(5, long_ms // 1000), path]),
                          ('cvc5', ['/usr/bin/cvc5', '--strings-exp', '--tlimit=%d' % long_ms, path2])):
            try:
                p = subprocess.run(cmd, capture_output=True, text=True, timeout=long_ms / 1000 + 10)
            except (OSError, subprocess.TimeoutExpired):
                continue
            out = (p.stdout or '').strip().split('\n')[0] if p.stdout else ''
            if out == 'unsat':
                return 'proved', time.time() - t0, None, name
    finally:
        for pth in (path, locals().get('path2')):
            try:
                if pth:
                    os.unlink(pth)
            except OSError:
                pass
    s, r = _z3py(vc, long_ms, seed=7)
    if r == z3.unsat:
        return 'proved', time.time() - t0, None, 'z3(long)'
    if r == z3.sat:
        return 'refuted', time.time() - t0, s.model(), 'z3(long)'
    return 'unknown', time.time() - t0, None, 'z3:' + s.reason_unknown()
