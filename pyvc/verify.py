"""Run contracts: extract -> explore -> discharge; aggregate per obligation id."""
import hashlib
import json
import multiprocessing as mp
import os
import sys
import time
import traceback

import z3

from pyvc import core
from pyvc.core import (Executor, Unsupported, ContractError, extract, extract_property, discharge, model_value,
                       BoolVal)


def _extract(contract):
    if contract.prop:
        return extract_property(contract.file, contract.qual, contract.prop)
    fn = extract(contract.file, contract.qual)
    if contract.region:
        from pyvc.core import extract_region
        test, which = contract.region if isinstance(contract.region, tuple) else (contract.region, 0)
        return extract_region(fn, test, which)
    return fn


def source_digest(fn):
    import ast
    return hashlib.sha256(ast.dump(fn).encode()).hexdigest()[:16]


CROSSCHECK = bool(os.environ.get('PYVC_CROSSCHECK'))


def describe_assumptions(contract):
    """what the verdicts of this contract rest on besides the code: its preconditions (facts about callers / type
    invariants) and the callees seen through a contract or an assumed model instead of their bodies"""
    from pyvc.core import CallContract, FnV, Obj
    out = {'requires': [c if isinstance(c, str) else c[1] for c in contract.requires], 'callees': {}}

    def doc(f):
        d = (getattr(f, '__doc__', None) or '').strip().split('\n\n')[0]
        return ' '.join(d.split())[:400] or 'assumed model (no description)'
    for name, m in contract.calls.items():
        if isinstance(m, CallContract):
            out['callees'][name] = 'contract %s (proved on its own)' % m.contract.id
        else:
            out['callees'][name] = 'assumed: ' + doc(m)

    def walk(name, v, depth=0):
        if depth > 3:
            return
        if isinstance(v, FnV):
            out['callees'].setdefault(name, 'assumed: ' + doc(v.fn))
        elif isinstance(v, dict):
            for k, x in v.items():
                if isinstance(k, str):
                    walk('%s.%s' % (name, k), x, depth + 1)
    for name, v in (contract.globals or {}).items():
        walk(name, v)
    return out


def verify_contract(contract, X, canary=True):
    """-> dict(contract=id, status, obligations={oid: {...}}, stats)"""
    t0 = time.time()
    out = {'contract': contract.id, 'target': '%s::%s' % (contract.file, contract.qual), 'obligations': {},
           'status': 'ok', 'paths': 0, 'wall_s': 0.0, 'properties': contract.properties,
           'assumed': describe_assumptions(contract), 'bounded': getattr(contract, 'bounded', None)}
    try:
        fn = _extract(contract)
        out['source_digest'] = source_digest(fn)
        ex = Executor(fn, contract, X)
        vcs = ex.explore()
        out['paths'] = ex.stats['paths']
    except Unsupported as e:
        out['status'] = 'unsupported'
        out['reason'] = str(e)
        out['wall_s'] = time.time() - t0
        return out
    except ContractError as e:
        out['status'] = 'unbindable'
        out['reason'] = str(e)
        out['wall_s'] = time.time() - t0
        return out
    except Exception as e:
        out['status'] = 'engine-error'
        out['reason'] = '%s: %s' % (type(e).__name__, e)
        out['trace'] = traceback.format_exc()[-2000:]
        out['wall_s'] = time.time() - t0
        return out
    obs = out['obligations']
    presat = False
    presat_open = False      # some path condition could not be decided within the budget (load): not a verdict
    exits, exit_sat, exit_open = 0, False, False
    # the cheapest witness first: exits with the shortest path condition
    canaries = sorted([v for v in vcs if v.kind == 'canary'], key=lambda v: len(v.pc))
    for vc in canaries + [v for v in vcs if v.kind != 'canary']:
        if vc.kind == 'canary':
            exits += 1
            # a witness is looked for on the exits with the shortest path conditions: a few quick attempts each, then
            # nothing more (undecided, never "vacuous"); the very first exit gets a patient attempt
            if not exit_sat and exits <= 5:
                budgets = ((2000, None),) if exits > 1 else ((4000, None), (4000, 7))
                for budget, seed in budgets:
                    sc = z3.Solver()
                    sc.set('timeout', budget)
                    if seed is not None:
                        sc.set('smt.random_seed', seed)
                    for p in vc.pc:
                        sc.add(p)
                    rc = sc.check()
                    if rc != z3.unknown:
                        break
                if rc == z3.unknown and getattr(contract, 'canary_witness', None):
                    # quantified models make plain satisfiability undecidable for the solver; the contract may name a corner
                    # of its input space (e.g. "the empty collection") in which the quantifiers range over nothing: a model
                    # there is a model of the path condition as well (the extra constraints only narrow it)
                    sc = z3.Solver()
                    sc.set('timeout', 8000)
                    for p in vc.pc:
                        sc.add(p)
                    for w in contract.canary_witness:
                        sc.add(w)
                    if sc.check() == z3.sat:
                        rc = z3.sat
                if rc == z3.sat:
                    exit_sat = True
                elif rc == z3.unknown:
                    exit_open = True
            elif not exit_sat:
                exit_open = True
            continue
        if vc.kind == 'vacuity':
            # pre-sat: `False` must be refutable, i.e. the path condition is satisfiable
            if not presat:
                for budget, seed in ((10000, None), (20000, 7), (core.TIMEOUT_MS * 6, 13)):
                    s = z3.Solver()
                    s.set('timeout', budget)
                    if seed is not None:
                        s.set('smt.random_seed', seed)
                    for p in vc.pc:
                        s.add(p)
                    r = s.check()
                    if r != z3.unknown:
                        break
                if r == z3.sat:
                    presat = True
                elif r == z3.unknown:
                    presat_open = True
            continue
        verdict, dt, model, backend = discharge(vc)
        o = obs.setdefault(vc.oid, {'verdict': 'proved', 'instances': 0, 'time_s': 0.0, 'backends': [],
                                    'kind': vc.kind, 'note': vc.note})
        if CROSSCHECK and verdict == 'proved' and backend.startswith('z3') and o['instances'] < 2:
            # thorough tier: the first instances of every obligation are put to cvc5 as well
            o.setdefault('cvc5', {'agree': 0, 'disagree': 0, 'open': 0})[core.cross_check(vc)] += 1
        o['instances'] += 1
        o['time_s'] += dt
        if backend not in o['backends']:
            o['backends'].append(backend)
        if verdict == 'refuted':
            if o['verdict'] != 'refuted':
                o['verdict'] = 'refuted'
                o['model'] = {k: model_value(model, v) for k, v in ex.input_syms_for(vc, model).items()} \
                    if hasattr(ex, 'input_syms_for') else {}
                o['model_raw'] = str(model)[:1500]
                o['path'] = vc.path
        elif verdict == 'unknown' and o['verdict'] == 'proved':
            o['verdict'] = 'unknown'
            o['reason'] = backend
    # vacuity guards
    obs[contract.id + '#pre-sat'] = {'verdict': 'proved' if presat else 'refuted', 'instances': 1, 'time_s': 0.0,
                                     'backends': ['z3'], 'kind': 'vacuity',
                                     'note': 'requires-clauses are satisfiable on some path'}
    if exits:
        obs[contract.id + '#exit-reachable'] = {
            'verdict': 'proved' if exit_sat else ('unknown' if exit_open else 'vacuous'), 'instances': exits, 'time_s': 0.0,
            'backends': ['z3'], 'kind': 'vacuity',
            'note': 'canary: some normal exit of the function is reachable under the contract\'s assumptions (otherwise '
                    'every postcondition would hold vacuously)'}
    if not presat:
        # vacuous only if every path condition is *proved* unsatisfiable; an undecided one is `unknown` (retried by the
        # driver with a larger budget, never reported as a violation)
        obs[contract.id + '#pre-sat']['verdict'] = 'unknown' if presat_open else 'vacuous'
    out['wall_s'] = time.time() - t0
    return out


def _input_syms_for(self, vc, model):
    """inputs of the function on the path of this VC: re-run is not needed -- parameter symbols have
    stable names, so rebuild them from the contract (fork decisions are part of the model)."""
    from pyvc.core import PSort
    res = {}

    class _Probe:
        # minimal stand-in for the executor during sort.make(): follows the model for forks
        def __init__(s, model):
            s.model = model
            s.fresh_ctr = {}
            s.env = {}
            s.pc = []

        def assume(s, cond):
            pass

        def choose(s, cond, tag=''):
            return z3.is_true(s.model.eval(cond, model_completion=True))

        def fresh(s, base, sort=core.I):
            k = s.fresh_ctr.get(base, 0)
            s.fresh_ctr[base] = k + 1
            return z3.Const('%s!%d' % (base, k), sort)
    pr = _Probe(model)
    for name, sort in self.c.params.items():
        try:
            res[name] = sort.make(pr, name) if isinstance(sort, PSort) else sort
            pr.env[name] = res[name]
        except Exception:
            res[name] = None
    for name, sort in self.c.ghost.items():
        try:
            res['ghost:' + name] = sort.make(pr, name) if isinstance(sort, PSort) else sort
        except Exception:
            pass
    return res


Executor.input_syms_for = _input_syms_for


def _worker(args):
    modname, cid = args
    import importlib
    mod = importlib.import_module(modname)
    from spec.smt import X
    for c in mod.CONTRACTS:
        if c.id == cid:
            return verify_contract(c, X)
    return {'contract': cid, 'status': 'engine-error', 'reason': 'contract not found', 'obligations': {}}


def run_contracts(pairs, jobs=None):
    """pairs: [(module name, contract id)] -> list of results (parallel over contracts)."""
    jobs = jobs or min(16, max(1, len(pairs)))
    if jobs == 1 or len(pairs) == 1:
        return [_worker(p) for p in pairs]
    ctx = mp.get_context('fork')
    with ctx.Pool(jobs) as pool:
        return pool.map(_worker, pairs, chunksize=1)


def main():
    import importlib
    sys.path.insert(0, os.path.dirname(os.path.dirname(os.path.abspath(__file__))))
    modname = sys.argv[1]
    only = sys.argv[2:] or None
    mod = importlib.import_module(modname)
    pairs = [(modname, c.id) for c in mod.CONTRACTS if only is None or any(o in c.id for o in only)]
    res = run_contracts(pairs)
    bad = 0
    for r in res:
        print('== %s  [%s] paths=%s %.2fs %s' % (r['contract'], r['status'], r.get('paths'), r.get('wall_s', 0),
                                                 r.get('reason', '')))
        if r.get('trace'):
            print(r['trace'])
        for oid, o in sorted(r['obligations'].items()):
            flag = {'proved': 'ok ', 'refuted': 'RED', 'unknown': '???', 'vacuous': 'VAC'}[o['verdict']]
            print('   %s %-70s x%d %.2fs %s' % (flag, oid.split('::')[-1], o['instances'], o['time_s'],
                                                 o.get('note', '')[:60]))
            if o['verdict'] == 'refuted':
                bad += 1
                print('        model:', json.dumps(o.get('model'), default=str)[:600])
    return 1 if bad else 0


if __name__ == '__main__':
    sys.exit(main())
