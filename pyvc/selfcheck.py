"""Cross-check of the spec functions in spec/smt.py against CPython on concrete points (the A-BUILTIN side of the trusted
base): the recursive definitions the contracts are stated with denote what X.690 / CPython say.  Run by pyvc.selftest."""
import os, random, sys
sys.path.insert(0, os.path.dirname(os.path.dirname(os.path.abspath(__file__))))
import z3
from spec import smt


def value_of(term):
    s = z3.Solver()
    s.set('timeout', 20000)
    v = z3.FreshConst(term.sort(), 'v')
    s.add(v == term)
    assert s.check() == z3.sat, term
    return s.model().eval(v, model_completion=True)


def seq_ints(val):
    val = z3.simplify(val)
    out = []

    def walk(t):
        if z3.is_app(t) and t.decl().kind() == z3.Z3_OP_SEQ_CONCAT:
            for c in t.children():
                walk(c)
        elif z3.is_app(t) and t.decl().kind() == z3.Z3_OP_SEQ_UNIT:
            out.append(z3.simplify(t.arg(0)).as_long())
        elif z3.is_app(t) and t.decl().kind() == z3.Z3_OP_SEQ_EMPTY:
            pass
        else:
            raise AssertionError('not a concrete sequence: %s' % t)
    walk(val)
    return out


def py_sdigits(e):
    return [] if e in (0, -1) else py_sdigits(e >> 8) + [e & 255]


def py_minimal_twos(e):
    d = py_sdigits(e)
    if e in (0, -1):
        return [e & 255]
    if e > 0 and d[0] & 0x80:
        d = [0] + d
    if e < 0 and not d[0] & 0x80:
        d = [255] + d
    return d


def main():
    rng = random.Random(7)
    n = 0
    # 1. the python recursion behind sdigits is CPython's minimal two's complement (wide sample, no solver involved)
    vals = list(range(-70000, 70000, 13)) + [rng.randrange(-2 ** 70, 2 ** 70) for _ in range(5000)] + \
        [s * 2 ** k + d for k in range(0, 72) for s in (1, -1) for d in (-1, 0, 1)]
    for e in vals:
        want = list(e.to_bytes(max(1, (e.bit_length() + 8) // 8), 'big', signed=True))
        while len(want) > 1 and ((want[0] == 0 and want[1] < 128) or (want[0] == 255 and want[1] >= 128)):
            want = want[1:]
        assert py_minimal_twos(e) == want, e
        n += 1
    # 2. the z3 definitions agree with python on sample points
    for e in (0, -1, 1, 127, 128, 255, 256, -128, -129, -256, -257, 65535, -65536, 2 ** 40 + 5, -2 ** 33 - 1):
        assert seq_ints(value_of(smt.sdigits(z3.IntVal(e)))) == py_sdigits(e), e
        n += 1
    for m in (0, 1, 255, 256, 65535, 65536, 2 ** 64 + 3):
        want = list(m.to_bytes((m.bit_length() + 7) // 8, 'big')) if m else []
        assert seq_ints(value_of(smt.be256(z3.IntVal(m)))) == want, m
        n += 1
    for k in (0, 1, 5, 31, 64):
        assert value_of(smt.pow2(z3.IntVal(k))).as_long() == 2 ** k
        assert seq_ints(value_of(smt.zeros(z3.IntVal(k)))) == [0] * k
        n += 2
    for bs in ([], [0], [1, 2], [255, 255, 1], [128, 0, 0, 0, 7]):
        assert value_of(smt.val256(smt.mk_seq(bs))).as_long() == int.from_bytes(bytes(bs), 'big')
        n += 1
    print('pyvc selfcheck ok: %d points' % n)


if __name__ == '__main__':
    main()
