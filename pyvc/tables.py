"""Finite-table (kind E) and structural (kind D1 / C) obligations.

Runs under /venv/bin/python with PYTHONPATH=<repo>:/verif -- the tables are the objects built by
the real module code; structural obligations walk the real AST.  Each obligation is decided by
complete enumeration of a finite object (backend `finite-eval`, exhaustive).

usage: python -m pyvc.tables <group> [<group> ...]   -> JSON {obligations: {id: {...}}}
"""
import ast
import json
import os
import sys

from pyvc.astutil import d1_forwarding_shape, is_log_test

REPO = os.environ.get('PYVC_REPO', '/repo')


def ob(out, oid, ok, note='', witness=None, n=1, kind='external'):
    out[oid] = {'verdict': 'proved' if ok else 'refuted', 'instances': n, 'time_s': 0.0,
                'backends': ['finite-eval'], 'kind': kind, 'note': note}
    if not ok:
        out[oid]['model'] = witness
        out[oid]['model_raw'] = note


def parse(rel):
    with open(os.path.join(REPO, rel)) as f:
        return ast.parse(f.read())


# ---- C15 / C02: decoder tables --------------------------------------------------------------
def g_decoder_tables(out):
    from pyasn1.codec.ber import decoder as bd
    from pyasn1.codec.cer import decoder as cd
    from pyasn1.codec.der import decoder as dd
    from pyasn1.type import univ, char, useful
    # unambiguous types: those whose BER by-type entry is derived from the by-tag entry
    derived = []
    for tagSet, codec in bd.TAG_MAP.items():
        pc = codec.protoComponent
        if pc is None:
            continue
        tid = pc.__class__.typeId
        if tid is not None and bd.TYPE_MAP.get(tid) is codec:
            derived.append((tagSet, tid, pc.__class__.__name__))
    ob(out, 'table::ber.decoder#derived-entries-nonempty', len(derived) >= 20,
       '%d by-type entries are derived from by-tag entries' % len(derived), n=len(derived))
    for name, mod in (('cer', cd), ('der', dd)):
        bad = []
        for tagSet, tid, cname in derived:
            a, b = mod.TAG_MAP.get(tagSet), mod.TYPE_MAP.get(tid)
            if type(a) is not type(b):
                bad.append('%s: by-tag %s, by-type %s' % (cname, type(a).__module__.split('.')[-2] + '.' +
                                                         type(a).__name__, type(b).__module__.split('.')[-2] +
                                                         '.' + type(b).__name__))
        ob(out, 'table::%s.decoder#typemap-matches-tagmap' % name, not bad,
           'strictness must not depend on whether a guiding type is given: ' + ('; '.join(bad) or 'all %d '
           'unambiguous types use the same codec class by tag and by type' % len(derived)),
           witness={'mismatches': bad}, n=len(derived))
    # strict BOOLEAN in CER and DER, reachable both ways
    for name, mod in (('cer', cd), ('der', dd)):
        codecs = [mod.TAG_MAP[univ.Boolean.tagSet], mod.TYPE_MAP[univ.Boolean.typeId]]
        ok = all(isinstance(c, cd.BooleanPayloadDecoder) for c in codecs)
        ob(out, 'table::%s.decoder#strict-boolean' % name, ok,
           'BOOLEAN codec by tag / by type: %s' % [type(c).__module__ + '.' + type(c).__name__ for c in codecs],
           witness={'input_hex': '010105', 'spec': 'Boolean'}, n=2)
    # DER: indefinite length off, constructed strings off (for the string codecs the module overrides)
    ob(out, 'table::der.decoder#no-indefinite-length', dd.SingleItemDecoder.supportIndefLength is False and
       dd.decode.STREAMING_DECODER.SINGLE_ITEM_DECODER is dd.SingleItemDecoder,
       'der.SingleItemDecoder.supportIndefLength must be False and wired into der.decode',
       witness={'input_hex': '30800000'})
    for tname, T in (('BitString', univ.BitString), ('OctetString', univ.OctetString)):
        codecs = [dd.TAG_MAP[T.tagSet], dd.TYPE_MAP[T.typeId]]
        ok = all(c.supportConstructedForm is False for c in codecs)
        ob(out, 'table::der.decoder#primitive-only-%s' % tname, ok,
           '%s codec by tag / by type supportConstructedForm: %s' % (tname, [c.supportConstructedForm for c in codecs]),
           witness={'input_hex': '2403040141' if tname == 'OctetString' else '230403020001', 'spec': tname}, n=2)
    # ... and so for every other string type (character strings, useful types): X.690 10.2
    bad = sorted({type(c).__name__ for m in (dd.TAG_MAP, dd.TYPE_MAP) for c in m.values()
                  if isinstance(c, (bd.OctetStringPayloadDecoder, bd.BitStringPayloadDecoder))
                  and c.supportConstructedForm is not False})
    nstr = len([c for c in dd.TAG_MAP.values() if isinstance(c, (bd.OctetStringPayloadDecoder, bd.BitStringPayloadDecoder))])
    ob(out, 'table::der.decoder#primitive-only-all-string-types', not bad and nstr >= 16,
       'string codecs of the DER maps that still accept the constructed form: %s (%d string codecs)' % (bad, nstr),
       witness={'input_hex': '2c030c0141', 'codecs': bad}, n=nstr)
    # nested elements are decoded by the same SingleItemDecoder (decodeFun is self): every call site of
    # concreteDecoder.valueDecoder / indefLenValueDecoder in SingleItemDecoder.__call__ passes `self`
    tree = parse('pyasn1/codec/ber/decoder.py')
    cls = [n for n in tree.body if isinstance(n, ast.ClassDef) and n.name == 'SingleItemDecoder'][0]
    call = [n for n in cls.body if isinstance(n, ast.FunctionDef) and n.name == '__call__'][0]
    sites = [n for n in ast.walk(call) if isinstance(n, ast.Call) and isinstance(n.func, ast.Attribute)
             and n.func.attr in ('valueDecoder', 'indefLenValueDecoder')]
    ok = bool(sites) and all(len(s.args) >= 6 and isinstance(s.args[5], ast.Name) and s.args[5].id == 'self'
                             for s in sites)
    ob(out, 'table::ber.decoder#nested-elements-use-same-decoder', ok,
       '%d payload-decoder call sites pass decodeFun=self' % len(sites), n=len(sites))


def lookup(mod, T):
    """the codec the single-item encoder/decoder selects for type T: by type id, else by base tag set"""
    from pyasn1.type import tag
    c = mod.TYPE_MAP.get(T.typeId)
    if c is None and T.tagSet:
        c = getattr(mod, 'TAG_MAP', {}).get(tag.TagSet(T.tagSet.baseTag, T.tagSet.baseTag))
    return c


# ---- C01/C02/C13/C16/C17: dispatch tables complete --------------------------------------------
def g_dispatch(out):
    from pyasn1.codec.ber import decoder as bd, encoder as be
    from pyasn1.codec.cer import decoder as cd, encoder as ce
    from pyasn1.codec.der import decoder as dd, encoder as de
    from pyasn1.codec.native import decoder as nd, encoder as ne
    from pyasn1.type import univ, char, useful
    types = [univ.Boolean, univ.Integer, univ.BitString, univ.OctetString, univ.Null, univ.ObjectIdentifier,
             univ.Enumerated, univ.Real, univ.Sequence, univ.SequenceOf, univ.Set, univ.SetOf, univ.Choice, univ.Any,
             char.UTF8String, char.NumericString, char.PrintableString, char.TeletexString, char.VideotexString,
             char.IA5String, char.GraphicString, char.VisibleString, char.GeneralString, char.UniversalString,
             char.BMPString, useful.ObjectDescriptor, useful.GeneralizedTime, useful.UTCTime]
    for name, mod in (('ber.encoder', be), ('cer.encoder', ce), ('der.encoder', de), ('ber.decoder', bd),
                      ('cer.decoder', cd), ('der.decoder', dd), ('native.encoder', ne), ('native.decoder', nd)):
        missing = [T.__name__ for T in types if lookup(mod, T) is None]
        ob(out, 'table::%s#every-type-has-a-codec' % name, not missing, 'no codec by type id nor by base tag: %s' % missing,
           witness={'missing': missing}, n=len(types))
    # encoder / decoder content codecs are matching pairs (same ASN.1 type on both sides)
    pairs = {'Boolean': ('BooleanEncoder', 'BooleanPayloadDecoder'), 'Integer': ('IntegerEncoder', 'IntegerPayloadDecoder'),
             'Enumerated': ('IntegerEncoder', 'IntegerPayloadDecoder'), 'BitString': ('BitStringEncoder', 'BitStringPayloadDecoder'),
             'OctetString': ('OctetStringEncoder', 'OctetStringPayloadDecoder'), 'Null': ('NullEncoder', 'NullPayloadDecoder'),
             'ObjectIdentifier': ('ObjectIdentifierEncoder', 'ObjectIdentifierPayloadDecoder'),
             'Real': ('RealEncoder', 'RealPayloadDecoder'), 'Any': ('AnyEncoder', 'AnyPayloadDecoder'),
             'Choice': ('ChoiceEncoder', 'ChoicePayloadDecoder')}
    bad = []
    for T in types:
        if T.__name__ in pairs:
            e, d = pairs[T.__name__]
            ge = [c.__name__ for c in type(lookup(be, T)).__mro__]
            gd = [c.__name__ for c in type(lookup(bd, T)).__mro__]
            if e not in ge or d not in gd:
                bad.append('%s: %s / %s' % (T.__name__, ge[0], gd[0]))
    ob(out, 'table::ber#codec-pairs', not bad, 'encoder/decoder classes per type: %s' % (bad or 'matching'),
       witness={'mismatch': bad}, n=len(pairs))
    # fixed modes of the canonical encoders
    ob(out, 'table::cer.encoder#fixed-modes', ce.SingleItemEncoder.fixedDefLengthMode is False and
       ce.SingleItemEncoder.fixedChunkSize == 1000, 'CER: indefinite length, 1000-octet segments')
    ob(out, 'table::der.encoder#fixed-modes', de.SingleItemEncoder.fixedDefLengthMode is True and
       de.SingleItemEncoder.fixedChunkSize == 0, 'DER: definite length, no segmentation')
    # valid(codec): a codec that does not support indefinite length is one of the primitive-only codecs
    prim = ('BooleanEncoder', 'IntegerEncoder', 'NullEncoder', 'ObjectIdentifierEncoder', 'RealEncoder')
    bad = []
    for mod in (be, ce, de):
        for c in list(mod.TAG_MAP.values()) + list(mod.TYPE_MAP.values()):
            if not c.supportIndefLenMode and not any(k.__name__ in prim for k in type(c).__mro__):
                bad.append(type(c).__name__)
    ob(out, 'table::encoders#no-indef-support-only-on-primitive-codecs', not bad, str(sorted(set(bad))), n=3)


# ---- C06 / C08: error class graph ---------------------------------------------------------------
def g_errors(out):
    from pyasn1 import error
    ob(out, 'table::error#EndOfStreamError<SubstrateUnderrunError<PyAsn1Error',
       issubclass(error.EndOfStreamError, error.SubstrateUnderrunError) and
       issubclass(error.SubstrateUnderrunError, error.PyAsn1Error) and issubclass(error.PyAsn1Error, Exception),
       'class graph of pyasn1/error.py', witness={'mro': [c.__name__ for c in error.EndOfStreamError.__mro__]})
    from pyasn1.type import error as terr
    ob(out, 'table::error#ValueConstraintError<PyAsn1Error', issubclass(terr.ValueConstraintError, error.PyAsn1Error),
       'constraint violations are library errors')
    ob(out, 'table::error#unicode-errors<PyAsn1Error', issubclass(error.PyAsn1UnicodeDecodeError, error.PyAsn1Error)
       and issubclass(error.PyAsn1UnicodeEncodeError, error.PyAsn1Error), 'unicode errors are library errors')
    # every explicit `raise X(...)` in the decoder modules and streaming.py names a library error class
    bad, n = [], 0
    for rel in ('pyasn1/codec/ber/decoder.py', 'pyasn1/codec/cer/decoder.py', 'pyasn1/codec/der/decoder.py',
                'pyasn1/codec/streaming.py'):
        for node in ast.walk(parse(rel)):
            if isinstance(node, ast.Raise) and node.exc is not None:
                n += 1
                txt = ast.unparse(node.exc.func if isinstance(node.exc, ast.Call) else node.exc)
                name = txt.split('.')[-1]
                cls = getattr(error, name, None)
                if name == 'inconsistency':      # `raise inconsistency` re-raises a ValueConstraintError instance
                    continue
                if name == 'NotImplementedError':
                    # abstract hooks of ConstructedPayloadDecoderBase, not reachable from decode()
                    continue
                if cls is None or not issubclass(cls, error.PyAsn1Error):
                    bad.append('%s:%d raise %s' % (rel, node.lineno, txt))
    ob(out, 'table::decoders#explicit-raises-are-library-errors', not bad, '; '.join(bad) or '%d raise sites' % n,
       witness={'sites': bad}, n=n)


# ---- C05 / C06: generator protocol D1 ---------------------------------------------------------------
GENERATOR_CALLEES = ('readFromStream', 'peekIntoStream', 'isEndOfStream', 'decodeFun', 'substrateFun',
                     'valueDecoder', 'indefLenValueDecoder', '_decodeComponentsSchemaless', 'iterator',
                     '_singleItemDecoder', 'streamingDecoder')

# sites that consume a generator without the forwarding idiom, each with its justification
D1_EXEMPT = {
    ('pyasn1/codec/ber/decoder.py', 'StreamingDecoder.__iter__', 'isEndOfStream'):
        'the loop body yields (None) on an underrun marker and breaks after the first item: checked by its own '
        'contract codec.streaming::isEndOfStream / ber.decoder::StreamingDecoder.__iter__',
    ('pyasn1/codec/ber/decoder.py', 'Decoder.__call__', 'streamingDecoder'):
        'one-shot wrapper: turns a yielded underrun into a raised SubstrateUnderrunError (own contract)',
    ('pyasn1/codec/streaming.py', 'peekIntoStream', 'readFromStream'): 'pure relay inside try/finally',
}


def iter_callee(it):
    if isinstance(it, ast.Call):
        f = it.func
        if isinstance(f, ast.Name):
            return f.id
        if isinstance(f, ast.Attribute):
            return f.attr
    if isinstance(it, ast.Name):
        return it.id
    return None


def g_protocol(out):
    total = 0
    for rel in ('pyasn1/codec/ber/decoder.py', 'pyasn1/codec/cer/decoder.py', 'pyasn1/codec/der/decoder.py',
                'pyasn1/codec/streaming.py'):
        tree = parse(rel)

        def visit(node, qual):
            nonlocal total
            for ch in ast.iter_child_nodes(node):
                q = qual
                if isinstance(ch, (ast.ClassDef, ast.FunctionDef)):
                    q = (qual + '.' if qual else '') + ch.name
                if isinstance(ch, ast.For):
                    cal = iter_callee(ch.iter)
                    if cal in GENERATOR_CALLEES:
                        total += 1
                        k = sum(1 for o in out if o.startswith('proto::%s::%s#D1.%s.' % (rel.split('/')[-2] + '.' +
                                rel.split('/')[-1][:-3], qual, cal)))
                        oid = 'proto::%s::%s#D1.%s.%d' % (rel.split('/')[-2] + '.' + rel.split('/')[-1][:-3], qual,
                                                          cal, k)
                        ex = D1_EXEMPT.get((rel, qual, cal))
                        if ex is not None:
                            ob(out, oid, True, 'exempt: ' + ex, kind='external')
                        else:
                            ok, why = d1_forwarding_shape(ch)
                            ob(out, oid, ok, '%s (line %d)' % (why, ch.lineno),
                               witness={'site': '%s:%d' % (rel, ch.lineno), 'why': why})
                visit(ch, q)
        visit(tree, '')
    ob(out, 'proto::decoders#D1.sites-found', total >= 40, '%d generator-consuming loops enumerated from the AST' % total,
       n=total)
    # every consumption of a generator other than by `for` is listed: next(...) calls
    nexts = []
    for rel in ('pyasn1/codec/ber/decoder.py', 'pyasn1/codec/cer/decoder.py', 'pyasn1/codec/der/decoder.py'):
        for node in ast.walk(parse(rel)):
            if isinstance(node, ast.Call) and isinstance(node.func, ast.Name) and node.func.id == 'next':
                nexts.append('%s:%d %s' % (rel, node.lineno, ast.unparse(node)))
    ok = len(nexts) == 1 and 'readFromStream(substrate)' in nexts[0]
    # ... and what that single next() may hand out besides octets -- the underrun marker of a source that has nothing at the
    # moment -- is turned into "no octets" right after it (C07: the remainder is octets)
    guarded = False
    tree = parse('pyasn1/codec/ber/decoder.py')
    for node in ast.walk(tree):
        for fld in ('body', 'orelse'):
            blk = getattr(node, fld, None)
            if isinstance(blk, list):
                for a, b in zip(blk, blk[1:]):
                    if isinstance(a, ast.Try) and any('tail = next(readFromStream(substrate))' == ast.unparse(x) for x in a.body) \
                            and isinstance(b, ast.If) and ast.unparse(b.test) == 'isinstance(tail, SubstrateUnderrunError)' \
                            and [ast.unparse(x) for x in b.body] == ['tail = null'] and not b.orelse:
                        guarded = True
    ob(out, 'proto::decoders#D1.only-listed-next-call', ok and guarded,
       'next() consumes a generator without forwarding; the only allowed site is the tail read of the one-shot '
       'Decoder.__call__, whose underrun marker is replaced by no octets: %s; guarded: %s' % (nexts, guarded),
       witness={'sites': nexts, 'guarded': guarded})


def g_mark(out):
    """C11/C05/C07: the back-tracking mark of the substrate is set in exactly one place of the decoders -- in
    SingleItemDecoder.__call__, after the end-of-octets look-ahead has decided that an element follows (that region is
    under contract: position restored unless the marker was consumed, then the call returns) and before the state machine
    starts -- unconditionally, or under `if state is stDecodeTag:` (a call that starts at a tag).  A mark set elsewhere lets CachingStreamWrapper drop octets an enclosing definite-length loop still
    addresses by absolute position."""
    sites = []
    for rel in ('pyasn1/codec/ber/decoder.py', 'pyasn1/codec/cer/decoder.py', 'pyasn1/codec/der/decoder.py',
                'pyasn1/codec/native/decoder.py'):
        for node in ast.walk(parse(rel)):
            if isinstance(node, (ast.Assign, ast.AugAssign)):
                for t in (node.targets if isinstance(node, ast.Assign) else [node.target]):
                    if isinstance(t, ast.Attribute) and t.attr in ('markedPosition', '_markedPosition'):
                        sites.append((rel, node.lineno))
    ok, why = False, 'expected exactly one assignment, found %r' % (sites,)
    if len(sites) == 1 and sites[0][0] == 'pyasn1/codec/ber/decoder.py':
        tree = parse('pyasn1/codec/ber/decoder.py')
        fn = None
        for cls in tree.body:
            if isinstance(cls, ast.ClassDef) and cls.name == 'SingleItemDecoder':
                for f in cls.body:
                    if isinstance(f, ast.FunctionDef) and f.name == '__call__':
                        fn = f
        if fn is not None:
            kinds = []
            for st in fn.body:
                if isinstance(st, ast.If) and ast.unparse(st.test) == 'allowEoo and self.supportIndefLength':
                    kinds.append('eoo')
                elif isinstance(st, ast.Assign) and ast.unparse(st) == 'substrate.markedPosition = substrate.tell()':
                    kinds.append('mark')
                elif (isinstance(st, ast.If) and ast.unparse(st.test) == 'state is stDecodeTag' and not st.orelse and
                      [ast.unparse(b) for b in st.body] == ['substrate.markedPosition = substrate.tell()']):
                    # ... by a call that starts at a tag: a re-entrant call that carries on behind a header already
                    # read (alternative of an untagged CHOICE) keeps the mark at the beginning of that header
                    kinds.append('mark')
                elif isinstance(st, ast.While) and ast.unparse(st.test) == 'state is not stStop':
                    kinds.append('loop')
            ok = kinds == ['eoo', 'mark', 'loop']
            why = 'top-level statements of SingleItemDecoder.__call__ in order: %r' % (kinds,)
    ob(out, 'proto::decoders#mark-set-once-after-eoo-lookahead', ok, why, witness={'sites': sites, 'why': why})


def g_consumed(out):
    """C11/C05/C07: the caching wrapper renumbers tell() when a mark drops its cache (pinned by the tests), so no decoder may
    keep a tell() reading across the decoding of a nested element.  tell() is called in the decoders only (a) inside
    _consumed() (contract ber.decoder::_consumed), (b) where the mark is set, (c) in the two ANY decoders, between reading
    the mark and seeking back to it (no element is decoded in between: the statements are adjacent)."""
    sites = []
    for rel in ('pyasn1/codec/ber/decoder.py', 'pyasn1/codec/cer/decoder.py', 'pyasn1/codec/der/decoder.py'):
        tree = parse(rel)
        for fn in [x for x in ast.walk(tree) if isinstance(x, ast.FunctionDef)]:
            for node in ast.walk(fn):
                if isinstance(node, ast.Call) and isinstance(node.func, ast.Attribute) and node.func.attr == 'tell':
                    sites.append((rel, fn.name, node.lineno))
    bad = []
    for rel, fname, line in sites:
        if fname == '_consumed':
            continue
        if fname == '__call__':
            continue          # the mark: obligation mark-set-once-after-eoo-lookahead
        bad.append((rel, fname, line))
    # the ANY decoders: `fullPosition = substrate.markedPosition; currentPosition = substrate.tell()` -- adjacent statements
    tree = parse('pyasn1/codec/ber/decoder.py')
    ok_any = []
    for cls in [x for x in tree.body if isinstance(x, ast.ClassDef) and x.name == 'AnyPayloadDecoder']:
        for fn in [x for x in cls.body if isinstance(x, ast.FunctionDef)]:
            for node in ast.walk(fn):
                body = getattr(node, 'body', None)
                for blk in [b for b in (body, getattr(node, 'orelse', None)) if isinstance(b, list)]:
                    for a, b in zip(blk, blk[1:]):
                        if ast.unparse(a) == 'fullPosition = substrate.markedPosition' and \
                                ast.unparse(b) == 'currentPosition = substrate.tell()':
                            ok_any.append(('pyasn1/codec/ber/decoder.py', fn.name, b.lineno))
    bad = [x for x in bad if x not in ok_any]
    ob(out, 'proto::decoders#lengths-measured-with-consumed', not bad and len(ok_any) == 2,
       'tell() readings that may be kept across a nested decode: %r' % (bad,) if bad else
       'tell() only in _consumed(), at the mark, and next to the mark in the two ANY decoders', witness={'sites': bad})


# ---- C12: `if LOG:` blocks are effect free (so that dropping them at extraction is sound) ------------
# consuming stream access under `if LOG:` that is allowed, each with its justification
LOG_EXEMPT = {
    ('pyasn1/codec/ber/decoder.py', 'readFromStream'):
        'ConstructedPayloadDecoderBase.valueDecoder, schemaless branch: guarded by `substrate.tell() < original_position + '
        'length`, which is false after _decodeComponentsSchemaless (its loop runs while exactly that holds and length >= 0 '
        'here): unreachable (paper argument from the loop exit condition)',
    ('pyasn1/codec/ber/decoder.py', 'yield'):
        'the same block (schemaless branch of ConstructedPayloadDecoderBase.valueDecoder): it forwards the underruns of that '
        'unreachable read',
}


# loop variables bound under `if LOG:` that have the name of a program variable of the enclosing function: allowed only with
# a justification why the clobbered value is never read afterwards
LOG_LOOPVAR_EXEMPT = {
    ('pyasn1/codec/ber/decoder.py', '__call__', 'firstOctet'):
        'SingleItemDecoder.__call__: the LOG block sits in the state stGetValueDecoderByAsn1Spec; firstOctet is read only in '
        'stDecodeTag and stDecodeLength, each of which assigns it from a fresh read before its first use (paper argument over '
        'the state arms)',
}


def _binds(stmt, name):
    """does this statement (not its nested blocks' later flow) bind `name` before control reaches what follows it"""
    if isinstance(stmt, ast.For):
        return any(isinstance(t, ast.Name) and t.id == name for t in ast.walk(stmt.target))
    if isinstance(stmt, ast.Assign):
        return any(isinstance(t, ast.Name) and t.id == name for tg in stmt.targets for t in ast.walk(tg))
    return False


def _log_loopvar_clashes(rel, tree):
    """(function, name, line): a `for` target under `if LOG:` whose name is also read outside the LOG blocks of the function at a
    place that is not freshly bound -- i.e. the read is neither inside a `for` over that very name nor preceded, in its own or an
    enclosing statement list, by a `for`/assignment binding it"""
    out = []
    for fn in [x for x in ast.walk(tree) if isinstance(x, ast.FunctionDef)]:
        under_log = set()
        for node in ast.walk(fn):
            if isinstance(node, ast.If) and is_log_test(node.test):
                for x in ast.walk(node):
                    under_log.add(id(x))
        loopvars = {}
        for node in ast.walk(fn):
            if isinstance(node, (ast.For, ast.comprehension)) and id(node) in under_log:
                for t in ast.walk(node.target):
                    if isinstance(t, ast.Name):
                        loopvars[t.id] = getattr(node, 'lineno', 0)
        if not loopvars:
            continue
        parent = {}
        for node in ast.walk(fn):
            for fld, val in ast.iter_fields(node):
                if isinstance(val, list):
                    for k, ch in enumerate(val):
                        if isinstance(ch, ast.AST):
                            parent[id(ch)] = (node, fld, k)
                elif isinstance(val, ast.AST):
                    parent[id(val)] = (node, fld, None)

        def fresh(load):
            name, cur = load.id, load
            while id(cur) in parent:
                par, fld, k = parent[id(cur)]
                if isinstance(par, ast.For) and fld == 'body' and _binds(par, name) and id(par) not in under_log:
                    return True
                if k is not None and fld in ('body', 'orelse', 'finalbody'):
                    for prev in getattr(par, fld)[:k]:
                        if id(prev) not in under_log and _binds(prev, name):
                            return True
                if par is fn:
                    break
                cur = par
            return False
        seen = set()
        for node in ast.walk(fn):
            if isinstance(node, ast.Name) and isinstance(node.ctx, ast.Load) and node.id in loopvars and \
                    id(node) not in under_log and node.id not in seen and not fresh(node):
                seen.add(node.id)
                out.append((fn.name, node.id, loopvars[node.id]))
    return out


def g_log_blocks(out):
    """C12: dropping `if LOG:` blocks at extraction is sound and logging cannot change results: a LOG block contains no
    assignment to program variables, no control flow, and no stream access other than the position-neutral
    peekIntoStream (contracts codec.streaming::peekIntoStream[*]: position restored)"""
    bad, n = [], 0
    exempt_used, exempt_vars = [], []
    for rel in ('pyasn1/codec/ber/decoder.py', 'pyasn1/codec/ber/encoder.py', 'pyasn1/codec/cer/decoder.py',
                'pyasn1/codec/cer/encoder.py', 'pyasn1/codec/der/decoder.py', 'pyasn1/codec/der/encoder.py',
                'pyasn1/codec/native/decoder.py', 'pyasn1/codec/native/encoder.py'):
        for node in ast.walk(parse(rel)):
            if isinstance(node, ast.If) and is_log_test(node.test):
                n += 1
                loopvars = set()
                for sub in node.body:
                    for x in ast.walk(sub):
                        if isinstance(x, ast.For):
                            for t in ast.walk(x.target):
                                if isinstance(t, ast.Name):
                                    loopvars.add(t.id)
                for sub in node.body:
                    for x in ast.walk(sub):
                        if isinstance(x, (ast.Assign, ast.AugAssign)):
                            tg = x.targets if isinstance(x, ast.Assign) else [x.target]
                            for t in tg:
                                bad.append('%s:%d assigns %s under LOG' % (rel, x.lineno, ast.unparse(t)))
                        if isinstance(x, (ast.Return, ast.Raise, ast.Break, ast.Continue)):
                            bad.append('%s:%d control flow under LOG' % (rel, x.lineno))
                        if isinstance(x, (ast.Yield, ast.YieldFrom)):
                            # a yield under LOG hands the caller an item (an underrun marker) that the same call without
                            # logging does not produce: the one-shot decoders turn it into an error
                            if (rel, 'yield') in LOG_EXEMPT and any(
                                    isinstance(c, ast.Call) and ast.unparse(c.func) == 'readFromStream'
                                    for b in node.body for c in ast.walk(b)) and not any(e.endswith(' yield') for e in exempt_used):
                                exempt_used.append('%s:%d yield' % (rel, x.lineno))
                                continue
                            bad.append('%s:%d yields under LOG' % (rel, x.lineno))
                        if isinstance(x, ast.Call):
                            nm = ast.unparse(x.func)
                            if nm == 'peekIntoStream':
                                continue
                            if nm == 'readFromStream' or nm.endswith('.read') or nm.endswith('.seek') or \
                                    nm.endswith('.write'):
                                if (rel, nm) in LOG_EXEMPT:
                                    exempt_used.append('%s:%d %s' % (rel, x.lineno, nm))
                                    continue
                                bad.append('%s:%d touches the stream under LOG: %s' % (rel, x.lineno, nm))
    for rel in ('pyasn1/codec/ber/decoder.py', 'pyasn1/codec/ber/encoder.py', 'pyasn1/codec/cer/decoder.py',
                'pyasn1/codec/cer/encoder.py', 'pyasn1/codec/der/decoder.py', 'pyasn1/codec/der/encoder.py',
                'pyasn1/codec/native/decoder.py', 'pyasn1/codec/native/encoder.py'):
        for fname, name, line in _log_loopvar_clashes(rel, parse(rel)):
            if (rel, fname, name) in LOG_LOOPVAR_EXEMPT:
                exempt_vars.append('%s:%s %s' % (rel, fname, name))
                continue
            bad.append('%s:%d loop variable %s bound under LOG is a program variable of %s (read outside the LOG blocks)' % (
                rel, line, name, fname))
    ob(out, 'frame::codecs#log-blocks-effect-free', not bad and len(exempt_used) <= 2 and len(exempt_vars) <= 1,
       '; '.join(bad[:6]) or '%d `if LOG:` blocks; exempt with justification: %s %s' % (n, exempt_used, exempt_vars),
       witness={'sites': bad}, n=n)


def g_value_funnel(out):
    """C14/C10: the payload of a simple value object is assigned in exactly one place, SimpleAsn1Type.__init__ (under
    contract type.base::SimpleAsn1Type.__init__: stored only after subtypeSpec admitted it); every other way of getting a
    value object therefore goes through that constructor"""
    import glob
    sites, n = [], 0
    for path in sorted(glob.glob(os.path.join(REPO, 'pyasn1', '**', '*.py'), recursive=True)):
        rel = os.path.relpath(path, REPO)
        tree = ast.parse(open(path).read())
        for cls in [x for x in ast.walk(tree) if isinstance(x, ast.ClassDef)] + [tree]:
            for fn in [x for x in (cls.body if hasattr(cls, 'body') else []) if isinstance(x, (ast.FunctionDef,))]:
                for x in ast.walk(fn):
                    tg = []
                    if isinstance(x, ast.Assign):
                        tg = x.targets
                    elif isinstance(x, (ast.AugAssign, ast.AnnAssign)):
                        tg = [x.target]
                    elif isinstance(x, ast.Call) and ast.unparse(x.func) in ('setattr', 'object.__setattr__') and \
                            len(x.args) >= 2 and isinstance(x.args[1], ast.Constant) and x.args[1].value == '_value':
                        sites.append('%s:%d %s.%s setattr' % (rel, x.lineno, getattr(cls, 'name', '<module>'), fn.name))
                    for t in tg:
                        for y in ast.walk(t):
                            if isinstance(y, ast.Attribute) and y.attr == '_value' and isinstance(y.ctx, ast.Store):
                                n += 1
                                where = '%s.%s' % (getattr(cls, 'name', '<module>'), fn.name)
                                if not (rel == 'pyasn1/type/base.py' and where == 'SimpleAsn1Type.__init__'):
                                    sites.append('%s:%d %s' % (rel, y.lineno, where))
    # ... and there is no way around the constructor: no object of a type class is made by __new__ / copy / by
    # writing an instance __dict__ (the arithmetic, slicing and conversion methods all `return self.clone(...)`, which
    # is under contract type.base::SimpleAsn1Type.clone: the result is built by the class constructor)
    bypass, m = [], 0
    for path in sorted(glob.glob(os.path.join(REPO, 'pyasn1', 'type', '*.py'))):
        rel = os.path.relpath(path, REPO)
        tree = ast.parse(open(path).read())
        # the NoValue sentinel (a singleton that is not an ASN.1 type) creates its one instance with object.__new__
        tree.body = [n for n in tree.body if not (isinstance(n, ast.ClassDef) and n.name == 'NoValue')]
        for x in ast.walk(tree):
            if isinstance(x, ast.Call):
                m += 1
                nm = ast.unparse(x.func)
                if nm.endswith('__new__') or nm in ('copy.copy', 'copy.deepcopy', 'copy', 'deepcopy') or \
                        nm.endswith('__setstate__') or nm.endswith('__reduce__'):
                    bypass.append('%s:%d %s' % (rel, x.lineno, nm))
            if isinstance(x, (ast.Assign, ast.AugAssign)):
                for t in (x.targets if isinstance(x, ast.Assign) else [x.target]):
                    for y in ast.walk(t):
                        if isinstance(y, ast.Attribute) and y.attr == '__dict__' and isinstance(y.ctx, ast.Store):
                            bypass.append('%s:%d assigns __dict__' % (rel, y.lineno))
                        if isinstance(y, ast.Subscript) and isinstance(y.value, ast.Attribute) and \
                                y.value.attr == '__dict__' and ast.unparse(y.slice) in ("'_value'", '"_value"'):
                            bypass.append('%s:%d writes __dict__[_value]' % (rel, y.lineno))
    ob(out, 'frame::types#no-constructor-bypass', not bypass and m > 100,
       '; '.join(bypass[:6]) or '%d calls in pyasn1/type/*.py, none of __new__/copy/deepcopy/__setstate__; no write to an '
                                'instance __dict__[_value]' % m, witness={'sites': bypass}, n=m)
    sites = sorted(set(sites))
    ob(out, 'frame::types#value-assigned-only-in-init', not sites and n >= 1,
       '; '.join(sites[:6]) or '%d assignment(s) to ._value in pyasn1/, all in SimpleAsn1Type.__init__' % n,
       witness={'sites': sites}, n=max(n, 1))


def g_mark_and_positions(out):
    g_mark(out)
    g_consumed(out)


GROUPS = {'value-funnel': g_value_funnel, 'mark': g_mark_and_positions, 'decoder-tables': g_decoder_tables, 'dispatch': g_dispatch, 'errors': g_errors, 'protocol': g_protocol,
          'log-blocks': g_log_blocks}


def main():
    out = {}
    for g in sys.argv[1:]:
        if g in GROUPS:
            GROUPS[g](out)
        else:
            mod, fn = g.split(':')
            import importlib
            getattr(importlib.import_module(mod), fn)(out)
    print(json.dumps({'obligations': out}))


if __name__ == '__main__':
    main()
