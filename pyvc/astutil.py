"""z3-free AST helpers shared by the executor and the structural (kind D1/E) obligations."""
import ast


def is_log_test(t):
    return isinstance(t, ast.Name) and t.id == 'LOG'


def d1_forwarding_shape(s):
    """Kind-D1 obligation on a `for v in <generator>` statement (real AST): on the path where v is an
    underrun object the loop body does exactly one `yield v` and nothing else.  The body is executed
    abstractly with v = <SubstrateUnderrunError instance>:
      * `if isinstance(v, [error.]SubstrateUnderrunError): yield v`   -> one yield
      * `if v is eoo.endOfOctets: break|return`                         -> test is false, skipped
      * `if isinstance(v, ...): yield v; continue`                       -> one yield, rest of body skipped
      * `yield v` (relay)                                                -> one yield
      * `if LOG: ...`                                                    -> dropped by the extraction rule
      * anything else runs for underrun objects too                      -> obligation fails"""
    if not isinstance(s.target, ast.Name):
        return False, 'target is not a simple name'
    v = s.target.id
    yields = 0
    shape = []
    for st in s.body:
        if isinstance(st, ast.If) and is_log_test(st.test):
            continue
        if isinstance(st, ast.If):
            txt = ast.unparse(st.test)
            if txt in ('isinstance(%s, SubstrateUnderrunError)' % v, 'isinstance(%s, error.SubstrateUnderrunError)' % v):
                b = st.body
                is_yield = (len(b) in (1, 2) and isinstance(b[0], ast.Expr) and isinstance(b[0].value, ast.Yield)
                            and isinstance(b[0].value.value, ast.Name) and b[0].value.value.id == v and not st.orelse)
                if is_yield and len(b) == 1:
                    yields += 1
                    shape.append('forward')
                    continue
                if is_yield and isinstance(b[1], ast.Continue):
                    # `yield v; continue`: nothing after it runs for an underrun object
                    yields += 1
                    shape.append('forward-continue')
                    break
                return False, 'underrun branch is not exactly `yield %s`' % v
            if txt == '%s is eoo.endOfOctets' % v and len(st.body) == 1 and \
                    isinstance(st.body[0], (ast.Break, ast.Return)) and not st.orelse:
                shape.append('eoo')
                continue
            return False, 'statement runs for underrun objects too: if %s' % txt
        if isinstance(st, ast.Expr) and isinstance(st.value, ast.Yield) and isinstance(st.value.value, ast.Name) \
                and st.value.value.id == v:
            yields += 1
            shape.append('relay')
            continue
        return False, 'statement after the forwarding test runs for underrun objects too: %s' % \
            ast.unparse(st).split('\n')[0]
    if yields != 1:
        return False, 'an underrun object is yielded %d times' % yields
    return True, '+'.join(shape)
