"""Bounded stand-in for C18 (open types / ANY DEFINED BY) -- labelled `bounded`.

    python -m standins.opentype_checks open-types --tier quick|thorough --out file.json
"""
import argparse
import itertools
from spec import x690
import json
import sys
import time


def rec(detail, **kw):
    d = {'check': 'open-types', 'T': {'k': 'opentype'}, 'v': None, 'detail': detail, 'features': []}
    d.update(kw)
    return d


def build(tagging, container, governor, govmode='req'):
    from pyasn1.type import univ, namedtype, opentype, tag, char
    inner_seq = univ.Sequence(componentType=namedtype.NamedTypes(
        namedtype.NamedType('x', univ.Integer()), namedtype.OptionalNamedType('y', univ.OctetString())))
    # inner types that carry, of all tags, the one of the ANY field itself ([3]): still inner values, to be wrapped
    same_tag_str = univ.OctetString().subtype(implicitTag=tag.Tag(tag.tagClassContext, tag.tagFormatSimple, 3))
    same_tag_of = univ.SequenceOf(componentType=univ.Integer()).subtype(
        implicitTag=tag.Tag(tag.tagClassContext, tag.tagFormatConstructed, 3))
    if governor == 'int':
        keys = {1: univ.Integer(), 2: univ.OctetString(), 3: inner_seq, 4: univ.SequenceOf(componentType=univ.Boolean()),
                5: same_tag_str, 6: same_tag_of}
        gov = univ.Integer()
    else:
        keys = {univ.ObjectIdentifier('1.3.1'): univ.Integer(), univ.ObjectIdentifier('1.3.2'): univ.OctetString(),
                univ.ObjectIdentifier('1.3.3'): inner_seq,
                univ.ObjectIdentifier('1.3.4'): univ.SequenceOf(componentType=univ.Boolean()),
                univ.ObjectIdentifier('1.3.5'): same_tag_str, univ.ObjectIdentifier('1.3.6'): same_tag_of}
        gov = univ.ObjectIdentifier()
    ot = opentype.OpenType('id', keys)
    any_ = univ.Any()
    if tagging == 'implicit':
        any_ = any_.subtype(implicitTag=tag.Tag(tag.tagClassContext, tag.tagFormatSimple, 3))
    elif tagging == 'explicit':
        any_ = any_.subtype(explicitTag=tag.Tag(tag.tagClassContext, tag.tagFormatSimple, 3))
    if container in ('single', 'set'):
        blob = namedtype.NamedType('blob', any_, openType=ot)
    else:
        blob = namedtype.NamedType('blob', univ.SetOf(componentType=any_), openType=ot)
    cls = univ.Sequence if container not in ('set', 'set-setof') else univ.Set
    if container in ('set', 'set-setof'):
        # a governor whose tag sorts between UNIVERSAL (the inner values) and the field's [3]: the canonical SET order is
        # by the tags on the wire -- the field's, not the inner value's
        gov = gov.subtype(implicitTag=tag.Tag(tag.tagClassContext, tag.tagFormatSimple, 1))
    if govmode == 'req':
        idt = namedtype.NamedType('id', gov)
    elif govmode == 'default':
        # the governing component is DEFAULT and holds its default: no codec puts it on the wire
        idt = namedtype.DefaultedNamedType('id', gov.clone(list(keys)[0]))
    else:
        idt = namedtype.OptionalNamedType('id', gov)
    spec = cls(componentType=namedtype.NamedTypes(idt, blob))
    return spec, keys, inner_seq


def inner_values(keys, inner_seq):
    from pyasn1.type import univ
    ks = list(keys)
    seq = inner_seq.clone()
    seq['x'] = 5
    seq['y'] = b'in'
    so = keys[ks[3]].clone()
    so.extend([True, False])
    so2 = keys[ks[5]].clone()
    so2.extend([1, 2])
    return [(ks[0], univ.Integer(12)), (ks[1], univ.OctetString('quick brown')), (ks[2], seq), (ks[3], so),
            (ks[4], keys[ks[4]].clone(b'ab')), (ks[5], so2)]


def run(tier):
    from pyasn1.type import univ
    from pyasn1.codec.ber import encoder as be, decoder as bd
    from pyasn1.codec.cer import encoder as ce, decoder as cd
    from pyasn1.codec.der import encoder as de, decoder as dd
    fails, n = [], 0
    codecs = [('BER', lambda v: be.encode(v), bd), ('BER-indef', lambda v: be.encode(v, defMode=False), bd),
              ('CER', lambda v: ce.encode(v), cd), ('DER', lambda v: de.encode(v), dd)]
    for tagging, container, governor, govmode in itertools.product(
            ('untagged', 'implicit', 'explicit'), ('single', 'setof', 'set', 'set-setof'), ('int', 'oid'),
            ('req', 'default', 'absent')):
        if container in ('set', 'set-setof') and tagging == 'untagged':
            continue        # an untagged ANY is not a legal SET member (tags must be distinct)
        if tagging == 'untagged' and govmode != 'req':
            continue        # an untagged ANY after an OPTIONAL/DEFAULT component is ambiguous (not a legal type)
        spec, keys, inner_seq = build(tagging, container, governor, govmode)
        if govmode == 'absent':
            # OPTIONAL governing component that is absent: nothing to resolve by -- the field stays as captured, and the
            # decoder does not refuse the (valid) encoding
            from pyasn1.type import univ as _u
            v = spec.clone()
            raw = be.encode(_u.Integer(12))
            try:
                if container in ('setof', 'set-setof'):
                    v['blob'].append(_u.Any(raw).subtype(**({} if tagging == 'untagged' else {
                        tagging + 'Tag': spec['blob'].componentType.tagSet[-1]})) if False else raw)
                else:
                    v['blob'] = raw
                e = be.encode(v)
                n += 1
                r, rest = bd.decode(e, asn1Spec=spec, decodeOpenTypes=True)
                got = r['blob'][0] if container in ('setof', 'set-setof') else r['blob']
                if not isinstance(got, _u.Any) or rest:
                    fails.append(rec('absent governing component: field came back as %s' % got.__class__.__name__,
                                     tagging=tagging, container=container, constructed=False))
            except Exception as ex:
                fails.append(rec('absent OPTIONAL governing component: %s: %s' % (type(ex).__name__, str(ex)[:100]),
                                 tagging=tagging, container=container, constructed=False, govmode=govmode))
            continue
        for key, inner in inner_values(keys, inner_seq):
            if govmode == 'default' and key != list(keys)[0]:
                continue
            constructed = not isinstance(inner, (univ.Integer, univ.OctetString))
            v = spec.clone()
            if govmode != 'default':
                v['id'] = spec.componentType['id'].asn1Object.clone(key)
            try:
                if container in ('setof', 'set-setof'):
                    v['blob'].append(inner)
                    v['blob'].append(inner)
                else:
                    v['blob'] = inner
            except Exception as e:
                fails.append(rec('building the value raised %s: %s' % (type(e).__name__, str(e)[:120]), tagging=tagging,
                                 container=container, constructed=constructed))
                continue
            for cname, enc, dec in codecs:
                desc = '%s %s ANY %s governed by %s, inner %s' % (cname, tagging, container, governor, inner.__class__.__name__)
                n += 1
                try:
                    e = enc(v)
                except Exception as ex:
                    fails.append(rec('%s: encoder raised %s: %s' % (desc, type(ex).__name__, str(ex)[:120]), codec=cname,
                                     tagging=tagging, container=container, constructed=constructed))
                    continue
                # 0. canonical SET order (DER): members by the (class, number) of the tag each starts with
                if cname == 'DER' and container in ('set', 'set-setof'):
                    n += 1
                    try:
                        t = x690.read_tlv(e, 0)
                        order = [(c[1], c[3]) for c in x690.children(e, t[3], t[4])]
                        if order != sorted(order):
                            fails.append(rec('%s: SET members are not in canonical order on the wire: %r' % (desc, order),
                                             codec=cname, tagging=tagging, container=container, constructed=constructed,
                                             enc={'hex': e.hex()}))
                    except Exception as ex:
                        fails.append(rec('%s: reference reader failed on the DER output: %s' % (desc, type(ex).__name__),
                                         codec=cname, tagging=tagging, container=container, constructed=constructed))
                # 1. resolution on
                try:
                    r, rest = dec.decode(e, asn1Spec=spec, decodeOpenTypes=True)
                    got = r['blob'][0] if container in ('setof', 'set-setof') else r['blob']
                    ok = (got == inner) and got.__class__ is inner.__class__ and not rest
                    if container in ('setof', 'set-setof'):
                        ok = ok and len(r['blob']) == 2 and r['blob'][1] == inner
                    if not ok:
                        fails.append(rec('%s: decodeOpenTypes=True gives %r instead of the typed inner value' % (
                            desc, got.__class__.__name__), codec=cname, tagging=tagging, container=container,
                            constructed=constructed, enc={'hex': e.hex()}))
                except Exception as ex:
                    fails.append(rec('%s: decodeOpenTypes=True raised %s: %s' % (desc, type(ex).__name__, str(ex)[:100]),
                                     codec=cname, tagging=tagging, container=container, constructed=constructed,
                                     enc={'hex': e.hex()}))
                # 2. resolution off: the field holds exactly the complete encoding of the inner value
                n += 1
                try:
                    r, rest = dec.decode(e, asn1Spec=spec)
                    raw = r['blob'][0] if container in ('setof', 'set-setof') else r['blob']
                    want = enc(inner)
                    if bytes(raw) != want or rest:
                        fails.append(rec('%s: with resolution off the field holds %s, the encoding of the inner value is %s'
                                         % (desc, bytes(raw).hex(), want.hex()), codec=cname, tagging=tagging,
                                         container=container, constructed=constructed, enc={'hex': e.hex()}))
                except Exception as ex:
                    fails.append(rec('%s: decoding with resolution off raised %s: %s' % (desc, type(ex).__name__,
                                                                                        str(ex)[:100]), codec=cname,
                                     tagging=tagging, container=container, constructed=constructed, enc={'hex': e.hex()}))
                # 2b. a collection that mixes a raw element (as captured with resolution off: a value of the field's own
                #     type) with the typed inner value encodes like the collection of two typed ones: wrapped or not is
                #     decided per element
                if container in ('setof', 'set-setof'):
                    n += 1
                    try:
                        r0, _ = dec.decode(e, asn1Spec=spec)
                        for order in ((0, 1), (1, 0)):
                            v2 = spec.clone()
                            if govmode != 'default':
                                v2['id'] = spec.componentType['id'].asn1Object.clone(key)
                            items = [r0['blob'][0], inner]
                            for k in order:
                                v2['blob'].append(items[k])
                            e2 = enc(v2)
                            if e2 != e:
                                fails.append(rec('%s: a collection mixing a captured element and a typed one (order %r) '
                                                 'encodes to %s, two typed ones to %s' % (desc, order, e2.hex(), e.hex()),
                                                 codec=cname, tagging=tagging, container=container, constructed=constructed))
                                break
                    except Exception as ex:
                        fails.append(rec('%s: mixed collection raised %s: %s' % (desc, type(ex).__name__, str(ex)[:100]),
                                         codec=cname, tagging=tagging, container=container, constructed=constructed))
                # 3. caller-supplied map overrides the default one
                n += 1
                try:
                    override = {key: univ.Any()}
                    r, rest = dec.decode(e, asn1Spec=spec, openTypes=override, decodeOpenTypes=True)
                    got = r['blob'][0] if container in ('setof', 'set-setof') else r['blob']
                    if not isinstance(got, univ.Any):
                        fails.append(rec('%s: openTypes override ignored (got %s)' % (desc, got.__class__.__name__), codec=cname,
                                         tagging=tagging, container=container, constructed=constructed))
                except Exception as ex:
                    fails.append(rec('%s: openTypes override raised %s: %s' % (desc, type(ex).__name__, str(ex)[:100]),
                                     codec=cname, tagging=tagging, container=container, constructed=constructed))
                # 4. a caller's map that does not bind this governing value: the type's own map resolves it, and the
                #    caller's map is what it was (a second call with the same map must see the same thing)
                n += 1
                try:
                    other_key = 99 if not isinstance(key, tuple) else (2, 999)
                    callers = {other_key: univ.Null()}
                    before = dict(callers)
                    r, rest = dec.decode(e, asn1Spec=spec, openTypes=callers)
                    if callers != before or list(callers) != list(before):
                        fails.append(rec('%s: decode() changed the caller\'s openTypes map: keys %r, were %r' % (
                            desc, sorted(map(repr, callers)), sorted(map(repr, before))), codec=cname, tagging=tagging,
                            container=container, constructed=constructed))
                except Exception as ex:
                    fails.append(rec('%s: caller map without the governing value raised %s: %s' % (
                        desc, type(ex).__name__, str(ex)[:100]), codec=cname, tagging=tagging, container=container,
                        constructed=constructed))
    f2, n2 = empty_inner(codecs)
    f3, n3 = late_registration(codecs)
    f4, n4 = marker_as_inner_value()
    return fails + f2 + f3 + f4, n + n2 + n3 + n4


def marker_as_inner_value():
    """captured octets `00 00` are no inner value: with resolution on, the decoder refuses them or leaves the field as captured
    -- it never hands out the end-of-octets object as (part of) a decoded value"""
    from pyasn1.type import univ, namedtype, opentype, tag, base
    from pyasn1.codec.ber import decoder as bd, eoo
    from pyasn1 import error
    fails, n = [], 0
    t0 = tag.Tag(tag.tagClassContext, tag.tagFormatSimple, 0)
    tmap = {1: univ.Integer(), 2: univ.OctetString()}
    any0 = univ.Any().subtype(implicitTag=t0)
    coll = univ.Sequence(componentType=namedtype.NamedTypes(
        namedtype.NamedType('id', univ.Integer()),
        namedtype.NamedType('blob', univ.SetOf(componentType=any0), openType=opentype.OpenType('id', tmap))))
    single = univ.Sequence(componentType=namedtype.NamedTypes(
        namedtype.NamedType('id', univ.Integer()), namedtype.NamedType('blob', any0, openType=opentype.OpenType('id', tmap))))

    def holds_marker(o):
        if o is eoo.endOfOctets or o.__class__ is eoo.EndOfOctets:
            return True
        if isinstance(o, (univ.SequenceOf, univ.SetOf)):
            return any(holds_marker(x) for x in o)
        if isinstance(o, (univ.Sequence, univ.Set)):
            return any(holds_marker(c) for c in o.values() if c is not None and c.isValue)
        return False
    for spec, hexes in ((coll, ('3080 020101 3104 80020000 0000', '3009 020101 3104 80020000', '3080 020101 3180 80020000 0000 0000',
                                '3080 020101 3108 80020000 80020105 0000')),
                        (single, ('3080 020101 80020000 0000', '3007 020101 80020000'))):
        for h in hexes:
            n += 1
            b = bytes.fromhex(h.replace(' ', ''))
            try:
                r, rest = bd.decode(b, asn1Spec=spec, decodeOpenTypes=True)
            except error.PyAsn1Error:
                continue
            except Exception as ex:
                fails.append(rec('captured octets 00 00 under an open type: %s: %s' % (type(ex).__name__, str(ex)[:80]),
                                 codec='BER', tagging='implicit', container='set-of' if spec is coll else 'single', constructed=False))
                continue
            if holds_marker(r):
                fails.append(rec('the decoded value of %s holds the end-of-octets object' % h, codec='BER', tagging='implicit',
                                 container='set-of' if spec is coll else 'single', constructed=False))
    return fails, n


def late_registration(codecs):
    """a type map that is empty when the open type is declared and filled afterwards (how modules register their types in
    each other's maps): the governing values registered later resolve"""
    from pyasn1.type import univ, namedtype, opentype
    fails, n = [], 0
    for first in ({}, {7: univ.Null()}):
        tmap = dict(first)
        ot = opentype.OpenType('id', tmap)
        spec = univ.Sequence(componentType=namedtype.NamedTypes(namedtype.NamedType('id', univ.Integer()),
                                                                namedtype.NamedType('blob', univ.Any(), openType=ot)))
        tmap[1] = univ.Integer()
        tmap[2] = univ.OctetString()
        for key, inner in ((1, univ.Integer(12)), (2, univ.OctetString(b'ab'))):
            v = spec.clone()
            v['id'] = key
            v['blob'] = inner
            for cname, enc, dec in codecs:
                n += 1
                try:
                    r, rest = dec.decode(enc(v), asn1Spec=spec, decodeOpenTypes=True)
                    if r['blob'].__class__ is not inner.__class__ or r['blob'] != inner:
                        fails.append(rec('%s: governing value %d registered after the type was declared (map initially %s): '
                                         'the field came back as %s' % (cname, key, 'empty' if not first else 'non-empty',
                                                                        r['blob'].__class__.__name__), codec=cname,
                                         tagging='untagged', container='single', constructed=False))
                except Exception as ex:
                    fails.append(rec('%s: late registration raised %s: %s' % (cname, type(ex).__name__, str(ex)[:100]),
                                     codec=cname, tagging='untagged', container='single', constructed=False))
    return fails, n


def empty_inner(codecs):
    """an OPTIONAL open type field whose inner value is an empty constructed value: the field is present, and comes back
    as that empty value, in every codec (the canonical encoders' "omit an empty OPTIONAL member" is about members)"""
    from pyasn1.type import univ, namedtype, opentype, tag
    from pyasn1.codec.ber import encoder as be
    fails, n = [], 0
    t3 = tag.Tag(tag.tagClassContext, tag.tagFormatSimple, 3)
    so_t = univ.SequenceOf(componentType=univ.Integer())
    rec_t = univ.Sequence(componentType=namedtype.NamedTypes(namedtype.OptionalNamedType('a', univ.Integer())))
    ot = opentype.OpenType('id', {1: so_t, 2: rec_t})
    for kind, tagging in itertools.product((univ.Sequence, univ.Set), ('untagged', 'implicit', 'explicit')):
        if kind is univ.Set and tagging == 'untagged':
            continue
        any_ = univ.Any() if tagging == 'untagged' else univ.Any().subtype(**{tagging + 'Tag': t3})
        spec = kind(componentType=namedtype.NamedTypes(namedtype.NamedType('id', univ.Integer()),
                                                       namedtype.OptionalNamedType('blob', any_, openType=ot)))
        for key, inner in ((1, so_t.clone().clear()), (2, rec_t.clone().clear())):
            v = spec.clone()
            v['id'] = spec.componentType['id'].asn1Object.clone(key)
            v['blob'] = inner
            for cname, enc, dec in codecs:
                n += 1
                desc = '%s %s OPTIONAL ANY in a %s, empty inner %s' % (cname, tagging, kind.__name__, inner.__class__.__name__)
                try:
                    e = enc(v)
                    r, rest = dec.decode(e, asn1Spec=spec, decodeOpenTypes=True)
                    got = r.getComponentByName('blob', default=None, instantiate=False)
                    if got is None or got.__class__ is not inner.__class__ or be.encode(got) != be.encode(inner) or rest:
                        fails.append(rec('%s: the field came back as %s' % (desc, 'absent' if got is None else repr(got)[:60]),
                                         codec=cname, tagging=tagging, container='single', constructed=True, enc={'hex': e.hex()}))
                except Exception as ex:
                    fails.append(rec('%s: %s: %s' % (desc, type(ex).__name__, str(ex)[:100]), codec=cname, tagging=tagging,
                                     container='single', constructed=True))
    return fails, n


def main():
    ap = argparse.ArgumentParser()
    ap.add_argument('checks')
    ap.add_argument('--tier', default='quick')
    ap.add_argument('--seed', type=int, default=0)
    ap.add_argument('--out')
    ap.add_argument('--replay')
    a = ap.parse_args()
    t0 = time.time()
    fails, n = run(a.tier if not a.replay else 'thorough')
    if a.replay:
        want = json.loads(a.replay)
        same = [x for x in fails if x['detail'][:70] == want['detail'][:70]]
        for x in same[:3]:
            print('REPRODUCED open-types: %s' % x['detail'][:300])
        if not same:
            print('not reproduced on this tree')
        sys.exit(1 if same else 0)
    res = {'checks': ['open-types'], 'evaluations': n, 'distinct_nontrivial': n, 'failures': fails, 'wall_s': time.time() - t0}
    if a.out:
        json.dump(res, open(a.out, 'w'))
    else:
        print({k: v for k, v in res.items() if k != 'failures'})
        import collections
        cn = collections.Counter((f.get('codec'), f.get('tagging'), f.get('container'), f.get('constructed'),
                                  f['detail'].split(':', 1)[-1][:90]) for f in fails)
        for k, c in cn.most_common(40):
            print(c, k)


if __name__ == '__main__':
    main()
