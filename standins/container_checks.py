"""Bounded stand-in for C19 (containers refine their python prototypes) -- labelled `bounded`.

    python -m standins.container_checks containers --tier quick|thorough --seed N --out file.json
"""
import argparse
import itertools
import json
import random
import sys
import time


def rec(detail, **kw):
    d = {'check': 'containers', 'T': {'k': kw.get('container', '?')}, 'v': None, 'detail': detail, 'features': []}
    d.update(kw)
    return d


LOOKUP = (KeyError, IndexError)


def der(obj):
    from pyasn1.codec.der import encoder
    return encoder.encode(obj)


# ---- SEQUENCE OF / SET OF against a python list -------------------------------------------------------------
def seqof_ops(rng, n):
    ops = []
    for _ in range(n):
        k = rng.choice(['append', 'append', 'extend', 'setitem', 'setcomp', 'sort', 'reverse', 'clear', 'reset', 'clone',
                        'len', 'iter', 'in', 'getitem', 'getneg', 'getcomp', 'count', 'index', 'pretty', 'eq', 'encode',
                        'bad-get', 'bad-set', 'slice-get', 'slice-set', 'bad-slice-set', 'isValue'])
        ops.append((k, rng.randrange(-3, 9), rng.randrange(0, 6)))
    return ops


def run_seqof(ops, typed):
    from pyasn1.type import univ
    from pyasn1 import error
    proto = univ.SequenceOf(componentType=univ.Integer()) if typed else univ.SequenceOf()
    obj = proto.clone()
    model = None           # None = schema (no value yet), else python list
    hist = []

    def mk(x):
        return x if typed else univ.Integer(x)

    def check(where):
        if model is None:
            if obj.isValue:
                return 'isValue is True on a container that was never given a value'
            return None
        if not obj.isValue:
            return 'isValue is False although the model holds %r' % (model,)
        if len(obj) != len(model):
            return 'len %d, model %d' % (len(obj), len(model))
        got = [int(x) for x in obj]
        if got != model:
            return 'content %r, model %r' % (got, model)
        if der(obj) != der(univ.SequenceOf(componentType=univ.Integer()).clone().extend(model) or
                           _build(model)):
            return 'DER differs from DER of the model'
        return None

    def _build(m):
        o = univ.SequenceOf(componentType=univ.Integer())
        o.clear()
        o.extend(m)
        return o
    check.__globals__['_build'] = _build
    for k, a, b in ops:
        hist.append('%s(%d,%d)' % (k, a, b))
        before = None if model is None else list(model)
        try:
            if k == 'append':
                obj.append(mk(a))
                model = (model or []) + [a]
            elif k == 'extend':
                items = [a, b][:1 + (b % 2)]
                obj.extend([mk(x) for x in items])
                model = (model or []) + items
            elif k in ('setitem', 'setcomp'):
                i = b % (len(model or []) + 1)
                if k == 'setitem':
                    obj[i] = mk(a)
                else:
                    obj.setComponentByPosition(i, mk(a))
                model = list(model or [])
                if i == len(model):
                    model.append(a)
                else:
                    model[i] = a
            elif k == 'sort':
                if model:
                    if a % 3 == 0:
                        obj.sort(key=lambda x: int(x))
                        model = sorted(model)
                    else:
                        # coarse key with ties, both directions: list.sort is stable, also with reverse=True
                        obj.sort(key=lambda x: int(x) // 3, reverse=bool(a % 3 - 1))
                        model = sorted(model, key=lambda x: x // 3, reverse=bool(a % 3 - 1))
            elif k == 'reverse':
                if model:
                    obj.reverse()
                    model = list(reversed(model))
            elif k == 'clear':
                obj.clear()
                model = []
            elif k == 'reset':
                obj.reset()
                model = None
            elif k == 'clone':
                obj = obj.clone(cloneValueFlag=True)
            elif k == 'len':
                if model is not None and len(obj) != len(model):
                    return rec('len() is %d, model %d' % (len(obj), len(model)), history=hist, container='SequenceOf')
            elif k == 'iter':
                if model is not None and [int(x) for x in obj] != model:
                    return rec('iteration differs from the model', history=hist, container='SequenceOf')
            elif k == 'in':
                if model is not None and ((mk(a) in obj) != (a in model)):
                    return rec('membership of %d differs from the model' % a, history=hist, container='SequenceOf')
            elif k in ('getitem', 'getneg', 'getcomp'):
                if model:
                    i = b % len(model)
                    if k == 'getneg':
                        i = i - len(model)
                    got = obj[i] if k != 'getcomp' else obj.getComponentByPosition(i % len(model), instantiate=bool(a % 2))
                    if int(got) != model[i]:
                        return rec('read of element %d gives %r, model %r' % (i, int(got), model[i]), history=hist,
                                   container='SequenceOf')
            elif k == 'count':
                if model is not None:
                    if obj.count(mk(a)) != model.count(a):
                        return rec('count differs', history=hist, container='SequenceOf')
            elif k == 'index':
                if model and a in model:
                    if obj.index(mk(a)) != model.index(a):
                        return rec('index differs', history=hist, container='SequenceOf')
            elif k == 'pretty':
                obj.prettyPrint()
                repr(obj)
            elif k == 'eq':
                if model is not None and not (obj == obj.clone(cloneValueFlag=True)):
                    return rec('value is not equal to its own deep clone', history=hist, container='SequenceOf')
            elif k == 'encode':
                if model is not None:
                    der(obj)
            elif k == 'isValue':
                obj.isValue
            elif k == 'slice-get':
                if model is not None:
                    got = [int(x) for x in obj[0:2]]
                    if got != model[0:2]:
                        return rec('slice read differs', history=hist, container='SequenceOf')
            elif k == 'slice-set':
                # python list semantics, also when the new items are fewer or more than the span they replace
                n_ = len(model or [])
                lo = a % (n_ + 2)
                sl = (slice(lo, lo + b % 3), slice(lo, None), slice(None, lo), slice(-(b % 3) - 1, None),
                      slice(None, None))[(a + b) % 5]
                items = [a, b, a + b][:(a * 7 + b) % 4]
                expect = list(model or [])
                expect[sl] = items
                obj[sl] = [mk(x) for x in items]
                model = expect
            elif k == 'bad-slice-set':
                # an item that is no value of the element type, refused by whatever error its conversion raises (the
                # library's, or TypeError / ValueError out of int()): the refusal leaves the container as it was --
                # checked below against the unchanged model
                n_ = len(model or [])
                lo = a % (n_ + 2)
                sl = (slice(lo, lo + b % 3), slice(lo, None), slice(None, None))[(a + b) % 3]
                bad = (None, [2], 'x', object())[(a * 3 + b) % 4]
                items = [[mk(a), bad, mk(b)], [bad], [mk(b), mk(a), bad]][(a + 2 * b) % 3]
                try:
                    obj[sl] = items
                except Exception:
                    pass
                else:
                    return rec('slice assignment of %r succeeds' % (bad,), history=hist, container='SequenceOf',
                               kind='ill-formed-accepted')
            elif k == 'bad-get':
                n = len(model or [])
                try:
                    obj[n + 3]
                except LOOKUP + (error.PyAsn1Error,):
                    pass
                else:
                    return rec('reading position %d of a container of length %d succeeds' % (n + 3, n), history=hist,
                               container='SequenceOf', kind='ill-formed-accepted')
                # and it changed nothing (checked below)
            elif k == 'bad-set':
                try:
                    obj['nope'] = mk(a)
                except LOOKUP + (error.PyAsn1Error, TypeError):
                    pass
        except error.PyAsn1Error as e:
            if k in ('len', 'iter', 'in', 'count', 'index', 'pretty', 'eq', 'isValue', 'slice-get') and model is None:
                continue        # reads on a schema object may be refused with the library error
            return rec('well-formed operation raised PyAsn1Error: %s' % str(e)[:100], history=hist, container='SequenceOf',
                       op=k, typed=typed)
        except Exception as e:
            return rec('operation raised %s: %s' % (type(e).__name__, str(e)[:100]), history=hist, container='SequenceOf',
                       op=k, typed=typed, schema=(model is None))
        if k in ('len', 'iter', 'in', 'getitem', 'getneg', 'getcomp', 'count', 'index', 'pretty', 'eq', 'encode', 'bad-get',
                 'bad-set', 'slice-get', 'isValue') and before != (None if model is None else list(model)):
            pass
        why = check(k)
        if why:
            return rec('after %s: %s' % (k, why), history=hist, container='SequenceOf', op=k, typed=typed)
    return None


# ---- SEQUENCE against a dict, CHOICE against "at most one" ---------------------------------------------------
def run_record(ops):
    from pyasn1.type import univ, namedtype
    from pyasn1 import error
    proto = univ.Sequence(componentType=namedtype.NamedTypes(
        namedtype.NamedType('a', univ.Integer()), namedtype.OptionalNamedType('b', univ.OctetString()),
        namedtype.DefaultedNamedType('c', univ.Integer(7))))
    names = ['a', 'b', 'c']
    obj = proto.clone()
    model = {}
    hist = []
    schema = False          # after reset() the object is a blank schema: reads may be refused with the library error
    for k, a, b in ops:
        name = names[b % 3]
        hist.append('%s(%s,%d)' % (k, name, a))
        if model:
            schema = False
        val = (bytes([65 + a % 26]) if name == 'b' else a)
        try:
            if k in ('append', 'setitem'):
                obj[name] = val
                model[name] = val
            elif k in ('extend', 'setcomp'):
                obj.setComponentByPosition(b % 3, val)
                model[name] = val
            elif k == 'sort':
                obj.setComponentByName(name, val)
                model[name] = val
            elif k == 'clear':
                obj.clear()
                model = {}
            elif k == 'reset':
                obj.reset()
                model = {}
                schema = True
            elif k == 'clone':
                obj = obj.clone(cloneValueFlag=True)
            elif k in ('getitem', 'getneg', 'getcomp'):
                got = obj[name] if k == 'getitem' else obj.getComponentByName(name, instantiate=bool(a % 2), default=None)
                if name in model:
                    g = bytes(got) if name == 'b' else int(got)
                    if g != model[name]:
                        return rec('read of %s gives %r, model %r' % (name, g, model[name]), history=hist, container='Sequence')
            elif k in ('iter', 'len', 'in'):
                list(obj.keys())
            elif k in ('pretty', 'eq', 'isValue'):
                obj.prettyPrint()
                obj.isValue
            elif k == 'bad-get':
                try:
                    obj['zz']
                except LOOKUP + (error.PyAsn1Error,):
                    pass
                else:
                    return rec('reading unknown member name succeeds', history=hist, container='Sequence')
            elif k == 'bad-set':
                try:
                    obj.setComponentByPosition(7, 1)
                except LOOKUP + (error.PyAsn1Error,):
                    pass
                else:
                    return rec('assigning position 7 of a 3-member SEQUENCE succeeds', history=hist, container='Sequence')
        except error.PyAsn1Error as e:
            if schema and k in ('iter', 'len', 'in', 'pretty', 'eq', 'isValue', 'getitem', 'getneg', 'getcomp', 'clone', 'encode'):
                continue
            return rec('well-formed operation raised PyAsn1Error: %s' % str(e)[:100], history=hist, container='Sequence', op=k)
        except Exception as e:
            return rec('operation raised %s: %s' % (type(e).__name__, str(e)[:100]), history=hist, container='Sequence', op=k)
        # len() is the number of keys (the dict model of a record has one key per declared component), before and after
        # reads of any kind
        try:
            ln = len(obj)
        except error.PyAsn1Error:
            ln = None
            if not schema:
                return rec('len() of a record value raised PyAsn1Error', history=hist, container='Sequence', op=k)
        if ln is not None and ln != len(names):
            return rec('len() is %d, the record has %d keys' % (ln, len(names)), history=hist, container='Sequence', op=k)
        # compare with the model
        for n_ in names:
            c = obj.getComponentByName(n_, default=None, instantiate=False)
            present = c is not None and c.isValue
            if n_ == 'c' and not present and 'c' not in model:
                continue
            if present != (n_ in model) and not (n_ == 'c' and present and 'c' not in model and int(c) == 7):
                return rec('member %s present=%r, model %r' % (n_, present, n_ in model), history=hist, container='Sequence', op=k)
            if present and n_ in model:
                g = bytes(c) if n_ == 'b' else int(c)
                if g != model[n_]:
                    return rec('member %s is %r, model %r' % (n_, g, model[n_]), history=hist, container='Sequence', op=k)
        if 'a' in model:
            fresh = proto.clone()
            for n_, x in model.items():
                fresh[n_] = x
            try:
                if der(obj) != der(fresh):
                    return rec('DER differs from DER of the model', history=hist, container='Sequence', op=k)
            except error.PyAsn1Error as e:
                return rec('complete value cannot be encoded: %s' % str(e)[:100], history=hist, container='Sequence', op=k)
            # == / != agree with equality of the dict models
            model2 = dict(model)
            if 'b' in model2:
                del model2['b']
            else:
                model2['b'] = b'Q'
            other = proto.clone()
            for n_, x in model2.items():
                other[n_] = x
            try:
                same_model = all((n_ in model) == (obj.getComponentByName(n_, default=None, instantiate=False) is not None and
                                                  obj.getComponentByName(n_, default=None, instantiate=False).isValue)
                                 for n_ in names)
                if same_model and (not (obj == fresh) or (obj != fresh)):
                    return rec('== says the value differs from an equal value built from the model', history=hist,
                               container='Sequence', op=k)
                if (obj == other) or not (obj != other):
                    return rec('== says the value equals one with a different OPTIONAL member', history=hist,
                               container='Sequence', op=k)
            except error.PyAsn1Error as e:
                return rec('comparing two record values raised PyAsn1Error: %s' % str(e)[:80], history=hist,
                           container='Sequence', op='==')
    return None


def run_choice(ops):
    from pyasn1.type import univ, namedtype
    from pyasn1 import error
    proto = univ.Choice(componentType=namedtype.NamedTypes(
        namedtype.NamedType('i', univ.Integer()), namedtype.NamedType('s', univ.OctetString()),
        namedtype.NamedType('b', univ.Boolean())))
    names = ['i', 's', 'b']
    obj = proto.clone()
    model = None       # (name, value)
    hist = []
    for k, a, b in ops:
        name = names[b % 3]
        val = {'i': a, 's': bytes([65 + a % 26]), 'b': bool(a % 2)}[name]
        hist.append('%s(%s,%r)' % (k, name, val))
        try:
            if k in ('append', 'setitem', 'extend'):
                obj[name] = val
                model = (name, val)
            elif k == 'setcomp':
                obj.setComponentByPosition(b % 3, val)
                model = (name, val)
            elif k == 'sort':
                # the same alternative addressed from the end, as a python list index
                obj.setComponentByPosition(b % 3 - 3, val)
                model = (name, val)
            elif k == 'reverse':
                # a position before the first alternative: refused, nothing changes
                try:
                    obj.setComponentByPosition(-4 - b % 3, val)
                except LOOKUP + (error.PyAsn1Error,):
                    pass
                else:
                    return rec('position %d of a three-way CHOICE accepted' % (-4 - b % 3), history=hist, container='Choice')
            elif k == 'clear':
                obj.clear()
                model = None
            elif k == 'reset':
                obj.reset()
                model = None
            elif k == 'clone':
                obj = obj.clone(cloneValueFlag=True)
            elif k in ('getitem', 'getcomp', 'getneg'):
                if model:
                    got = obj[model[0]] if k == 'getitem' else obj.getComponent()
                    g = {'i': int, 's': bytes, 'b': bool}[model[0]](got)
                    if g != model[1]:
                        return rec('read of the selected alternative gives %r, model %r' % (g, model[1]), history=hist, container='Choice')
            elif k in ('iter', 'len', 'in', 'count'):
                ks = list(obj) if model else []
                if model and (ks != [model[0]] or len(obj) != 1 or (model[0] not in obj)):
                    return rec('iteration/len/membership differ from the model: %r' % (ks,), history=hist, container='Choice')
                if not model:
                    if len(obj) != 0 or list(obj.keys()) != []:
                        return rec('empty CHOICE reports members', history=hist, container='Choice')
                    for x in obj:
                        return rec('iterating an empty CHOICE yields %r' % (x,), history=hist, container='Choice')
            elif k in ('pretty', 'eq', 'isValue', 'encode'):
                obj.isValue
                if model:
                    obj.prettyPrint()
                    der(obj)
            elif k == 'bad-get':
                try:
                    obj['zz']
                except LOOKUP + (error.PyAsn1Error,):
                    pass
                else:
                    return rec('reading unknown alternative succeeds', history=hist, container='Choice')
            elif k == 'index' and model and name != model[0]:
                # a read of an alternative that is not the selected one: a lookup error or a placeholder, but the
                # selection (and with it the value) stays
                try:
                    obj[name]
                except LOOKUP + (error.PyAsn1Error,):
                    pass
                try:
                    still = obj.getName() == model[0] and bool(obj.isValue)
                except error.PyAsn1Error:
                    still = False
                if not still:
                    return rec('reading alternative %s while %s is selected changed the selection' % (name, model[0]),
                               history=hist, container='Choice', op='read-other')
        except error.PyAsn1Error as e:
            return rec('well-formed operation raised PyAsn1Error: %s' % str(e)[:100], history=hist, container='Choice', op=k)
        except Exception as e:
            return rec('operation raised %s: %s' % (type(e).__name__, str(e)[:100]), history=hist, container='Choice', op=k,
                       empty=(model is None))
        # at most one alternative at any time, equal to the model
        held = [n_ for i_, n_ in enumerate(names)
                if obj.getComponentByPosition(i_, default=None, instantiate=False) is not None
                and obj.getComponentByPosition(i_, default=None, instantiate=False).isValue] if False else None
        from pyasn1.type import base as _b
        vals = [x for x in obj._componentValues if x is not None and x is not _b.noValue and x.isValue] \
            if isinstance(obj._componentValues, list) else []
        if len(vals) > 1:
            return rec('CHOICE holds %d alternatives at once' % len(vals), history=hist, container='Choice', op=k)
        if bool(obj.isValue) != (model is not None):
            return rec('isValue is %r, model %r' % (bool(obj.isValue), model), history=hist, container='Choice', op=k)
        if model:
            if obj.getName() != model[0]:
                return rec('selected alternative %s, model %s' % (obj.getName(), model[0]), history=hist, container='Choice', op=k)
            fresh = proto.clone()
            fresh[model[0]] = model[1]
            if der(obj) != der(fresh):
                return rec('DER differs from DER of the model', history=hist, container='Choice', op=k)
    return None


def novalue_checks():
    """arithmetic / conversion / comparison on a valueless scalar fails with the library's error"""
    from pyasn1.type import univ, char
    from pyasn1 import error
    fails, n = [], 0
    for proto in (univ.Integer(), univ.OctetString(), univ.BitString(), univ.ObjectIdentifier(), univ.Boolean(),
                  univ.Real(), char.UTF8String(), univ.Enumerated()):
        uses = {'int': lambda x: int(x), 'str': lambda x: str(x), 'add': lambda x: x + 1, 'radd': lambda x: 1 + x,
                'eq': lambda x: x == 1, 'lt': lambda x: x < 1, 'len': lambda x: len(x), 'bool': lambda x: bool(x),
                'getitem': lambda x: x[0], 'iter': lambda x: list(x), 'hash': lambda x: hash(x), 'bytes': lambda x: bytes(x),
                'float': lambda x: float(x), 'neg': lambda x: -x, 'contains': lambda x: 1 in x, 'mul': lambda x: x * 2,
                'index': lambda x: [1, 2, 3][x],
                # comparison with itself and with another valueless object of the type
                'eq-self': lambda x: x == x, 'ne-self': lambda x: x != x, 'eq-schema': lambda x: x == x.clone(),
                'le-self': lambda x: x <= x}
        for name, f in uses.items():
            n += 1
            try:
                r = f(proto)
            except error.PyAsn1Error:
                continue
            except (TypeError, AttributeError) as e:
                # operation not defined for this type at all (e.g. len(Integer)): python's own refusal is fine
                continue
            except Exception as e:
                fails.append(rec('%s on a valueless %s raised %s' % (name, proto.__class__.__name__, type(e).__name__),
                                 container=proto.__class__.__name__, op=name, novalue=True))
                continue
            fails.append(rec('%s on a valueless %s returned %r' % (name, proto.__class__.__name__, r),
                             container=proto.__class__.__name__, op=name, novalue=True))
    return fails, n


def sort_grid(tier):
    """SequenceOf.sort(key, reverse) against list.sort on every list over a small alphabet (ties under a coarse key,
    both directions), plus reverse() and slicing reads afterwards"""
    import itertools
    from pyasn1.type import univ
    fails, n = [], 0
    keys = [('none', None, None), ('coarse', lambda x: int(x) // 2, lambda x: x // 2), ('parity', lambda x: int(x) % 2, lambda x: x % 2),
            ('const', lambda x: 0, lambda x: 0)]
    maxlen = 4 if tier == 'quick' else 5
    for L in range(1, maxlen + 1):
        for vals in itertools.product(range(5), repeat=L):
            for kname, kobj, kmodel in keys:
                for rev in (False, True):
                    n += 1
                    s = univ.SequenceOf(componentType=univ.Integer())
                    s.extend(vals)
                    model = list(vals)
                    try:
                        s.sort(key=kobj, reverse=rev)
                    except Exception as e:
                        fails.append(rec('sort(key=%s, reverse=%r) on %r raised %s' % (kname, rev, list(vals), type(e).__name__),
                                         history=['sort-grid']))
                        continue
                    model.sort(key=kmodel, reverse=rev)
                    got = [int(x) for x in s]
                    if got != model:
                        fails.append(rec('sort(key=%s, reverse=%r) on %r gives %r, list.sort gives %r' % (
                            kname, rev, list(vals), got, model), history=['sort-grid']))
            # reverse(), then the operations that walk the members: index (first position, windows), count, a stable sort
            n += 1
            s = univ.SequenceOf(componentType=univ.Integer())
            s.extend(vals)
            model = list(vals)
            try:
                s.reverse()
                model.reverse()
                why = None
                if [int(x) for x in s] != model:
                    why = 'reverse() gives %r' % [int(x) for x in s]
                for v in sorted(set(vals)):
                    if why is None and s.index(v) != model.index(v):
                        why = 'after reverse(), index(%d) is %d, list gives %d' % (v, s.index(v), model.index(v))
                    if why is None and s.count(v) != model.count(v):
                        why = 'after reverse(), count(%d) is %d' % (v, s.count(v))
                    for lo in range(L):
                        try:
                            want = model.index(v, lo, L)
                        except ValueError:
                            want = None
                        try:
                            got = s.index(v, lo, L)
                        except Exception:
                            got = None
                        if why is None and got != want:
                            why = 'after reverse(), index(%d, %d, %d) is %r, list gives %r' % (v, lo, L, got, want)
                if why is None:
                    s.sort(key=lambda x: int(x) // 2)
                    model.sort(key=lambda x: x // 2)
                    if [int(x) for x in s] != model:
                        why = 'reverse() then a stable sort by x // 2 gives %r, list gives %r' % ([int(x) for x in s], model)
                if why:
                    fails.append(rec('%s (on %r)' % (why, list(vals)), history=['sort-grid', 'reverse'], container='SequenceOf',
                                     op='reverse'))
            except Exception as e:
                fails.append(rec('reverse grid on %r raised %s: %s' % (list(vals), type(e).__name__, str(e)[:80]),
                                 history=['sort-grid', 'reverse']))
    return fails, n


def setof_eq_grid(tier):
    """SET OF comparison against collections.Counter: equal iff the same elements the same number of times, whatever the
    insertion order; != is its negation"""
    import itertools, collections
    from pyasn1.type import univ
    fails, n = [], 0
    maxlen = 3 if tier == 'quick' else 4
    lists = [vals for L in range(0, maxlen + 1) for vals in itertools.product(range(1, 4), repeat=L)]
    for x in lists:
        for y in lists:
            n += 1
            a = univ.SetOf(componentType=univ.Integer())
            a.clear()
            a.extend(x)
            b = univ.SetOf(componentType=univ.Integer())
            b.clear()
            b.extend(y)
            want = collections.Counter(x) == collections.Counter(y)
            try:
                got, gotne = (a == b), (a != b)
            except Exception as e:
                fails.append(rec('SET OF %r == %r raised %s' % (list(x), list(y), type(e).__name__), history=['setof-eq-grid']))
                continue
            if got != want or gotne == want:
                fails.append(rec('SET OF %r == %r gives %r (!= gives %r), the multisets are %s' % (
                    list(x), list(y), got, gotne, 'equal' if want else 'different'), history=['setof-eq-grid'],
                    container='SetOf', op='=='))
    return fails, n


def clone_grid(tier):
    """clone(cloneValueFlag=True) of records in every state of completion (members unset, read-only placeholders, partly
    filled nested records and collections): the copy has the abstract content of the original, and the two stay equal when
    they are completed the same way"""
    import itertools
    from pyasn1.type import univ, namedtype
    from pyasn1 import error
    inner = univ.Sequence(componentType=namedtype.NamedTypes(
        namedtype.NamedType('a', univ.Integer()), namedtype.NamedType('b', univ.Integer())))
    proto = univ.Sequence(componentType=namedtype.NamedTypes(
        namedtype.NamedType('inner', inner), namedtype.OptionalNamedType('n', univ.Integer()),
        namedtype.OptionalNamedType('l', univ.SequenceOf(componentType=inner))))

    def content(o):
        """abstract content, read from the component stores themselves: the non-instantiating accessors hide members
        that are not complete values, and the instantiating ones would change what is being compared"""
        if o is univ.noValue:
            return None
        if isinstance(o, univ.SequenceOf):
            if o._componentValues is univ.noValue:
                return None
            return [content(o._componentValues.get(i, univ.noValue)) for i in range(len(o))]
        if isinstance(o, univ.Sequence):
            if o._componentValues is univ.noValue:
                return None
            d = {}
            for nm, c in zip(o.componentType.keys(), o._componentValues):
                c = content(c)
                if c is not None:           # an empty record *value* ({}) is content, a schema placeholder (None) is not
                    d[nm] = c
            return d
        return int(o) if o.isValue else None

    steps = [('inner.a', lambda o: o['inner'].__setitem__('a', 1)), ('inner.b', lambda o: o['inner'].__setitem__('b', 2)),
             ('n', lambda o: o.__setitem__('n', 3)), ('read-n', lambda o: o['n']), ('read-inner', lambda o: o['inner']),
             ('l[0].a', lambda o: o['l'][0].__setitem__('a', 4)), ('l[0].b', lambda o: o['l'][0].__setitem__('b', 5)),
             ('l[1].a', lambda o: o['l'][len(o['l'])].__setitem__('a', 6))]
    finish = [lambda o: o['inner'].__setitem__('a', 1), lambda o: o['inner'].__setitem__('b', 2)]
    fails, n = [], 0
    maxsteps = 3 if tier == 'quick' else 4
    for L in range(0, maxsteps + 1):
        for combo in itertools.permutations(range(len(steps)), L):
            n += 1
            hist = [steps[i][0] for i in combo]
            o = proto.clone()
            try:
                for i in combo:
                    steps[i][1](o)
                c = o.clone(cloneValueFlag=True)
                if content(c) != content(o):
                    fails.append(rec('deep clone holds %r, the original %r' % (content(c), content(o)), history=hist,
                                     container='Sequence', op='clone'))
                    continue
                if c.isValue != o.isValue:
                    fails.append(rec('deep clone isValue=%r, the original %r' % (c.isValue, o.isValue), history=hist,
                                     container='Sequence', op='clone'))
                    continue
                for f in finish:
                    f(o)
                    f(c)
                # rows of l that were started are completed as well
                for obj in (o, c):
                    lst = obj._componentValues[2] if len(obj._componentValues) > 2 else univ.noValue
                    if lst is not univ.noValue and lst._componentValues is not univ.noValue:
                        for k in range(len(lst)):
                            lst[k]['a'] = 4
                            lst[k]['b'] = 5
                if content(c) != content(o):
                    fails.append(rec('after completing both the same way the clone holds %r, the original %r' % (
                        content(c), content(o)), history=hist, container='Sequence', op='clone'))
                    continue
                if der(c) != der(o):
                    fails.append(rec('after completing both the same way DER of the clone differs', history=hist,
                                     container='Sequence', op='clone'))
            except error.PyAsn1Error as e:
                fails.append(rec('clone grid: PyAsn1Error %s' % str(e)[:100], history=hist, container='Sequence', op='clone'))
            except Exception as e:
                fails.append(rec('clone grid: %s %s' % (type(e).__name__, str(e)[:100]), history=hist, container='Sequence',
                                 op='clone'))
    return fails, n


def any_collection_clone():
    """a SEQUENCE OF / SET OF whose component type is the scalar ANY accepts constructed values: its deep clone owns its
    members -- changing a member of the clone leaves the original alone, and the other way round"""
    from pyasn1.type import univ, namedtype
    fails, n = [], 0
    rec_t = univ.Sequence(componentType=namedtype.NamedTypes(namedtype.NamedType('a', univ.Integer()),
                                                             namedtype.OptionalNamedType('b', univ.Integer())))
    for cls in (univ.SequenceOf, univ.SetOf):
        for member in ('record', 'collection', 'choice'):
            n += 1
            try:
                if member == 'record':
                    m = rec_t.clone()
                    m['a'] = 1
                    change = lambda x: x.__setitem__('b', 2)
                elif member == 'collection':
                    m = univ.SequenceOf(componentType=univ.Integer())
                    m.extend([1, 2, 3])
                    change = lambda x: x.reverse()
                else:
                    m = univ.Choice(componentType=namedtype.NamedTypes(namedtype.NamedType('i', univ.Integer()),
                                                                       namedtype.NamedType('s', univ.OctetString())))
                    m['i'] = 5
                    change = lambda x: x.__setitem__('s', b'x')
                o = cls(componentType=univ.Any())
                o.append(m)
                before = der(o)
                c = o.clone(cloneValueFlag=True)
                change(c[0])
                if der(o) != before:
                    fails.append(rec('changing a %s member of the deep clone of a %s OF ANY changed the original' % (
                        member, cls.__name__[:-2].upper()), history=['any-collection-clone'], container=cls.__name__, op='clone'))
                    continue
                c2 = o.clone(cloneValueFlag=True)
                before2 = der(c2)
                change(o[0])
                if der(c2) != before2:
                    fails.append(rec('changing a %s member of a %s OF ANY changed its deep clone' % (
                        member, cls.__name__[:-2].upper()), history=['any-collection-clone'], container=cls.__name__, op='clone'))
            except Exception as e:
                fails.append(rec('any-collection clone (%s in %s): %s %s' % (member, cls.__name__, type(e).__name__, str(e)[:100]),
                                 history=['any-collection-clone'], container=cls.__name__, op='clone'))
    return fails, n


def main():
    ap = argparse.ArgumentParser()
    ap.add_argument('checks')
    ap.add_argument('--tier', default='quick')
    ap.add_argument('--seed', type=int, default=0)
    ap.add_argument('--out')
    ap.add_argument('--replay')
    a = ap.parse_args()
    rng = random.Random(a.seed)
    t0 = time.time()
    fails, n = [], 0
    count = 1500 if a.tier == 'quick' else 20000
    length = 5 if a.tier == 'quick' else 6
    for i in range(count):
        ops = seqof_ops(rng, rng.randrange(1, length + 1))
        for f in (lambda: run_seqof(ops, True), lambda: run_seqof(ops, False), lambda: run_record(ops), lambda: run_choice(ops)):
            n += 1
            try:
                r = f()
            except Exception as e:
                import traceback
                r = rec('harness error %s: %s' % (type(e).__name__, e), trace=traceback.format_exc()[-600:], harness_error=True)
            if r:
                fails.append(r)
    f2, n2 = novalue_checks()
    fails += f2
    n += n2
    f4, n4 = any_collection_clone()
    fails += f4
    n += n4
    for grid in (sort_grid, setof_eq_grid, clone_grid):
        f3, n3 = grid(a.tier)
        fails += f3
        n += n3
    if a.replay:
        want = json.loads(a.replay)
        same = [x for x in fails if x['detail'][:60] == want['detail'][:60]] or []
        for x in same[:3]:
            print('REPRODUCED containers: %s after %s' % (x['detail'][:200], x.get('history')))
        if not same:
            print('not reproduced on this tree')
        sys.exit(1 if same else 0)
    res = {'checks': ['containers'], 'evaluations': n, 'distinct_nontrivial': n, 'failures': fails, 'wall_s': time.time() - t0}
    if a.out:
        json.dump(res, open(a.out, 'w'))
    else:
        print({k: v for k, v in res.items() if k != 'failures'})
        import collections
        cn = collections.Counter((f.get('container'), f.get('op'), f['detail'][:110]) for f in fails)
        ex = {}
        for f in fails:
            ex.setdefault((f.get('container'), f.get('op'), f['detail'][:110]), f)
        for k, c in cn.most_common(30):
            print(c, k, ex[k].get('history'))


if __name__ == '__main__':
    main()
