"""Bounded stand-in for C14 (constraints mean what set theory says and cannot be bypassed) -- labelled `bounded`.

    python -m standins.constraint_checks constraint-trees,funnel,derivation --tier quick|thorough --seed N --out f.json
"""
import argparse
import itertools
import json
import random
import sys
import time

INTS = [-3, -1, 0, 1, 2, 3, 4, 5, 7, 9, 10, 11, 12]
STRS = [b'', b'a', b'ab', b'abc', b'abcd', b'aaaa', b'xyz', b'ba']


def rec(check, detail, **kw):
    d = {'check': check, 'T': {'k': 'constraint'}, 'v': None, 'detail': detail, 'features': []}
    d.update(kw)
    return d


# ---- 1. constraint trees against a set evaluator -----------------------------------------------------
def gen_tree(rng, depth, kind):
    """tree as nested tuples, independent of pyasn1"""
    leafs = ['single', 'range'] if kind == 'int' else ['single', 'size', 'alphabet']
    if depth == 0 or rng.random() < 0.35:
        k = rng.choice(leafs)
        if k == 'single':
            pool = INTS if kind == 'int' else STRS
            return ('single', tuple(rng.sample(pool, rng.randrange(1, 4))))
        if k == 'range':
            a, b = sorted(rng.sample(INTS, 2))
            return ('range', a, b)
        if k == 'size':
            a = rng.randrange(0, 4)
            return ('size', a, a + rng.randrange(0, 3))
        return ('alphabet', tuple(rng.sample([97, 98, 99, 120, 121, 122], rng.randrange(1, 5))))
    op = rng.choice(['and', 'or', 'not', 'and', 'or'])
    n = rng.randrange(0, 4) if op != 'not' else rng.randrange(1, 3)
    return (op,) + tuple(gen_tree(rng, depth - 1, kind) for _ in range(n))


def denote(t, v):
    """set-theoretic denotation"""
    k = t[0]
    if k == 'single':
        return v in t[1]
    if k == 'range':
        return t[1] <= v <= t[2]
    if k == 'size':
        return t[1] <= len(v) <= t[2]
    if k == 'alphabet':
        return set(v) <= set(t[1])
    if k == 'and':
        return all(denote(c, v) for c in t[1:])
    if k == 'or':
        return any(denote(c, v) for c in t[1:])
    if k == 'not':            # ConstraintsExclusion(c1..cn): values outside every ci
        return not any(denote(c, v) for c in t[1:])
    raise ValueError(k)


def build(t):
    from pyasn1.type import constraint as C
    k = t[0]
    if k == 'single':
        return C.SingleValueConstraint(*t[1])
    if k == 'range':
        return C.ValueRangeConstraint(t[1], t[2])
    if k == 'size':
        return C.ValueSizeConstraint(t[1], t[2])
    if k == 'alphabet':
        return C.PermittedAlphabetConstraint(*t[1])
    kids = [build(c) for c in t[1:]]
    return {'and': C.ConstraintsIntersection, 'or': C.ConstraintsUnion, 'not': C.ConstraintsExclusion}[k](*kids)


def has_empty_union(t):
    if t[0] == 'or' and len(t) == 1:
        return True
    return any(has_empty_union(c) for c in t[1:] if isinstance(c, tuple) and c and isinstance(c[0], str)
               and c[0] in ('and', 'or', 'not'))


def chk_trees(rng, count, depth):
    from pyasn1.type import error
    fails, n, distinct = [], 0, set()
    for i in range(count):
        kind = 'int' if i % 2 == 0 else 'str'
        t = gen_tree(rng, depth, kind)
        distinct.add(repr(t))
        try:
            c = build(t)
        except Exception as e:
            fails.append(rec('constraint-trees', 'building %r raised %s: %s' % (t, type(e).__name__, e), tree=repr(t)))
            continue
        for v in (INTS if kind == 'int' else STRS):
            n += 1
            want = denote(t, v)
            try:
                c(v)
                got = True
            except error.ValueConstraintError:
                got = False
            except Exception as e:
                fails.append(rec('constraint-trees', 'evaluating %r on %r raised %s: %s' % (t, v, type(e).__name__, e),
                                 tree=repr(t), empty_union=has_empty_union(t)))
                continue
            if got != want:
                fails.append(rec('constraint-trees', 'constraint %r %s %r but the value is %s its denotation' % (
                    t, 'admits' if got else 'rejects', v, 'outside' if got else 'inside'), tree=repr(t), value=repr(v),
                    empty_union=has_empty_union(t)))
    # operands and candidates beyond the interpreter's decimal-conversion limit (sys.set_int_max_str_digits): deciding must not
    # depend on being able to print them
    HUGE = 1 << 20000

    def show(x):
        if isinstance(x, tuple):
            return '(%s)' % ', '.join(show(y) for y in x)
        if not isinstance(x, int) or abs(x) < 10 ** 20:
            return '%s' % (x,)
        return '%s2**%d%+d' % ('-' if x < 0 else '', 20000, abs(x) - HUGE)
    for t in (('or', ('range', 0, HUGE), ('single', (-1,))), ('and', ('range', -HUGE, HUGE), ('range', -5, HUGE + 5)),
              ('not', ('single', (HUGE,))), ('or', ('single', (HUGE, -HUGE)), ('range', 3, 4)), ('range', HUGE, HUGE + 1)):
        try:
            c = build(t)
        except Exception as e:
            fails.append(rec('constraint-trees', 'building %s raised %s' % (show(t), type(e).__name__), tree=show(t)))
            continue
        for v in (-1, -2, 0, 3, HUGE - 1, HUGE, HUGE + 1, HUGE + 2, -HUGE, -HUGE - 1):
            n += 1
            want = denote(t, v)
            try:
                c(v)
                got = True
            except error.ValueConstraintError:
                got = False
            except Exception as e:
                fails.append(rec('constraint-trees', 'evaluating %s on %s raised %s' % (show(t), show(v), type(e).__name__),
                                 tree=show(t), empty_union=False))
                continue
            if got != want:
                fails.append(rec('constraint-trees', 'constraint %s %s %s but the value is %s its denotation' % (
                    show(t), 'admits' if got else 'rejects', show(v), 'outside' if got else 'inside'), tree=show(t),
                    empty_union=False))
    return fails, n, len(distinct)


# ---- 2. no public way of producing a scalar yields a value its constraints reject --------------------------
def chk_funnel(rng):
    from pyasn1.type import univ, constraint as C, error, char
    from pyasn1 import error as perror
    fails, n = [], 0
    for lo, hi in ((0, 10), (-3, 3), (5, 5)):
        T = univ.Integer().subtype(subtypeSpec=C.ValueRangeConstraint(lo, hi))
        ok_vals = [v for v in INTS if lo <= v <= hi]
        ops = {
            'add': lambda a, b: a + b, 'radd': lambda a, b: b + a, 'sub': lambda a, b: a - b, 'rsub': lambda a, b: b - a,
            'mul': lambda a, b: a * b, 'floordiv': lambda a, b: a // b if b else a, 'mod': lambda a, b: a % b if b else a,
            'pow': lambda a, b: a ** abs(b) if abs(b) < 4 else a, 'lshift': lambda a, b: a << abs(b) % 4,
            'rshift': lambda a, b: a >> abs(b) % 4, 'and': lambda a, b: a & b, 'or': lambda a, b: a | b,
            'xor': lambda a, b: a ^ b, 'neg': lambda a, b: -a, 'abs': lambda a, b: abs(a), 'invert': lambda a, b: ~a,
            'clone': lambda a, b: a.clone(b), 'subtype': lambda a, b: a.subtype(value=b),
            'construct': lambda a, b: a.__class__(b, subtypeSpec=a.subtypeSpec), 'pos': lambda a, b: +a,
            'subtype-narrow': lambda a, b: a.subtype(subtypeSpec=C.ValueRangeConstraint(b, b + 2)),
            'clone-narrow': lambda a, b: a.clone(subtypeSpec=C.ValueRangeConstraint(b, b + 2)),
            'subtype-narrow-tagged': lambda a, b: a.subtype(subtypeSpec=C.SingleValueConstraint(b), implicitTag=__import__('pyasn1.type.tag', fromlist=['Tag']).Tag(128, 0, 1)),
        }
        for a in ok_vals:
            x = T.clone(a)
            for name, f in ops.items():
                for b in INTS:
                    n += 1
                    try:
                        r = f(x, b)
                    except (perror.PyAsn1Error, ZeroDivisionError, OverflowError):
                        continue
                    except Exception as e:
                        fails.append(rec('funnel', 'Integer[%d..%d](%d) %s %d raised %s' % (lo, hi, a, name, b,
                                                                                          type(e).__name__)))
                        continue
                    if isinstance(r, univ.Integer) and r.isValue and r.subtypeSpec == T.subtypeSpec \
                            and not (lo <= int(r) <= hi):
                        fails.append(rec('funnel', 'Integer[%d..%d](%d) %s %d = %r violates its own constraint' % (
                            lo, hi, a, name, b, int(r))))
                    if isinstance(r, univ.Integer) and r.isValue:
                        try:
                            r.subtypeSpec(int(r))
                        except error.ValueConstraintError:
                            fails.append(rec('funnel', 'Integer[%d..%d](%d) %s %d yields the value %r which its own '
                                                       'subtypeSpec rejects' % (lo, hi, a, name, b, int(r))))
    S = univ.OctetString().subtype(subtypeSpec=C.ConstraintsIntersection(C.ValueSizeConstraint(1, 3),
                                                                        C.PermittedAlphabetConstraint(*b'abc')))
    sops = {'add': lambda a, b: a + b, 'radd': lambda a, b: b + a, 'mul': lambda a, b: a * 2, 'rmul': lambda a, b: 3 * a,
            'slice': lambda a, b: a[0:0], 'slice2': lambda a, b: a[1:], 'clone': lambda a, b: a.clone(b),
            'subtype': lambda a, b: a.subtype(value=b)}
    for a in (b'a', b'ab', b'abc', b'cb'):
        x = S.clone(a)
        for name, f in sops.items():
            for b in STRS:
                n += 1
                try:
                    r = f(x, b)
                except (perror.PyAsn1Error,):
                    continue
                except Exception as e:
                    fails.append(rec('funnel', 'OctetString %r %s %r raised %s: %s' % (a, name, b, type(e).__name__, e)))
                    continue
                if isinstance(r, univ.OctetString) and r.isValue and r.subtypeSpec == S.subtypeSpec:
                    v = bytes(r)
                    if not (1 <= len(v) <= 3 and set(v) <= set(b'abc')):
                        fails.append(rec('funnel', 'OctetString(SIZE(1..3), FROM("abc")) %r %s %r = %r violates its own '
                                                   'constraint' % (a, name, b, v)))
    # construction from a class-level default: a value like any other
    for dv, ok in ((10, False), (3, True), (0, False), (5, True)):
        n += 1
        cls = type('WithDefault', (univ.Integer,), {'defaultValue': dv, 'subtypeSpec': C.ValueRangeConstraint(1, 5)})
        try:
            r = cls()
            produced = True
        except perror.PyAsn1Error:
            produced = False
        if produced != ok or (produced and (not r.isValue or int(r) != dv)):
            fails.append(rec('funnel', 'INTEGER (1..5) subclass with defaultValue = %d, constructed without a value: %s' % (
                dv, 'yields %r' % (int(r),) if produced else 'is refused')))
    n += 1
    r = type('TextDefault', (univ.OctetString,), {'defaultValue': 'ab'})()
    if not isinstance(r._value, bytes) or bytes(r) != b'ab':
        fails.append(rec('funnel', 'OCTET STRING subclass with defaultValue = "ab" holds %r' % (r._value,)))
    # REAL with a value range: values inside are admitted, values outside refused (library error)
    for lo, hi in ((0, 10), (-1.5, 2.5)):
        for x in (lo, hi, (lo + hi) / 2.0, lo - 1, hi + 1, 0.0, 1.25):
            n += 1
            try:
                univ.Real(x, subtypeSpec=C.ValueRangeConstraint(lo, hi))
                got = True
            except perror.PyAsn1Error:
                got = False
            except Exception as e:
                fails.append(rec('funnel', 'REAL (%s..%s): constructing %r raised %s: %s' % (lo, hi, x, type(e).__name__, e),
                                 real_constraint=True))
                continue
            if got != (lo <= x <= hi):
                fails.append(rec('funnel', 'REAL (%s..%s) %s %r' % (lo, hi, 'admits' if got else 'refuses', x),
                                 real_constraint=True))
    # BIT STRING: every operator against a python string of '0'/'1' -- the result is the model's result when the model's
    # result satisfies SIZE, and a refusal (library error) otherwise; leading zero bits count
    for lo, hi in ((0, 8), (4, 4), (1, 12)):
        B = univ.BitString().subtype(subtypeSpec=C.ValueSizeConstraint(lo, hi))
        bops = {'add': lambda a, b, k: (a + b, None), 'radd': lambda a, b, k: (b + a, None), 'mul': lambda a, b, k: (a * k, None),
                'rmul': lambda a, b, k: (a * k, 'r'), 'lshift': lambda a, b, k: (a + '0' * k, None),
                'rshift': lambda a, b, k: (a[:max(0, len(a) - k)], None), 'slice': lambda a, b, k: (a[k:], None),
                'slice2': lambda a, b, k: (a[:k], None), 'clone': lambda a, b, k: (b, None)}
        real = {'add': lambda x, b, k: x + b, 'radd': lambda x, b, k: b + x, 'mul': lambda x, b, k: x * k, 'rmul': lambda x, b, k: k * x,
                'lshift': lambda x, b, k: x << k, 'rshift': lambda x, b, k: x >> k,
                'slice': lambda x, b, k: x[k:], 'slice2': lambda x, b, k: x[:k], 'clone': lambda x, b, k: x.clone(b)}
        strs = ['', '0', '1', '0011', '1000', '00000000', '010', '111111111']
        for a in strs:
            if not lo <= len(a) <= hi:
                continue
            x = B.clone(a)
            # comparison is of bit strings, not of numbers: leading zero bits count, and != is the negation of ==
            for b in strs + ['011', '00011', '10']:
                n += 1
                try:
                    eq, ne = (x == univ.BitString(b)), (x != univ.BitString(b))
                except Exception as e:
                    fails.append(rec('funnel', 'BitString %r compared with %r raised %s' % (a, b, type(e).__name__)))
                    continue
                if eq != (a == b) or ne != (a != b):
                    fails.append(rec('funnel', 'BitString %r == %r is %r, != is %r (the strings are %s)' % (
                        a, b, eq, ne, 'equal' if a == b else 'different')))
            for name in bops:
                for b in strs[:6]:
                    for k in (0, 1, 2, 3):
                        n += 1
                        want = bops[name](a, b, k)[0]
                        try:
                            r = real[name](x, b, k)
                            got = r.asBinary()
                        except perror.PyAsn1Error:
                            got = None
                        except Exception as e:
                            fails.append(rec('funnel', 'BitString(SIZE(%d..%d)) %r %s (%r, %d) raised %s: %s' % (
                                lo, hi, a, name, b, k, type(e).__name__, e)))
                            continue
                        expect = want if lo <= len(want) <= hi else None
                        if got != expect:
                            fails.append(rec('funnel', 'BitString(SIZE(%d..%d)) %r %s (%r, %d) gives %s, the string model %s' % (
                                lo, hi, a, name, b, k, 'a refusal' if got is None else repr(got),
                                'is refused by SIZE' if expect is None else 'gives %r' % expect)))
    return fails, n


# ---- 3. derivation: subtypes admit subsets and are recognised by their parents --------------------------------
def chk_derivation(rng):
    from pyasn1.type import univ, constraint as C, namedtype, tag, error, char
    from pyasn1 import error as perror
    from pyasn1.codec.der import encoder as de
    fails, n = [], 0
    T0 = univ.Integer()
    chains = [
        [C.ValueRangeConstraint(0, 10)], [C.ValueRangeConstraint(0, 10), C.ValueRangeConstraint(2, 5)],
        [C.SingleValueConstraint(1, 2, 3), C.ValueRangeConstraint(2, 9)],
        [C.ConstraintsUnion(C.ValueRangeConstraint(0, 3), C.SingleValueConstraint(7))],
        [C.ValueRangeConstraint(0, 7), C.SingleValueConstraint(0, 7)],
        # derivation that starts from a union / an exclusion: the next constraint is intersected with it, not added to it
        [C.ConstraintsUnion(C.ValueRangeConstraint(0, 5), C.ValueRangeConstraint(10, 12)), C.ValueRangeConstraint(3, 11)],
        [C.ConstraintsIntersection(C.ValueRangeConstraint(0, 9)), C.ConstraintsUnion(C.SingleValueConstraint(2), C.SingleValueConstraint(30))],
        [C.ConstraintsExclusion(C.SingleValueConstraint(4)), C.ValueRangeConstraint(2, 6)],
        [C.SingleValueConstraint(2, 9), C.ValueRangeConstraint(2, 9)],
        # a later constraint that equals an *alternative* of a union further up (the union's alternatives are listed in the
        # bookkeeping of every set that holds the union), and one that equals an operand already there
        [C.ConstraintsUnion(C.ValueRangeConstraint(1, 5), C.ValueRangeConstraint(10, 20)), C.ValueRangeConstraint(0, 15),
         C.ValueRangeConstraint(1, 5)],
        [C.ConstraintsUnion(C.SingleValueConstraint(1, 2), C.SingleValueConstraint(8, 9)), C.ValueRangeConstraint(0, 8),
         C.SingleValueConstraint(8, 9)],
        [C.ValueRangeConstraint(0, 10), C.ValueRangeConstraint(2, 5), C.ValueRangeConstraint(0, 10)],
        # longer chains: every ancestor is a supertype, not only the parent
        [C.ValueRangeConstraint(0, 100), C.ValueRangeConstraint(10, 50), C.SingleValueConstraint(20, 30),
         C.SingleValueConstraint(20)],
        [C.ValueRangeConstraint(-3, 12), C.ContainedSubtypeConstraint(C.SingleValueConstraint(1, 2, 3, 6), 9, 18),
         C.ValueRangeConstraint(2, 9)],
    ]
    # a type constructed directly with a union as its subtypeSpec, then derived: the derived type admits no more than it
    for first in (C.ConstraintsUnion(C.SingleValueConstraint(1)), C.ConstraintsUnion(C.ValueRangeConstraint(0, 3),
                                                                                      C.SingleValueConstraint(7))):
        n += 1
        P0 = univ.Integer(subtypeSpec=first)
        D0 = P0.subtype(subtypeSpec=C.SingleValueConstraint(2, 7))
        for v in INTS:
            pa = da = True
            try:
                P0.clone(v)
            except perror.PyAsn1Error:
                pa = False
            try:
                D0.clone(v)
            except perror.PyAsn1Error:
                da = False
            if da and not pa:
                fails.append(rec('derivation', 'type derived from a union-constrained type admits %d, its parent does not' % v,
                                 kind='subset'))
    # types whose constraints have the same operands but are of different kinds are different types
    n += 1
    A1, B1 = univ.Integer(subtypeSpec=C.SingleValueConstraint(1, 5)), univ.Integer(subtypeSpec=C.ValueRangeConstraint(1, 5))
    try:
        if A1.isSameTypeWith(B1) or A1.isSuperTypeOf(B1):
            fails.append(rec('derivation', 'INTEGER (1 | 5) takes INTEGER (1..5) for the same type / a subtype: the value 3 '
                                           'could be assigned to it', kind='kinds'))
    except Exception as e:
        fails.append(rec('derivation', 'comparing (1 | 5) with (1..5) raised %s' % type(e).__name__, kind='kinds'))
    # ... also when one kind is a subclass of the other in the implementation (FROM is a kind of single-value list, SIZE a kind
    # of range): IA5String ("T" | "F") does not take IA5String (FROM ("T" | "F")) -- which admits "TFT" -- for a subtype
    for pa, pb, what in ((C.SingleValueConstraint('T', 'F'), C.PermittedAlphabetConstraint('T', 'F'), '("T"|"F") vs FROM("T"|"F")'),
                         (C.ValueRangeConstraint(1, 3), C.ValueSizeConstraint(1, 3), '(1..3) vs SIZE(1..3)')):
        for x, y in ((pa, pb), (pb, pa)):
            n += 1
            try:
                X1, Y1 = char.IA5String(subtypeSpec=x), char.IA5String(subtypeSpec=y)
                if x == y or not (x != y) or X1.isSameTypeWith(Y1) or X1.isSuperTypeOf(Y1):
                    fails.append(rec('derivation', 'constraints of different kinds with the same operands are taken for equal / '
                                                   'for a subtype: %s (%s first)' % (what, x.__class__.__name__), kind='kinds'))
            except Exception as e:
                fails.append(rec('derivation', 'comparing %s raised %s' % (what, type(e).__name__), kind='kinds'))
    # value-list algebra: A + B is the union, A - B the difference (also when B reaches outside A)
    import itertools as _it
    pool = (1, 2, 3, 4)
    subsets = [c for r in range(0, 4) for c in _it.combinations(pool, r)]
    for a_ in subsets:
        for b_ in subsets:
            if not a_ or not b_:
                continue
            n += 1
            try:
                ca, cb = C.SingleValueConstraint(*a_), C.SingleValueConstraint(*b_)
                for opname, cc, want in (('+', ca + cb, set(a_) | set(b_)), ('-', ca - cb, set(a_) - set(b_))):
                    if not want:
                        continue        # the empty value list: recorded finding (admits everything)
                    got = set()
                    for v in pool + (0, 5):
                        try:
                            cc(v)
                            got.add(v)
                        except perror.PyAsn1Error:
                            pass
                    if got != want:
                        fails.append(rec('derivation', 'SingleValueConstraint%r %s SingleValueConstraint%r admits %r, the set '
                                                       'operation gives %r' % (a_, opname, b_, sorted(got), sorted(want)), kind='algebra'))
            except Exception as e:
                fails.append(rec('derivation', 'value-list algebra %r, %r raised %s: %s' % (a_, b_, type(e).__name__, str(e)[:80]),
                                 kind='algebra'))
    # an operand of a union is a subset of the union, not a superset
    n += 1
    a5 = C.SingleValueConstraint(5)
    u5 = C.ConstraintsUnion(a5, C.ValueRangeConstraint(1, 3))
    if a5.isSuperTypeOf(u5) or not u5.isSuperTypeOf(a5) and False:
        fails.append(rec('derivation', 'SingleValueConstraint(5).isSuperTypeOf(ConstraintsUnion(that, 1..3)) is True: the union '
                                       'admits 2, which (5) does not', kind='union-bookkeeping'))
    # WITH COMPONENTS { id PRESENT, name ABSENT }: presence is about members being set -- whatever their value (0, FALSE and
    # the empty string are values) and whether or not an unset member has been read before
    class Item(univ.Sequence):
        componentType = namedtype.NamedTypes(namedtype.OptionalNamedType('id', univ.Integer()),
                                             namedtype.OptionalNamedType('name', univ.OctetString()),
                                             namedtype.OptionalNamedType('flag', univ.Boolean()))
        subtypeSpec = C.WithComponentsConstraint(('id', C.ComponentPresentConstraint()), ('name', C.ComponentAbsentConstraint()),
                                                 ('flag', C.ComponentAbsentConstraint()))
    for idv in (None, 0, 5):
        for namev in (None, b'', b'x'):
            for flagv in (None, False):
                for read_first in (False, True):
                    n += 1
                    it = Item()
                    if idv is None and namev is None and flagv is None:
                        it.clear()
                    if idv is not None:
                        it['id'] = idv
                    if namev is not None:
                        it['name'] = namev
                    if flagv is not None:
                        it['flag'] = flagv
                    if read_first:
                        try:
                            it['id'], it['name'], it['flag'], list(it.values())
                        except Exception:
                            pass
                    want_ok = idv is not None and namev is None and flagv is None
                    try:
                        de.encode(it)
                        got_ok = True
                    except perror.PyAsn1Error:
                        got_ok = False
                    if got_ok != want_ok:
                        fails.append(rec('derivation', 'WITH COMPONENTS {id PRESENT, name ABSENT, flag ABSENT}: value with id=%r name=%r '
                                                       'flag=%r%s is %s by the encoder' % (idv, namev, flagv, ' (members read before)' if
                                                                                           read_first else '',
                                                                                           'accepted' if got_ok else 'refused'),
                                         kind='with-components'))
    # the legacy sizeSpec argument adds to the subtypeSpec
    n += 1
    ss = univ.SequenceOf(componentType=univ.Integer(), subtypeSpec=C.ConstraintsIntersection(C.ValueSizeConstraint(0, 1)),
                         sizeSpec=C.ValueSizeConstraint(0, 5))
    ss.extend([1, 2, 3])
    if not ss.isInconsistent:
        fails.append(rec('derivation', 'SequenceOf(subtypeSpec=SIZE(0..1), sizeSpec=SIZE(0..5)) holds 3 elements without '
                                       'being inconsistent', kind='sizeSpec'))
    for chain in chains:
        for tagged in (False, True):
            types = [T0]
            for c in chain:
                t = types[-1].subtype(subtypeSpec=c)
                types.append(t)
            if tagged:
                ctx = tag.Tag(tag.tagClassContext, tag.tagFormatSimple, 3)
                types = [t.subtype(implicitTag=ctx) for t in types]
            for i in range(len(types) - 1):
                parent, child = types[i], types[i + 1]
                desc = 'chain %r%s level %d' % ([type(c).__name__ for c in chain], ' tagged' if tagged else '', i)
                n += 1
                try:
                    rel = parent.isSuperTypeOf(child)
                except Exception as e:
                    rel = 'raised %s' % type(e).__name__
                if rel is not True:
                    fails.append(rec('derivation', 'parent.isSuperTypeOf(child) is %r for %s' % (rel, desc), kind='isSuperTypeOf'))
                # the same relation asked from the child's side, on the constraint objects (both directions)
                for a_, b_, what in ((child, parent, 'child/parent'), (parent, child, 'parent/child')):
                    n += 1
                    sub = a_.subtypeSpec.isSubTypeOf(b_.subtypeSpec)
                    sup = b_.subtypeSpec.isSuperTypeOf(a_.subtypeSpec)
                    if bool(sub) != bool(sup):
                        fails.append(rec('derivation', 'isSubTypeOf disagrees with isSuperTypeOf (%s): %r vs %r for %s' % (
                            what, sub, sup, desc), kind='isSubTypeOf'))
                for j in range(i):
                    n += 1
                    try:
                        rel = types[j].isSuperTypeOf(child)
                    except Exception as e:
                        rel = 'raised %s' % type(e).__name__
                    if rel is not True:
                        fails.append(rec('derivation', 'ancestor %d .isSuperTypeOf(descendant %d) is %r for %s' % (
                            j, i + 1, rel, desc), kind='isSuperTypeOf'))
                # subset of admitted values
                for v in INTS:
                    n += 1
                    def admits(t, v):
                        try:
                            t.clone(v)
                            return True
                        except perror.PyAsn1Error:
                            return False
                    if admits(child, v) and not admits(parent, v):
                        fails.append(rec('derivation', 'child admits %d but parent does not (%s)' % (v, desc), kind='subset'))
                    # the derived type admits exactly the values every constraint of the chain so far admits
                    want = True
                    for c in chain[:i + 1]:
                        try:
                            c(v)
                        except perror.PyAsn1Error:
                            want = False
                    if admits(child, v) != want:
                        fails.append(rec('derivation', 'derived type %s %d but the conjunction of its constraints says %s (%s)'
                                         % ('admits' if admits(child, v) else 'rejects', v, want, desc), kind='conjunction'))
                # a value of the child can be assigned where the parent is expected
                n += 1
                okv = [v for v in INTS if admits(child, v)]
                if okv:
                    seq = univ.Sequence(componentType=namedtype.NamedTypes(namedtype.NamedType('f', parent)))
                    try:
                        seq.setComponentByName('f', child.clone(okv[0]))
                        de.encode(seq)
                    except Exception as e:
                        fails.append(rec('derivation', 'assigning a child value to a field of the parent type raised %s '
                                                       '(%s)' % (type(e).__name__, desc), kind='assign'))
    # encoders refuse constructed values that violate their constraints
    so = univ.SequenceOf(componentType=univ.Integer()).subtype(subtypeSpec=C.ValueSizeConstraint(1, 2))
    for k in (0, 1, 2, 3):
        n += 1
        v = so.clone()
        for i in range(k):
            v.append(i)
        if k == 0:
            v.clear()
        try:
            de.encode(v)
            accepted = True
        except perror.PyAsn1Error:
            accepted = False
        if accepted != (1 <= k <= 2):
            fails.append(rec('derivation', 'SEQUENCE OF SIZE(1..2) with %d elements is %s by the DER encoder' % (
                k, 'accepted' if accepted else 'refused'), kind='encode-constructed'))
    for k in (0, 1, 3):
        n += 1
        so2 = univ.SequenceOf(componentType=univ.Integer(), subtypeSpec=C.ValueSizeConstraint(1, 2))
        so3 = univ.SequenceOf(componentType=univ.Integer(), sizeSpec=C.ValueSizeConstraint(1, 2),
                              subtypeSpec=C.ConstraintsIntersection())
        for nm, proto in (('subtypeSpec', so2), ('sizeSpec', so3)):
            v = proto.clone()
            v.clear()
            for i in range(k):
                v.append(i)
            try:
                de.encode(v)
                accepted = True
            except perror.PyAsn1Error:
                accepted = False
            if accepted != (1 <= k <= 2):
                fails.append(rec('derivation', 'SequenceOf(%s=SIZE(1..2)) with %d elements is %s' % (
                    nm, k, 'accepted' if accepted else 'refused'), kind='encode-constructed'))
    # documented usage: a bare constraint declared at class level; subtyping it narrows, whatever the constraint class
    class DivisorOfSix(univ.Integer):
        subtypeSpec = C.SingleValueConstraint(1, 2, 3, 6)

    class TeenAgeYears(univ.Integer):
        subtypeSpec = C.ValueRangeConstraint(13, 19)
    for base_t, extra, lo_hi in ((DivisorOfSix(), C.SingleValueConstraint(2, 3, 7), None),
                                 (DivisorOfSix(), C.ValueRangeConstraint(2, 7), None),
                                 (TeenAgeYears(), C.ValueRangeConstraint(15, 25), None),
                                 (TeenAgeYears(), C.SingleValueConstraint(12, 14), None)):
        n += 1
        try:
            derived = base_t.subtype(subtypeSpec=extra)
        except Exception as e:
            fails.append(rec('derivation', '%s().subtype(subtypeSpec=%r) raised %s' % (type(base_t).__name__, extra, type(e).__name__),
                             kind='bare-class-level'))
            continue
        for v in range(0, 30):
            n += 1
            def admits_(t, v):
                try:
                    t.clone(v)
                    return True
                except perror.PyAsn1Error:
                    return False
            def in_(c, v):
                try:
                    c(v)
                    return True
                except perror.PyAsn1Error:
                    return False
            want = in_(type(base_t).subtypeSpec, v) and in_(extra, v)
            if admits_(derived, v) != want:
                fails.append(rec('derivation', '%s().subtype(subtypeSpec=%r) %s %d' % (
                    type(base_t).__name__, extra, 'admits' if not want else 'refuses', v), kind='bare-class-level'))
        n += 1
        if base_t.isSuperTypeOf(derived) is not True:
            fails.append(rec('derivation', '%s() does not recognise its subtype %r' % (type(base_t).__name__, extra),
                             kind='bare-class-level'))
    # the two switches of the subtype test are independent: skipping the tag match must not skip the constraint match
    P = univ.Integer().subtype(subtypeSpec=C.ValueRangeConstraint(1, 5))
    Ptagged = P.subtype(implicitTag=__import__('pyasn1.type.tag', fromlist=['Tag']).Tag(128, 0, 3))
    for val, in_range in ((univ.Integer(3), False), (univ.Integer(99), False), (P.clone(3), True)):
        for mt in (True, False):
            for mc in (True, False):
                n += 1
                tags_ok = True            # all candidates carry the parent's tags
                want = (not mc) or in_range
                got = P.isSuperTypeOf(val, mt, mc)
                if bool(got) != want:
                    fails.append(rec('derivation', 'INTEGER (1..5).isSuperTypeOf(%r, matchTags=%s, matchConstraints=%s) is %s' % (
                        val, mt, mc, got), kind='subtype-switches'))
                got2 = Ptagged.isSuperTypeOf(val, mt, mc)
                want2 = ((not mt) or False) and want
                n += 1
                if bool(got2) != want2:
                    fails.append(rec('derivation', '[3] INTEGER (1..5).isSuperTypeOf(%r, matchTags=%s, matchConstraints=%s) is %s' % (
                        val, mt, mc, got2), kind='subtype-switches'))
    for mt in (True, False):
        n += 1
        so = univ.SequenceOf(componentType=P)
        try:
            so.setComponentByPosition(0, univ.Integer(99), matchTags=mt)
            accepted = True
        except perror.PyAsn1Error:
            accepted = False
        if accepted:
            fails.append(rec('derivation', 'SEQUENCE OF INTEGER (1..5) accepts Integer(99) with matchTags=%s' % mt,
                             kind='subtype-switches'))
    # ... also for collections declared without a component type (members given as value objects), by every encoder
    from pyasn1.codec.ber import encoder as be_
    from pyasn1.codec.cer import encoder as ce_
    from pyasn1.codec.native import encoder as ne_
    for cls in (univ.SequenceOf, univ.SetOf):
        for k in (0, 1, 2, 3):
            v = cls(subtypeSpec=C.ValueSizeConstraint(1, 2))
            v.clear()
            for i in range(k):
                v.append(univ.Integer(i))
            for ename, enc in (('BER', be_), ('CER', ce_), ('DER', de), ('native', ne_)):
                n += 1
                try:
                    enc.encode(v)
                    accepted = True
                except perror.PyAsn1Error:
                    accepted = False
                if accepted != (1 <= k <= 2):
                    fails.append(rec('derivation', 'untyped %s SIZE(1..2) with %d elements is %s by the %s encoder' % (
                        cls.__name__, k, 'accepted' if accepted else 'refused', ename), kind='encode-constructed'))
    # ... records declared without components (members by position, names made up), and a CHOICE with a forbidden alternative
    for cls in (univ.Sequence, univ.Set):
        for k in (0, 1, 2, 3):
            v = cls(subtypeSpec=C.ValueSizeConstraint(1, 2))
            if k == 0:
                v.clear()
            for i in range(k):
                v.setComponentByPosition(i, (univ.Integer(i), univ.OctetString(b'x'), univ.Boolean(True))[i])
            for ename, enc in (('BER', be_), ('CER', ce_), ('DER', de), ('native', ne_)):
                n += 1
                try:
                    enc.encode(v)
                    accepted = True
                except perror.PyAsn1Error:
                    accepted = False
                if accepted != (1 <= k <= 2):
                    fails.append(rec('derivation', 'untyped %s SIZE(1..2) with %d components is %s by the %s encoder' % (
                        cls.__name__, k, 'accepted' if accepted else 'refused', ename), kind='encode-constructed'))
    CH = univ.Choice(componentType=namedtype.NamedTypes(namedtype.NamedType('a', univ.Integer()), namedtype.NamedType('b', univ.Boolean())),
                     subtypeSpec=C.WithComponentsConstraint(('a', C.ComponentAbsentConstraint())))
    for name, val, ok in (('a', 5, False), ('b', True, True)):
        c = CH.clone()
        c[name] = val
        for ename, enc in (('BER', be_), ('CER', ce_), ('DER', de), ('native', ne_)):
            n += 1
            try:
                enc.encode(c)
                accepted = True
            except perror.PyAsn1Error:
                accepted = False
            if accepted != ok:
                fails.append(rec('derivation', 'CHOICE (WITH COMPONENTS {a ABSENT}) holding %s is %s by the %s encoder' % (
                    name, 'accepted' if accepted else 'refused', ename), kind='encode-constructed'))
    return fails, n


def main():
    ap = argparse.ArgumentParser()
    ap.add_argument('checks')
    ap.add_argument('--tier', default='quick')
    ap.add_argument('--seed', type=int, default=0)
    ap.add_argument('--out')
    ap.add_argument('--replay')
    a = ap.parse_args()
    names = a.checks.split(',')
    rng = random.Random(a.seed)
    t0 = time.time()
    fails, evals, distinct = [], 0, 0
    if a.replay:
        names = [json.loads(a.replay)['check']]
    if 'constraint-trees' in names:
        f, n, d = chk_trees(rng, 600 if a.tier == 'quick' else 6000, 3 if a.tier == 'quick' else 4)
        fails += f
        evals += n
        distinct += d
    if 'funnel' in names:
        f, n = chk_funnel(rng)
        fails += f
        evals += n
        distinct += n
    if 'derivation' in names:
        f, n = chk_derivation(rng)
        fails += f
        evals += n
        distinct += n
    if a.replay:
        want = json.loads(a.replay)['detail'][:60]
        same = [x for x in fails if x['detail'][:60] == want] or fails
        for x in same[:3]:
            print('REPRODUCED %s: %s' % (x['check'], x['detail'][:300]))
        if not same:
            print('not reproduced on this tree')
        sys.exit(1 if same else 0)
    res = {'checks': names, 'evaluations': evals, 'distinct_nontrivial': distinct, 'failures': fails,
           'wall_s': time.time() - t0}
    if a.out:
        json.dump(res, open(a.out, 'w'))
    else:
        print({k: v for k, v in res.items() if k != 'failures'})
        import collections
        cn = collections.Counter((f['check'], f.get('kind'), f.get('empty_union'), f['detail'][:110]) for f in fails)
        for k, c in cn.most_common(25):
            print(c, k)


if __name__ == '__main__':
    main()
