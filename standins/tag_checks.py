"""Bounded stand-in for C13 (tags on the wire are exactly the type's tags) -- labelled `bounded`.

    python -m standins.tag_checks tag-stacks --tier quick|thorough --seed N --out file.json
"""
import argparse
import itertools
import json
import random
import sys
import time

from spec import x690
from spec import universe as U
from standins.codec_checks import fail, _imports, unjson, unjson_value

CLASSES = (64, 128, 192)
NUMBERS = (0, 1, 30, 31, 127, 128, 16383, 16384, 2 ** 32)
BASES = [(U.T('INTEGER'), 5), (U.T('OCTETSTRING'), b'ab'), (U.T('SEQUENCE', fields=[('a', U.T('INTEGER'), 'req')]), {'a': 1}),
         (U.T('NULL'), None), (U.T('SEQUENCEOF', elem=U.T('BOOLEAN')), [True]), (U.T('BITSTRING'), '101'),
         (U.T('BITSTRING'), '1011001110001111'), (U.T('ENUMERATED'), 1)]
SEGMENT_TAG = {'OCTETSTRING': 4, 'BITSTRING': 3}


def stacks(depth, rng, limit):
    tags = [(m, c, n) for m in 'IE' for c in CLASSES for n in NUMBERS]
    out = [[]]
    for d in range(1, depth + 1):
        combos = list(itertools.product(tags, repeat=d)) if len(tags) ** d <= limit else \
            [tuple(rng.choice(tags) for _ in range(d)) for _ in range(limit)]
        out += [list(c) for c in combos]
    return out


def wire_idents(b):
    """identifier octets (cls, pc, num) from outermost to innermost by descending into constructed wrappers"""
    out = []
    p, end = 0, len(b)
    return out


def check_one(base, v, ts, M):
    be, bd, ce, cd, de, dd, error, bridge = M
    from pyasn1.type import tag as ptag
    T = dict(base, tags=list(ts))
    fails = []
    n = 0
    try:
        stack = x690.tag_stack(T)
    except ValueError:
        return fails, 0
    spec = bridge.to_type(T)
    val = bridge.to_value(T, v, spec)
    # (0) tag algebra against the independent stack
    got_stack = [(t.tagClass, t.tagId) for t in reversed(spec.tagSet.superTags)]
    n += 1
    if got_stack != stack:
        fails.append(fail('tag-stacks', T, v, 'TagSet %r differs from the independent tag stack %r' % (got_stack, stack)))
        return fails, n
    fmts = [t.tagFormat for t in reversed(spec.tagSet.superTags)]
    constructed_base = base['k'] in x690.CONSTRUCTED
    want_fmts = [32] * (len(stack) - 1) + [32 if constructed_base else 0]
    n += 1
    if fmts != want_fmts:
        fails.append(fail('tag-stacks', T, v, 'tag formats %r, expected %r (explicit wrappers constructed; implicit '
                          'tagging keeps the format of the replaced tag)' % (fmts, want_fmts)))
    # (1) identifier octets on the wire, outermost to innermost
    segmented = base['k'] in SEGMENT_TAG and len(v) > (8 if base['k'] == 'BITSTRING' else 1)
    for ename, enc in (('DER', de), ('BER-indef', be)) + ((('BER-segmented', be),) if segmented else ()):
        n += 1
        try:
            e = enc.encode(val, **(dict(defMode=False) if ename == 'BER-indef' else
                                   dict(maxChunkSize=1) if ename == 'BER-segmented' else {}))
        except Exception as ex:
            fails.append(fail('tag-stacks', T, v, 'encoder raised %s: %s' % (type(ex).__name__, str(ex)[:100]), codec=ename))
            continue
        p = 0
        seen = []
        for i in range(len(stack)):
            cls, pc, num, p1 = x690.read_ident(e, p)
            ln, p2 = x690.read_length(e, p1)
            seen.append((cls, num, pc))
            # a segmented string is "constructed contents": its own (innermost) tag is constructed too
            want = bytes(x690.ident(stack[i][0], 32 if ename == 'BER-segmented' else want_fmts[i], stack[i][1]))
            if e[p:p1] != want:
                fails.append(fail('tag-stacks', T, v, 'identifier octets at level %d are %s, X.690 says %s' % (
                    i, e[p:p1].hex(), want.hex()), enc=e, codec=ename))
                break
            p = p2
        else:
            if ename == 'BER-segmented':
                # X.690 8.6.4 / 8.7.3: the segments are encodings of the (untagged) string type itself, whatever
                # tags the value carries
                n += 1
                cls, pc, num, p1 = x690.read_ident(e, p)
                if (cls, pc, num) != (0, 0, SEGMENT_TAG[base['k']]):
                    fails.append(fail('tag-stacks', T, v, 'first segment of the constructed string has identifier %s, '
                                      'expected the universal primitive tag %d' % (e[p:p1].hex(), SEGMENT_TAG[base['k']]),
                                      enc=e, codec=ename))
        # (2) accepted by the same type
        n += 1
        try:
            r, rest = bd.decode(e, asn1Spec=spec)
            if rest and not (ename == 'BER-indef' and 'explicit-over-primitive' in __import__('standins.codec_checks', fromlist=['features']).features(T)):
                fails.append(fail('tag-stacks', T, v, 'remainder after decoding with the same type', enc=e, codec=ename, rest=rest,
                                  mode={'defMode': ename != 'BER-indef'}))
        except Exception as ex:
            fails.append(fail('tag-stacks', T, v, 'same type rejects: %s %s' % (type(ex).__name__, str(ex)[:100]), enc=e,
                              codec=ename, mode={'defMode': ename != 'BER-indef'}))
        if ename != 'DER':
            continue
        # (3) rejected by a type that differs in class or number at one level
        for lvl in range(len(ts)):
            for what in ('class', 'number'):
                m, c, num = ts[lvl]
                if what == 'class':
                    c2, n2 = [x for x in CLASSES if x != c][0], num
                else:
                    c2, n2 = c, (num + 1 if num != 31 else 30)
                ts2 = list(ts)
                ts2[lvl] = (m, c2, n2)
                T2 = dict(base, tags=ts2)
                try:
                    if x690.tag_stack(T2) == stack:
                        continue     # the perturbed tag is overwritten by a later IMPLICIT tag: same type on the wire
                    spec2 = bridge.to_type(T2)
                except Exception:
                    continue
                n += 1
                try:
                    bd.decode(e, asn1Spec=spec2)
                    fails.append(fail('tag-stacks', T, v, 'type with %s changed at level %d accepts the encoding' % (what, lvl),
                                      enc=e, other=ts2))
                except error.PyAsn1Error:
                    pass
                except Exception as ex:
                    fails.append(fail('tag-stacks', T, v, 'non-library error %s on a near-miss type' % type(ex).__name__,
                                      enc=e, other=ts2))
    return fails, n


def algebra(M):
    """explicit tagging refuses UNIVERSAL; implicit tagging of an untagged type is refused"""
    be, bd, ce, cd, de, dd, error, bridge = M
    from pyasn1.type import univ, tag as ptag
    fails, n = [], 0
    for base in (univ.Integer(), univ.Sequence(), univ.OctetString()):
        n += 1
        try:
            base.subtype(explicitTag=ptag.Tag(ptag.tagClassUniversal, ptag.tagFormatSimple, 5))
            fails.append({'check': 'tag-stacks', 'T': {'k': base.__class__.__name__}, 'v': None, 'features': [],
                          'detail': 'explicit tagging with a UNIVERSAL class tag was accepted'})
        except error.PyAsn1Error:
            pass
    return fails, n


def run(tier, seed):
    M = _imports()
    rng = random.Random(seed)
    depth = 2 if tier == 'quick' else 3
    limit = 60 if tier == 'quick' else 700
    fails, evals, distinct = [], 0, 0
    for base, v in BASES:
        for ts in stacks(depth, rng, limit):
            f, n = check_one(base, v, ts, M)
            fails += f
            evals += n
            distinct += 1 if ts else 0
    f, n = algebra(M)
    fails += f
    evals += n
    return {'checks': ['tag-stacks'], 'evaluations': evals, 'distinct_nontrivial': distinct, 'failures': fails}


def main():
    ap = argparse.ArgumentParser()
    ap.add_argument('checks')
    ap.add_argument('--tier', default='quick')
    ap.add_argument('--seed', type=int, default=0)
    ap.add_argument('--out')
    ap.add_argument('--replay')
    a = ap.parse_args()
    if a.replay:
        f = json.loads(a.replay)
        T = unjson(f['T'])
        base = {k: x for k, x in T.items() if k != 'tags'}
        v = unjson_value(T, f['v'])
        fs, n = check_one(base, v, [tuple(t) for t in T.get('tags', [])], _imports())
        for x in fs[:3]:
            print('REPRODUCED %s: %s' % (x['check'], x['detail'][:300]))
        if not fs:
            print('not reproduced on this tree')
        sys.exit(1 if fs else 0)
    t0 = time.time()
    res = run(a.tier, a.seed)
    res['wall_s'] = time.time() - t0
    if a.out:
        json.dump(res, open(a.out, 'w'))
    else:
        print({k: v for k, v in res.items() if k != 'failures'})
        import collections
        cn = collections.Counter((f['detail'][:90], tuple(f.get('features', []))[:3]) for f in res['failures'])
        for k, c in cn.most_common(20):
            print(c, k)


if __name__ == '__main__':
    main()
