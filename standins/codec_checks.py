"""Bounded stand-ins for the codec entry points (labelled `bounded`, never counted as proved).

Each check evaluates the *contract of an entry point* (stated against the independent reference
spec/x690.py) on the shared bounded universe U2.  Runs under /venv/bin/python with
PYTHONPATH=<repo>:/verif:

    python -m standins.codec_checks <check> --tier quick|thorough --seed N --out file.json
"""
from standins import guard
import argparse
import io
import json
import multiprocessing as mp
import os
import sys
import time
import traceback

from spec import x690
from spec import universe as U


def _imports():
    from pyasn1.codec.ber import encoder as be, decoder as bd
    from pyasn1.codec.cer import encoder as ce, decoder as cd
    from pyasn1.codec.der import encoder as de, decoder as dd
    from pyasn1 import error
    from standins import bridge
    return be, bd, ce, cd, de, dd, error, bridge


def always_value(t):
    """a record type with declared members none of which is mandatory: its freshly instantiated placeholder is a value"""
    return t['k'] in ('SEQUENCE', 'SET') and t['fields'] and all(m != 'req' for n, ft, m in t['fields'])


def features(T, v=None):
    """structural features of a type / value (used to key known findings narrowly)."""
    f = set()

    def walkv(t, x):
        k = t['k']
        if k in ('SEQUENCE', 'SET') and isinstance(x, dict):
            for n, ft, mode in t['fields']:
                if n not in x and mode == 'opt' and always_value(ft):
                    f.add('absent-optional-record-without-mandatory-members')
                if n in x:
                    if mode == 'opt' and ft['k'] in ('SEQUENCEOF', 'SETOF', 'SEQUENCE', 'SET', 'CHOICE'):
                        try:
                            if x690.enc(ft, x[n], 'DER', ('omit-empty-optional-of',), ine=True) == b'':
                                f.add('empty-optional-of')      # present OPTIONAL member with empty constructed content
                        except Exception:
                            pass
                    walkv(ft, x[n])
        elif k in ('SEQUENCEOF', 'SETOF') and isinstance(x, list):
            for i in x:
                walkv(t['elem'], i)
        elif k == 'CHOICE' and isinstance(x, (tuple, list)):
            walkv([ft for n, ft, m in t['fields'] if n == x[0]][0], x[1])
    if v is not None:
        try:
            walkv(T, v)
        except Exception:
            pass

    def walk(t, top):
        k = t['k']
        tags = t.get('tags', [])
        if any(m == 'E' for m, c, n in tags):
            f.add('explicit')
            if k not in x690.CONSTRUCTED and k not in ('CHOICE', 'ANY'):
                f.add('explicit-over-primitive')
        if any(m == 'I' for m, c, n in tags):
            f.add('implicit')
        f.add('kind:' + k)
        if k in x690.STRINGS and k != 'OCTETSTRING':
            f.add('charstring')
        for fld in t.get('fields', ()):
            walk(fld[1], False)
        if 'elem' in t:
            walk(t['elem'], False)
    walk(T, True)
    return sorted(f)


def jsonable(x):
    if isinstance(x, bytes):
        return {'hex': x.hex()}
    if isinstance(x, (list, tuple)):
        return [jsonable(i) for i in x]
    if isinstance(x, dict):
        return {str(k): jsonable(v) for k, v in x.items()}
    return x


def unjson(x):
    if isinstance(x, dict) and set(x) == {'hex'}:
        return bytes.fromhex(x['hex'])
    if isinstance(x, dict):
        return {k: unjson(v) for k, v in x.items()}
    if isinstance(x, list):
        return [unjson(i) for i in x]
    return x


def unjson_value(T, v):
    """restore tuples that JSON turned into lists (OID arcs, REAL triples, CHOICE pairs)"""
    T = unjson(T) if not isinstance(T, dict) or 'k' not in T else T
    v = unjson(v)
    k = T['k']
    if k in ('OID',):
        return tuple(v)
    if k == 'REAL' and isinstance(v, list):
        return tuple(v)
    if k == 'CHOICE':
        ft = [f for n, f, m in T['fields'] if n == v[0]][0]
        return (v[0], unjson_value(ft, v[1]))
    if k in ('SEQUENCE', 'SET'):
        return {n: unjson_value(ft, v[n]) for n, ft, m in T['fields'] if n in v}
    if k in ('SEQUENCEOF', 'SETOF'):
        return [unjson_value(T['elem'], x) for x in v]
    return v


def fail(check, T, v, detail, **extra):
    d = {'check': check, 'T': jsonable(T), 'v': jsonable(v), 'detail': detail, 'features': features(T, v)}
    d.update({k: jsonable(x) for k, x in extra.items()})
    return d


MODES = [dict(), dict(defMode=False), dict(maxChunkSize=1), dict(defMode=False, maxChunkSize=1),
         dict(maxChunkSize=7), dict(defMode=False, maxChunkSize=7), dict(maxChunkSize=3), dict(maxChunkSize=1000)]


def value_size(v):
    if isinstance(v, (bytes, str)):
        return len(v)
    if isinstance(v, (list, tuple)):
        return sum(value_size(i) for i in v)
    if isinstance(v, dict):
        return sum(value_size(i) for i in v.values())
    return 1


# ---- individual checks; each returns a list of failures for one (T, v) -------------------
def chk_der_twin(T, v, M):
    """C03: DER encoder output is byte-identical to the independent DER reference."""
    be, bd, ce, cd, de, dd, error, bridge = M
    try:
        ref = x690.der(T, v)
    except ValueError:
        return [], 0
    try:
        got = de.encode(bridge.to_value(T, v))
    except Exception as e:
        return [fail('der-twin', T, v, 'encoder raised %s: %s' % (type(e).__name__, e))], 1
    if got != ref:
        return [fail('der-twin', T, v, 'DER differs', got=got, want=ref, quirk=x690.which_quirks(T, v, 'DER', got))], 1
    # DER fixes its modes: caller-supplied encoder options must not change the bytes
    out = []
    # ... nor does a per-object BER preference of a REAL (Real.binEncBase)
    from standins.object_checks import set_real_bases
    for b_ in (8, 16):
        tuned = bridge.to_value(T, v)
        if set_real_bases(tuned, b_):
            try:
                g3 = de.encode(tuned)
                g4 = ce.encode(tuned)
            except Exception as e:
                out.append(fail('der-twin', T, v, 'canonical encoder with binEncBase=%d raised %s' % (b_, type(e).__name__)))
                continue
            if g3 != got:
                out.append(fail('der-twin', T, v, 'DER output depends on Real.binEncBase = %d' % b_, got=g3, want=got))
            if g4 != ce.encode(bridge.to_value(T, v)):
                out.append(fail('der-twin', T, v, 'CER output depends on Real.binEncBase = %d' % b_, got=g4))
    for opts in (dict(maxChunkSize=1), dict(defMode=False), dict(maxChunkSize=2, defMode=False)):
        try:
            g2 = de.encode(bridge.to_value(T, v), **opts)
        except Exception as e:
            out.append(fail('der-twin', T, v, 'DER encoder with %r raised %s' % (opts, type(e).__name__), mode=None))
            continue
        if g2 != got:
            out.append(fail('der-twin', T, v, 'DER output depends on caller option %r' % (opts,), got=g2, want=got))
    return out, 4


def chk_cer_twin(T, v, M):
    """C03: CER output meets the canonical-form rules = equals the independent CER reference."""
    be, bd, ce, cd, de, dd, error, bridge = M
    try:
        ref = x690.cer(T, v)
    except ValueError:
        return [], 0
    try:
        got = ce.encode(bridge.to_value(T, v))
    except Exception as e:
        return [fail('cer-twin', T, v, 'encoder raised %s: %s' % (type(e).__name__, e))], 1
    if got != ref:
        return [fail('cer-twin', T, v, 'CER differs', got=got, want=ref, quirk=x690.which_quirks(T, v, 'CER', got))], 1
    out = []
    for opts in (dict(maxChunkSize=1), dict(defMode=True)):
        try:
            g2 = ce.encode(bridge.to_value(T, v), **opts)
        except Exception as e:
            out.append(fail('cer-twin', T, v, 'CER encoder with %r raised %s' % (opts, type(e).__name__)))
            continue
        if g2 != got:
            out.append(fail('cer-twin', T, v, 'CER output depends on caller option %r' % (opts,), got=g2, want=got))
    return out, 3


def chk_ber_read(T, v, M):
    """C03: every BER encoder output, read by the independent reader, denotes the same value."""
    be, bd, ce, cd, de, dd, error, bridge = M
    out, n = [], 0
    want = x690.norm(T, v)
    val = bridge.to_value(T, v)
    for mode in MODES:
        n += 1
        try:
            e = be.encode(val, **mode)
        except Exception as ex:
            out.append(fail('ber-read', T, v, 'encoder raised %s: %s' % (type(ex).__name__, str(ex)[:200]),
                            mode=mode))
            continue
        try:
            got, rest = x690.decode(T, e)
        except Exception as ex:
            out.append(fail('ber-read', T, v, 'reference reader rejects output: %s %s' % (type(ex).__name__, ex),
                            mode=mode, enc=e))
            continue
        if got != want or rest:
            out.append(fail('ber-read', T, v, 'reference reader sees another value/remainder', mode=mode, enc=e,
                            got=repr(got), rest=rest))
        elif T['k'] == 'REAL' and isinstance(v, tuple) and v[1] == 10 and v[0] and not T.get('tags') and mode == MODES[0]:
            # X.690 8.5.8: a decimal REAL is one of the ISO 6093 forms; NR3 ("E" form) has a decimal mark in its mantissa.
            # The reference reader above is lenient about it, a strict one is not.
            body = e[3:] if len(e) > 2 and e[1] < 128 else b''
            if e[:1] == b'\x09' and e[2:3] == b'\x03' and b'E' in body and b'.' not in body.split(b'E')[0]:
                out.append(fail('ber-read', T, v, 'decimal REAL in NR3 form without a decimal mark in the mantissa: %r' % bytes(body),
                                mode=mode, enc=e, nr3_no_mark=True))
    if 'REAL' in repr(T):
        # X.690 8.5.7.2: the binary encoding may use base 8 or 16 (selected per value, per encoder, or automatically)
        from pyasn1.type import univ as _univ
        saved_v, saved_e = _univ.Real.binEncBase, be.RealEncoder.binEncBase
        try:
            for vbase, ebase in ((8, 2), (16, 2), (None, 8), (None, 16), (None, None)):
                _univ.Real.binEncBase, be.RealEncoder.binEncBase = vbase, ebase
                n += 1
                try:
                    e = be.encode(bridge.to_value(T, v))
                    got, rest = x690.decode(T, e)
                except Exception as ex:
                    out.append(fail('ber-read', T, v, 'REAL base %s/%s: %s: %s' % (vbase, ebase, type(ex).__name__, str(ex)[:160])))
                    continue
                if got != want or rest:
                    out.append(fail('ber-read', T, v, 'REAL encoded with base %s/%s: reference reader sees another value' % (
                        vbase, ebase), enc=e, got=repr(got)))
        finally:
            _univ.Real.binEncBase, be.RealEncoder.binEncBase = saved_v, saved_e
    return out, n


def chk_roundtrip_ber(T, v, M):
    """C01: decode(encode(v, mode), asn1Spec=T) == (v, b'') for every encoder mode."""
    be, bd, ce, cd, de, dd, error, bridge = M
    out, n = [], 0
    want = x690.norm(T, v)
    spec = bridge.to_type(T)
    val = bridge.to_value(T, v, spec)
    for mode in MODES:
        n += 1
        try:
            e = be.encode(val, **mode)
            r, rest = bd.decode(e, asn1Spec=spec)
            got = x690.norm(T, bridge.from_value(T, r))
        except RecursionError as ex:
            out.append(fail('rt-ber', T, v, 'RecursionError', mode=mode))
            continue
        except Exception as ex:
            out.append(fail('rt-ber', T, v, '%s: %s' % (type(ex).__name__, str(ex)[:200]), mode=mode))
            continue
        if got != want or rest:
            out.append(fail('rt-ber', T, v, 'round trip differs', mode=mode, enc=e, got=repr(got), rest=rest))
            continue
        # ... and the library's own comparison agrees that what came back is what went in
        try:
            same = (r == val) and (val == r) and not (r != val)
        except Exception as ex:
            out.append(fail('rt-ber', T, v, 'comparing the decoded value with the original raised %s: %s' % (
                type(ex).__name__, str(ex)[:100]), mode=mode, enc=e))
            continue
        if not same:
            out.append(fail('rt-ber', T, v, 'the decoded value does not compare equal to the original', mode=mode, enc=e))
    return out, n


def untagged_any_in_ber_form(T, v):
    k = T['k']
    if k == 'ANY':
        return not T['tags'] and isinstance(v, (bytes, bytearray)) and len(v) > 1 and v[1] == 0x80
    if k in ('SEQUENCE', 'SET') and isinstance(v, dict):
        return any(untagged_any_in_ber_form(ft, v[n_]) for n_, ft, m_ in T['fields'] if n_ in v)
    if k in ('SEQUENCEOF', 'SETOF'):
        return any(untagged_any_in_ber_form(T['elem'], x) for x in v)
    if k == 'CHOICE':
        return not T['tags'] and untagged_any_in_ber_form(x690.field_type(T, v[0]), v[1])
    return False


def chk_roundtrip_canon(T, v, M):
    """C02: DER -> {DER,CER,BER} decoders, CER -> {CER,BER}; all agree with the value.  The canonical encoders are also
    called with caller-supplied modes: whatever they emit then is "the DER/CER encoding" a user gets."""
    be, bd, ce, cd, de, dd, error, bridge = M
    out, n = [], 0
    if untagged_any_in_ber_form(T, v):
        # the contents of an untagged ANY are the element itself: when they are not canonical, the value has no DER / CER
        # encoding to round-trip (the canonical decoders rightly refuse the indefinite length inside)
        return out, n
    want = x690.norm(T, v)
    spec = bridge.to_type(T)
    val = bridge.to_value(T, v, spec)
    for ename, enc, decs in (('DER', de, (('DER', dd), ('CER', cd), ('BER', bd))), ('CER', ce, (('CER', cd), ('BER', bd)))):
        for opts in ({}, {'maxChunkSize': 3}, {'defMode': ename == 'CER'}):
            oname = ename + ('' if not opts else repr(sorted(opts.items())))
            try:
                e = enc.encode(val, **opts)
            except RecursionError:
                out.append(fail('rt-canon', T, v, 'RecursionError in encoder', pair=oname))
                continue
            except Exception as ex:
                out.append(fail('rt-canon', T, v, 'encoder %s raised %s: %s' % (oname, type(ex).__name__, str(ex)[:200]),
                                pair=oname))
                continue
            for dname, dec in decs:
                n += 1
                try:
                    r, rest = dec.decode(e, asn1Spec=spec)
                    got = x690.norm(T, bridge.from_value(T, r))
                except Exception as ex:
                    out.append(fail('rt-canon', T, v, '%s: %s' % (type(ex).__name__, str(ex)[:200]),
                                    pair=oname + '->' + dname, enc=e))
                    continue
                if got != want or rest:
                    out.append(fail('rt-canon', T, v, 'round trip differs', pair=oname + '->' + dname, enc=e,
                                    got=repr(got), rest=rest))
    return out, n


def chk_ber_forms(T, v, M, limit=60):
    """C09: every BER form produced by the nondeterministic reference encoder decodes to v."""
    be, bd, ce, cd, de, dd, error, bridge = M
    out, n = [], 0
    want = x690.norm(T, v)
    spec = bridge.to_type(T)
    try:
        # every single deviation from the canonical choice, then systematic combinations, then random mixes
        forms = [(e, ['%s:%s' % (l, a)]) for l, a, e in x690.single_deviations(T, v)]
        seen = {e for e, d in forms}
        import random as _r
        extra = list(x690.ber_forms(T, v, limit=limit // 2, with_deviations=True)) + \
            list(x690.ber_forms(T, v, limit=limit // 2, rng=_r.Random(len(repr(v))), with_deviations=True))
        for e, d in extra:
            if e not in seen:
                seen.add(e)
                forms.append((e, d))
    except ValueError:
        return [], 0
    for e, devs in forms:
        n += 1
        try:
            r, rest = bd.decode(e, asn1Spec=spec)
            got = x690.norm(T, bridge.from_value(T, r))
        except Exception as ex:
            out.append(fail('ber-forms', T, v, '%s: %s' % (type(ex).__name__, str(ex)[:200]), enc=e, deviations=devs))
            continue
        if got != want or rest:
            out.append(fail('ber-forms', T, v, 'decodes to another value', enc=e, got=repr(got), rest=rest,
                            deviations=devs))
    return out, n


def chk_tails(T, v, M):
    """C07: decode(e + t) == (value(e), t)."""
    be, bd, ce, cd, de, dd, error, bridge = M
    out, n = [], 0
    want = x690.norm(T, v)
    spec = bridge.to_type(T)
    val = bridge.to_value(T, v, spec)
    selfdesc = bool(U.self_describing([(T, v)]))
    for ename, enc, mode in (('DER', de, {}), ('CER', ce, {}), ('BER-indef', be, dict(defMode=False)),
                             ('BER-chunk', be, dict(maxChunkSize=2))):
        try:
            e = enc.encode(val, **mode)
        except Exception:
            continue    # encoder failures are C01/C02 business
        for tail in (b'', b'\x00\x00', b'\x00' * 5, e, b'\xff\x7f\x03garbage'):
            n += 1
            try:
                r, rest = bd.decode(e + tail, asn1Spec=spec)
                got = x690.norm(T, bridge.from_value(T, r))
            except Exception as ex:
                out.append(fail('tails', T, v, '%s: %s' % (type(ex).__name__, str(ex)[:200]), enc=e, tail=tail,
                                codec=ename))
                continue
            if got != want or rest != tail:
                out.append(fail('tails', T, v, 'value or remainder differs', enc=e, tail=tail, rest=rest,
                                codec=ename, got=repr(got)))
        if selfdesc:
            # without a guiding type: the remainder must be preserved just the same
            for tail in (b'', b'\x00\x00', e):
                n += 1
                try:
                    r, rest = bd.decode(e + tail)
                except Exception as ex:
                    out.append(fail('tails', T, v, 'schemaless %s: %s' % (type(ex).__name__, str(ex)[:200]), enc=e,
                                    tail=tail, codec=ename))
                    continue
                if rest != tail:
                    out.append(fail('tails', T, v, 'schemaless: remainder differs', enc=e, tail=tail, rest=rest,
                                    codec=ename))
    return out, n


def chk_truncation(T, v, M):
    """C06: every proper prefix raises SubstrateUnderrunError (one-shot, bytes and BytesIO)."""
    be, bd, ce, cd, de, dd, error, bridge = M
    out, n = [], 0
    spec = bridge.to_type(T)
    val = bridge.to_value(T, v, spec)
    for ename, enc, dec, mode in (('DER', de, dd, {}), ('CER', ce, cd, {}), ('BER-indef', be, bd, dict(defMode=False)),
                                  ('BER-chunk', be, bd, dict(maxChunkSize=2))):
        try:
            e = enc.encode(val, **mode)
            dec.decode(e, asn1Spec=spec)
        except Exception:
            continue
        cuts = range(len(e)) if len(e) <= 64 else sorted(set(list(range(12)) + list(range(len(e) - 12, len(e))) +
                                                           [len(e) // 2, 999, 1000, 1001, 1002]) & set(range(len(e))))
        for k in cuts:
            for withspec in (True, False):
                n += 1
                try:
                    r = dec.decode(e[:k], asn1Spec=spec if withspec else None)
                    out.append(fail('truncation', T, v, 'prefix decoded to a value', enc=e, cut=k, codec=ename,
                                    withspec=withspec))
                except error.SubstrateUnderrunError:
                    pass
                except Exception as ex:
                    if not withspec and isinstance(ex, error.PyAsn1Error) and k > 0:
                        # without a guiding type the prefix may legitimately look malformed only if the
                        # full encoding is not decodable schemaless either
                        try:
                            dec.decode(e)
                        except Exception:
                            continue
                    out.append(fail('truncation', T, v, '%s instead of SubstrateUnderrunError: %s' % (
                        type(ex).__name__, str(ex)[:120]), enc=e, cut=k, codec=ename, withspec=withspec))
    return out, n


def leaves_of(obj):
    """scalar leaves of a pyasn1 value object in order (python natives)"""
    from pyasn1.type import univ, base
    out = []
    if isinstance(obj, (univ.SequenceOf, univ.SetOf)):
        for i in range(len(obj)):
            out += leaves_of(obj[i])
    elif isinstance(obj, (univ.Sequence, univ.Set)):
        for i in range(len(obj)):
            c = obj.getComponentByPosition(i, default=None, instantiate=False)
            if c is not None and c is not base.noValue and c.isValue:
                out += leaves_of(c)
    elif isinstance(obj, univ.Choice):
        out += leaves_of(obj.getComponent())
    elif isinstance(obj, univ.BitString):
        out.append(('bits', obj.asBinary() if len(obj) else ''))
    elif isinstance(obj, univ.Real):
        out.append(('real', 'inf' if obj.isPlusInf else '-inf' if obj.isMinusInf else
                    x690.norm({'k': 'REAL'}, tuple(int(x) for x in tuple(obj)))))
    elif isinstance(obj, univ.ObjectIdentifier):
        out.append(('oid', tuple(obj)))
    elif isinstance(obj, univ.Null):
        out.append(('null',))
    elif isinstance(obj, univ.Integer):
        out.append(('int', int(obj)))
    elif isinstance(obj, univ.OctetString):
        out.append(('octets', bytes(obj.asOctets())))
    else:
        out.append(('?', repr(obj)))
    return out


def native_leaves(T, v):
    """leaves of the abstract value (T, norm v) in encoding order (independent of pyasn1)"""
    k = T['k']
    if k in ('SEQUENCE', 'SET'):
        out = []
        for n, ft, mode in T['fields']:
            if n in v:
                out += native_leaves(ft, v[n])
        return out
    if k in ('SEQUENCEOF', 'SETOF'):
        return [l for x in v for l in native_leaves(T['elem'], x)]
    if k == 'CHOICE':
        return native_leaves(x690.field_type(T, v[0]), v[1])
    if k == 'BOOLEAN':
        return [('int', int(v))]
    if k in ('INTEGER', 'ENUMERATED'):
        return [('int', v)]
    if k == 'BITSTRING':
        return [('bits', v)]
    if k == 'NULL':
        return [('null',)]
    if k == 'OID':
        return [('oid', tuple(v))]
    if k == 'REAL':
        return [('real', v)]
    return [('octets', x690.str_octets(k, v))]


def has_kind(T, kinds):
    if T['k'] in kinds:
        return True
    return any(has_kind(f[1], kinds) for f in T.get('fields', ())) or ('elem' in T and has_kind(T['elem'], kinds))


def mixed_setof(T):
    if T['k'] == 'SETOF' and T['elem']['k'] == 'CHOICE':     # explicitly tagged or not: the alternatives' tag sets differ
        return True
    return any(mixed_setof(f[1]) for f in T.get('fields', ())) or ('elem' in T and mixed_setof(T['elem']))


def chk_schemaless(T, v, M):
    """C16: decoding a self-describing DER/BER/CER encoding without a guiding type yields a value object whose
    DER re-encoding is byte-identical and whose leaves equal the original's."""
    be, bd, ce, cd, de, dd, error, bridge = M
    from pyasn1.type import base
    if not U.self_describing([(T, v)]):
        return [], 0
    out, n = [], 0
    val = bridge.to_value(T, v)
    want_leaves = native_leaves(T, x690.norm(T, v))
    unordered = has_kind(T, ('SET', 'SETOF'))      # canonical encoders reorder SET / SET OF members
    if unordered:
        want_leaves = sorted(want_leaves, key=repr)
    try:
        d = de.encode(val)
    except Exception:
        return [], 0
    for ename, e, dec in (('DER', d, dd), ('DER->BER', d, bd), ('BER-indef', None, bd), ('CER', None, cd),
                          ('BER-segmented', None, bd), ('BER-indef-segmented', None, bd)):
        if e is None:
            try:
                e = {'BER-indef': lambda: be.encode(val, defMode=False), 'CER': lambda: ce.encode(val),
                     'BER-segmented': lambda: be.encode(val, maxChunkSize=1),
                     'BER-indef-segmented': lambda: be.encode(val, defMode=False, maxChunkSize=1)}[ename]()
            except Exception:
                continue
        n += 1
        try:
            r, rest = dec.decode(e)
        except Exception as ex:
            out.append(fail('schemaless', T, v, '%s: %s' % (type(ex).__name__, str(ex)[:150]), enc=e, codec=ename))
            continue
        if r is None or not isinstance(r, base.Asn1Item) or not r.isValue:
            out.append(fail('schemaless', T, v, 'result is None or a valueless placeholder: %r' % (r,), enc=e,
                            codec=ename))
            continue
        try:
            got_leaves = leaves_of(r)
        except Exception as ex:
            out.append(fail('schemaless', T, v, 'leaves unreadable: %s %s' % (type(ex).__name__, ex), enc=e,
                            codec=ename))
            continue
        if unordered:
            got_leaves = sorted(got_leaves, key=repr)
        if got_leaves != want_leaves or rest:
            out.append(fail('schemaless', T, v, 'leaves differ', enc=e, codec=ename, got=repr(got_leaves)[:300],
                            want=repr(want_leaves)[:300]))
            continue
        # whichever form it was read from, the value is the one the DER encoding denotes (C04: decoded from any BER form).
        # Not asked of a SET OF whose members carry differing tags read from a form that does not order them: without the
        # type such a container is indistinguishable from a SET (the property's quantifier leaves the case out)
        if ename != 'DER' and mixed_setof(T):
            continue
        try:
            re_ = de.encode(r)
        except Exception as ex:
            out.append(fail('schemaless', T, v, 're-encoding raised %s: %s' % (type(ex).__name__, str(ex)[:150]),
                            enc=e, codec=ename))
            continue
        if re_ != d:
            out.append(fail('schemaless', T, v, 're-encoding differs' if ename == 'DER' else
                            'DER of what was read from the %s form differs from the DER encoding' % ename,
                            enc=e, got=re_, codec=ename))
            continue
        if ename.endswith('segmented'):
            # ... and cutting it into segments again gives an encoding of the same value
            try:
                seg_ = be.encode(r, maxChunkSize=1)
                got_, rest_ = x690.decode(T, seg_)
                if got_ != x690.norm(T, v) or rest_:
                    out.append(fail('schemaless', T, v, 'segmented re-encoding denotes another value', enc=seg_, codec=ename))
            except x690.Malformed as ex:
                out.append(fail('schemaless', T, v, 'segmented re-encoding is not a valid encoding: %s' % ex, enc=seg_,
                                codec=ename))
            except Exception as ex:
                out.append(fail('schemaless', T, v, 'segmented re-encoding raised %s: %s' % (type(ex).__name__, str(ex)[:100]),
                                enc=e, codec=ename))
    return out, n


def chk_noncanonical(T, v, M):
    """C15: a single non-canonical rewrite of one element (indefinite length, segmented string, TRUE != FF) is
    rejected by the DER decoder (indefinite, segmented) resp. by the CER and DER decoders (BOOLEAN), wherever
    the element sits, with and without a guiding type."""
    be, bd, ce, cd, de, dd, error, bridge = M
    out, n = [], 0
    spec = bridge.to_type(T)
    try:
        devs = x690.single_deviations(T, v)
    except ValueError:
        return [], 0
    selfdesc = bool(U.self_describing([(T, v)]))
    for label, alt, e in devs:
        if label == 'length' and alt == 'indefinite':
            decs = [('DER', dd)]
        elif label == 'segmented':
            decs = [('DER', dd)]
        elif label == 'empty-bits':
            # the empty bit string in constructed form (no segment at all, or one empty segment) is still constructed
            decs = [('DER', dd)]
        elif label == 'bool':
            decs = [('DER', dd), ('CER', cd)]
        else:
            continue
        for dname, dec in decs:
            for withspec in ((True, False) if selfdesc else (True,)):
                n += 1
                try:
                    dec.decode(e, asn1Spec=spec if withspec else None)
                except error.PyAsn1Error:
                    continue
                except Exception as ex:
                    out.append(fail('noncanonical', T, v, 'non-library error %s: %s' % (type(ex).__name__, ex), enc=e,
                                    rewrite=label + ':' + str(alt), decoder=dname, withspec=withspec))
                    continue
                out.append(fail('noncanonical', T, v, 'non-canonical encoding accepted', enc=e,
                                rewrite=label + ':' + str(alt), decoder=dname, withspec=withspec))
    return out, n


CHECKS = {
    'der-twin': chk_der_twin, 'cer-twin': chk_cer_twin, 'ber-read': chk_ber_read, 'rt-ber': chk_roundtrip_ber,
    'rt-canon': chk_roundtrip_canon, 'ber-forms': chk_ber_forms, 'tails': chk_tails, 'truncation': chk_truncation, 'schemaless': chk_schemaless, 'noncanonical': chk_noncanonical,
}


def _run_chunk(args):
    names, pairs = args
    M = _imports()
    fails, evals, nontriv = [], 0, set()
    for T, v in pairs:
        for nm in names:
            try:
                f, n = guard.run_case(lambda: CHECKS[nm](T, v, M))
            except guard.CaseTimeout:
                f, n = [fail(nm, T, v, 'does not terminate within %d s on this case' % guard.CASE_SECONDS)], 1
            except Exception as ex:
                f, n = [fail(nm, T, v, 'harness error %s: %s' % (type(ex).__name__, ex),
                             trace=traceback.format_exc()[-800:], harness_error=True)], 1
            fails.extend(f)
            evals += n
        if value_size(v) > 0 or T.get('tags') or T['k'] in x690.CONSTRUCTED:
            nontriv.add(repr((T, v)))
    return fails, evals, len(nontriv)


def run(names, tier, seed, include_long=True, jobs=16):
    pairs = U.universe(seed=seed, tier=tier, include_long=include_long)
    chunks = [pairs[i::jobs * 4] for i in range(jobs * 4)]
    chunks = [c for c in chunks if c]
    ctx = mp.get_context('fork')
    with ctx.Pool(jobs) as pool:
        res = pool.map(_run_chunk, [(names, c) for c in chunks], chunksize=1)
    fails = [f for r in res for f in r[0]]
    extra = 0
    if 'noncanonical' in names:
        f2, extra = noncanonical_open_types(_imports())
        fails += f2
    return {'checks': names, 'pairs': len(pairs), 'evaluations': sum(r[1] for r in res) + extra,
            'distinct_nontrivial': sum(r[2] for r in res), 'failures': fails}


def noncanonical_open_types(M):
    """C15 "everywhere": the inner value of a resolved open type (ANY DEFINED BY) is decoded by the running codec, so a
    non-canonical rewrite *inside* it is refused by DER (resp. CER) as anywhere else"""
    be, bd, ce, cd, de, dd, error, bridge = M
    from pyasn1.type import univ, namedtype, opentype
    ot = opentype.OpenType('id', {1: univ.Boolean(), 2: univ.OctetString(), 3: univ.Sequence(
        componentType=namedtype.NamedTypes(namedtype.NamedType('s', univ.SequenceOf(componentType=univ.Integer()))))})
    spec = univ.Sequence(componentType=namedtype.NamedTypes(namedtype.NamedType('id', univ.Integer()),
                                                            namedtype.NamedType('blob', univ.Any(), openType=ot)))
    T0 = {'k': 'SEQUENCE', 'tags': [], 'fields': []}
    cases = [('3006020101010101', 'BOOLEAN TRUE written 01', ('DER', 'CER')),
             ('300a0201022405040361 6263'.replace(' ', ''), 'segmented OCTET STRING', ('DER',)),
             ('300c0201033007308002010500 00'.replace(' ', ''), 'indefinite length inside the inner value', ('DER',)),
             ('30060201010101ff', None, ()), ('3008020102040361 6263'.replace(' ', ''), None, ())]
    out, n = [], 0
    for hexs, what, refusers in cases:
        b = bytes.fromhex(hexs)
        for dname, dec in (('DER', dd), ('CER', cd)):
            n += 1
            try:
                dec.decode(b, asn1Spec=spec, decodeOpenTypes=True)
                accepted = True
            except error.PyAsn1Error:
                accepted = False
            except Exception as ex:
                out.append(fail('noncanonical', T0, None, 'open type inner value: non-library error %s' % type(ex).__name__,
                                enc=b, decoder=dname))
                continue
            if what is None and dname == 'DER' and not accepted:
                out.append(fail('noncanonical', T0, None, 'canonical inner value of an open type refused', enc=b, decoder=dname))
            if what is not None and dname in refusers and accepted:
                out.append(fail('noncanonical', T0, None, 'non-canonical encoding accepted inside a resolved open type: %s' % what,
                                enc=b, decoder=dname, rewrite='open-type-inner'))
    return out, n


def main():
    ap = argparse.ArgumentParser()
    ap.add_argument('checks')
    ap.add_argument('--tier', default='quick')
    ap.add_argument('--seed', type=int, default=0)
    ap.add_argument('--out')
    ap.add_argument('--jobs', type=int, default=16)
    ap.add_argument('--replay')
    a = ap.parse_args()
    if a.replay:
        f = json.loads(a.replay)
        T, v = unjson(f['T']), unjson_value(f['T'], f['v'])
        fs, n = CHECKS[f['check']](T, v, _imports())
        same = [x for x in fs if x['detail'][:40] == f['detail'][:40]] or fs
        for x in same[:3]:
            print('REPRODUCED %s: %s %s' % (x['check'], x['detail'], json.dumps({k: x[k] for k in x if k in (
                'mode', 'enc', 'got', 'want', 'rest', 'pair', 'cut', 'tail')})[:600]))
        if not same:
            print('not reproduced on this tree')
        sys.exit(1 if same else 0)
    t0 = time.time()
    res = run(a.checks.split(','), a.tier, a.seed, jobs=a.jobs)
    res['wall_s'] = time.time() - t0
    js = json.dumps(res)
    if a.out:
        with open(a.out, 'w') as f:
            f.write(js)
    else:
        print(json.dumps({k: v for k, v in res.items() if k != 'failures'}))
        seen = {}
        for f in res['failures']:
            key = (f['check'], f['detail'][:60], tuple(f['features']))
            seen.setdefault(key, []).append(f)
        for key, fs in sorted(seen.items(), key=lambda kv: -len(kv[1])):
            print(len(fs), key[0], '|', key[1], '|', [x for x in key[2] if not x.startswith('kind:')],
                  [x for x in key[2] if x.startswith('kind:')][:4])
            print('     e.g.', json.dumps({k: fs[0][k] for k in fs[0] if k not in ('features', 'check', 'detail')})[:300])


if __name__ == '__main__':
    main()
